"""framework.py — the steps every property check shares:
gen -> audit -> prove (make + Print Assumptions) -> driver (extract + ocamlopt)
-> correspond (harness) -> decide (known findings) -> evidence.
See DESIGN.md section 2.3."""
import fcntl, hashlib, importlib, json, os, random, re, shutil, subprocess, sys, tempfile, time
from pathlib import Path

from . import sx

VERIF = Path(__file__).resolve().parents[2]
REPO = Path(os.environ.get('VERIF_REPO', '/repo'))
COQ = VERIF / 'coq'
OCAML = VERIF / 'ocaml'
PY = '/venv/bin/python'
LIBNAME = 'PV'
COQ_TIMEOUT = int(os.environ.get('VERIF_COQ_TIMEOUT', '1500'))

TRUSTED_BASE = [
    'Coq 8.16.1 kernel (coqc; vm_compute used for finite sweeps; no native_compute)',
    'translator tools/gen (live-object introspection of /repo modules + fail-closed Python-ast expression translator)',
    'extraction: Require Import ExtrOcamlBasic only (bool, option, unit, list, prod, sumbool, sumor; andb/orb inlined); Z/positive/nat/string/ascii stay inductive; no Extract Constant of our own',
    'OCaml 4.13.1 ocamlfind ocamlopt; ocaml/main.ml (S-expression reader/printer)',
    'correspondence harness tools/harness (generators, adapters, canonicalisation)',
    'specifications in coq/Spec written from gABI/DWARF/psABI/EHABI texts; vendored registry headers under registry/',
    'CPython 3.12, vendored construct library and zlib are modelled, not verified',
]

FORBIDDEN = [
    (re.compile(r'\bAdmitted\b'), 'Admitted'),
    (re.compile(r'\badmit\b'), 'admit'),
    (re.compile(r'^\s*(Local\s+|Global\s+|#\[[^\]]*\]\s*)?(Axiom|Axioms|Parameter|Parameters|Conjecture|Conjectures)\b', re.M), 'Axiom/Parameter/Conjecture'),
    (re.compile(r'Admit\s+Obligations'), 'Admit Obligations'),
    (re.compile(r'Unset\s+Guard\s+Checking|Unset\s+Positivity\s+Checking|Unset\s+Universe\s+Checking'), 'kernel check switched off'),
    (re.compile(r'bypass_check'), 'bypass_check'),
    (re.compile(r'type-in-type|impredicative-set'), 'type-in-type/impredicative-set'),
]


def log(*a):
    print('[check]', *a, file=sys.stderr, flush=True)


def run(cmd, cwd=None, timeout=None, env=None, input=None):
    p = subprocess.run(cmd, cwd=cwd, timeout=timeout, env=env, input=input,
                       stdout=subprocess.PIPE, stderr=subprocess.STDOUT, text=True)
    return p.returncode, p.stdout


class Lock:
    def __init__(self, name):
        self.path = COQ.parent / ('.lock-' + name)
    def __enter__(self):
        self.f = open(self.path, 'w')
        fcntl.flock(self.f, fcntl.LOCK_EX)
        return self
    def __exit__(self, *a):
        fcntl.flock(self.f, fcntl.LOCK_UN)
        self.f.close()


# ---------------------------------------------------------------- gen
def step_gen():
    """Regenerate coq/Gen/*.v from the live /repo modules (only rewrites changed files)."""
    env = dict(os.environ, PYTHONPATH=str(REPO), PYTHONHASHSEED='0', VERIF_GEN_DIR=str(COQ / 'Gen'))
    with Lock('gen'):
        rc, out = run([PY, str(VERIF / 'tools/gen/run_gen.py')], env=env, timeout=600)
    return rc == 0, out


def gen_failures_for(gen_out, rel_files):
    """Which translator failures concern this property: the failed modules whose output files are in the
    import closure of the property's Coq files (unknown outputs => charged to everyone: fail closed)."""
    failed = re.findall(r'^gen: FAILED (\S+)', gen_out, re.M)
    if not failed:
        return ['translator run failed']          # crashed before reporting: fail closed
    try:
        owners = json.loads((COQ / 'Gen' / '.owners.json').read_text())
    except Exception:
        owners = {}
    closure = import_closure(rel_files)
    out = []
    for m in failed:
        files = owners.get(m)
        if files is None or any(('Gen/' + f) in closure for f in files):
            out.append(m)
    return out


def import_closure(rel_files):
    """transitive `From PV Require Import/Export X.Y` closure, as paths relative to coq/"""
    seen = set()
    todo = list(rel_files)
    while todo:
        f = todo.pop()
        if f in seen:
            continue
        seen.add(f)
        p = COQ / f
        if not p.exists():
            continue
        text = strip_comments(p.read_text())
        for m in re.finditer(r'From\s+%s\s+Require\s+(?:Import|Export)?(.*?)\.(?=\s)' % LIBNAME, text, re.S):
            for name in m.group(1).split():
                if re.match(r'^[A-Za-z_][\w.]*$', name):
                    todo.append(name.replace('.', '/') + '.v')
        for m in re.finditer(r'Require\s+(?:Import|Export)?\s+%s\.([\w.]+)' % LIBNAME, text):
            todo.append(m.group(1).replace('.', '/') + '.v')
    return seen


# ---------------------------------------------------------------- audit
def _in_section_ranges(text):
    """character ranges that are inside Section ... End blocks"""
    ranges = []
    stack = []
    for m in re.finditer(r'^\s*(Section|End)\s+(\w+)\s*\.', text, re.M):
        if m.group(1) == 'Section':
            stack.append((m.group(2), m.start()))
        elif stack and stack[-1][0] == m.group(2):
            name, st = stack.pop()
            if not stack:
                ranges.append((st, m.end()))
    return ranges


def strip_comments(text):
    out = []
    depth = 0
    i = 0
    n = len(text)
    while i < n:
        if text.startswith('(*', i):
            depth += 1
            i += 2
        elif text.startswith('*)', i) and depth > 0:
            depth -= 1
            i += 2
        else:
            if depth == 0:
                out.append(text[i])
            elif text[i] == '\n':
                out.append('\n')
            i += 1
    return ''.join(out)


def step_audit(rel_files=None):
    """forbidden constructs in the Coq files the property's theorems and driver depend on (their import
    closure); with rel_files=None the whole development"""
    hits = []
    only = None if rel_files is None else import_closure(rel_files)
    for p in sorted(COQ.rglob('*.v')):
        if only is not None and str(p.relative_to(COQ)) not in only:
            continue
        text = strip_comments(p.read_text())
        for rx, what in FORBIDDEN:
            for m in rx.finditer(text):
                hits.append('%s: %s' % (p.relative_to(COQ.parent), what))
        secs = _in_section_ranges(text)
        for m in re.finditer(r'^\s*(Variable|Variables|Hypothesis|Hypotheses|Context)\b', text, re.M):
            if not any(a <= m.start() < b for a, b in secs):
                hits.append('%s: %s outside a section' % (p.relative_to(COQ.parent), m.group(1)))
    proj = COQ / '_CoqProject'
    if proj.exists() and re.search(r'type-in-type|impredicative-set|-vos|-vok', proj.read_text()):
        hits.append('_CoqProject: forbidden flag')
    return hits


# ---------------------------------------------------------------- prove
def ensure_makefile():
    files = sorted(str(p.relative_to(COQ)) for p in COQ.rglob('*.v')
                   if '/build/' not in str(p) and not p.name.startswith('.'))
    proj = '-Q . %s\n' % LIBNAME + '\n'.join(files) + '\n'
    pf = COQ / '_CoqProject'
    if not pf.exists() or pf.read_text() != proj or not (COQ / 'Makefile').exists():
        pf.write_text(proj)
        rc, out = run(['coq_makefile', '-f', '_CoqProject', '-o', 'Makefile'], cwd=COQ, timeout=120)
        if rc != 0:
            raise RuntimeError('coq_makefile failed: ' + out)


def step_make(targets, jobs=16):
    with Lock('coq'):
        ensure_makefile()
        rc, out = run(['timeout', str(COQ_TIMEOUT), 'make', '-j%d' % jobs, '-k'] + targets, cwd=COQ,
                      timeout=COQ_TIMEOUT + 30)
    return rc == 0, out


THEOREM_RX = re.compile(r'^(Theorem|Example)\s+(\w+)', re.M)


def split_props(text):
    """header (imports etc.) and the list of (kind, name, block_text)"""
    ms = list(THEOREM_RX.finditer(text))
    if not ms:
        return text, []
    header = text[:ms[0].start()]
    blocks = []
    for i, m in enumerate(ms):
        end = ms[i + 1].start() if i + 1 < len(ms) else len(text)
        blocks.append((m.group(1), m.group(2), text[m.start():end]))
    return header, blocks


def parse_assumptions(out):
    """list of results in order of the Print Assumptions commands: 'closed' or list of axiom names"""
    res = []
    cur = None
    for line in out.splitlines():
        if line.startswith('Closed under the global context'):
            if cur is not None:
                res.append(cur)
                cur = None
            res.append('closed')
        elif line.startswith('Axioms:'):
            if cur is not None:
                res.append(cur)
            cur = []
        elif cur is not None:
            m = re.match(r'^(\S+)\s*:', line)
            if m and not line.startswith(' '):
                cur.append(m.group(1))
    if cur is not None:
        res.append(cur)
    return res


AXIOM_WHITELIST = set()   # no standard-library axiom is expected anywhere (DESIGN 2.5)


def step_prove(prop, props_rel):
    """Compile Props/<id>.v, capturing Print Assumptions.  Returns dict with per-theorem status."""
    src = COQ / props_rel
    text = src.read_text()
    header, blocks = split_props(strip_comments(text))
    theorems = [b for b in blocks if b[0] == 'Theorem']
    info = {'obligations': len(theorems), 'discharged': 0, 'theorems': {}, 'axioms': {},
            'failed': [], 'coqc_error': None, 'examples': len(blocks) - len(theorems)}
    tmp = Path(tempfile.mkdtemp(prefix='pv-prove-'))
    try:
        dst = tmp / ('Chk_' + src.name)
        shutil.copy(src, dst)
        rc, out = run(['timeout', str(COQ_TIMEOUT), 'coqc', '-Q', str(COQ), LIBNAME, str(dst)],
                      cwd=tmp, timeout=COQ_TIMEOUT + 30)
        if rc == 0:
            pa = parse_assumptions(out)
            printed = re.findall(r'^Print Assumptions (\w+)\.', strip_comments(text), re.M)
            for name, r in zip(printed, pa):
                info['axioms'][name] = 'Closed under the global context' if r == 'closed' else r
            for kind, name, _ in theorems:
                r = info['axioms'].get(name)
                if r is None:
                    info['theorems'][name] = 'no-Print-Assumptions'
                    info['failed'].append(name)
                elif r == 'Closed under the global context' or all(a in AXIOM_WHITELIST for a in r):
                    info['theorems'][name] = 'proved'
                    info['discharged'] += 1
                else:
                    info['theorems'][name] = 'depends-on-axioms'
                    info['failed'].append(name)
            if info['examples'] == 0:
                info['failed'].append('no-non-vacuity-Example')
        else:
            info['coqc_error'] = out[-3000:]
            # count each obligation independently with a stub per theorem
            stubs = []
            for kind, name, block in blocks:
                sp = tmp / ('Stub_%s.v' % name)
                sp.write_text(header + '\n' + block)
                stubs.append((kind, name, sp))
            procs = []
            for kind, name, sp in stubs:
                procs.append((kind, name, subprocess.Popen(
                    ['timeout', '600', 'coqc', '-Q', str(COQ), LIBNAME, str(sp)], cwd=tmp,
                    stdout=subprocess.PIPE, stderr=subprocess.STDOUT, text=True)))
            for kind, name, p in procs:
                o, _ = p.communicate()
                if kind != 'Theorem':
                    continue
                if p.returncode == 0 and 'Closed under the global context' in o:
                    info['theorems'][name] = 'proved'
                    info['discharged'] += 1
                else:
                    info['theorems'][name] = 'FAILED'
                    info['failed'].append(name)
                    info.setdefault('errors', {})[name] = o[-1500:]
            if not info['failed']:
                info['failed'].append('Props file does not compile as a whole')
    finally:
        shutil.rmtree(tmp, ignore_errors=True)
    return info


def step_coqchk(props_rel):
    """thorough tier: independent re-check of the property's .vo and everything it depends on"""
    mod = LIBNAME + '.' + props_rel[:-2].replace('/', '.')
    rc, out = run(['timeout', '1800', 'coqchk', '-silent', '-o', '-Q', '.', LIBNAME, mod], cwd=COQ, timeout=1830)
    m = re.search(r'\* Axioms:(.*?)\n\s*\n\* Constants/Inductives relying on type-in-type:(.*?)\n\s*\n'
                  r'\* Constants/Inductives relying on unsafe \(co\)fixpoints:(.*?)\n\s*\n'
                  r'\* Inductives whose positivity is assumed:(.*?)\n', out, re.S)
    res = {'rc': rc}
    if m:
        res.update(axioms=m.group(1).strip(), type_in_type=m.group(2).strip(),
                   unsafe_fixpoints=m.group(3).strip(), assumed_positivity=m.group(4).strip())
        res['clean'] = rc == 0 and all(res[k] == '<none>' for k in
                                       ('axioms', 'type_in_type', 'unsafe_fixpoints', 'assumed_positivity'))
    else:
        res['clean'] = False
        res['tail'] = out[-1500:]
    return res


# ---------------------------------------------------------------- driver
def step_driver(prop, drv_rel):
    """Extract Extract/Drv<id>.v's dispatch and link it with ocaml/main.ml.  Cached on content hash."""
    bdir = OCAML / 'build' / prop.lower()
    bdir.mkdir(parents=True, exist_ok=True)
    exe = bdir / 'drv'
    vo = (COQ / drv_rel).with_suffix('.vo')
    with Lock('drv-' + prop):
        if not vo.exists():
            return (exe if exe.exists() else None), 'driver .vo missing (build failed)', exe.exists()
        h = hashlib.sha256(vo.read_bytes() + (OCAML / 'main.ml').read_bytes()).hexdigest()
        stamp = bdir / 'stamp'
        if exe.exists() and stamp.exists() and stamp.read_text() == h:
            return exe, 'cached', False
        mod = drv_rel[:-2].replace('/', '.')
        (bdir / 'ex.v').write_text(
            'From %s Require Import %s.\nRequire Extraction.\nRequire Import ExtrOcamlBasic.\n'
            'Extraction "drv.ml" dispatch.\n' % (LIBNAME, mod))
        rc, out = run(['timeout', '600', 'coqc', '-Q', str(COQ), LIBNAME, 'ex.v'], cwd=bdir, timeout=630)
        if rc != 0:
            return (exe if exe.exists() else None), 'extraction failed: ' + out[-2000:], exe.exists()
        shutil.copy(OCAML / 'main.ml', bdir / 'main.ml')
        rc, out = run(['ocamlfind', 'ocamlopt', '-O2', '-w', '-a', 'drv.mli', 'drv.ml', 'main.ml', '-o', 'drv'],
                      cwd=bdir, timeout=600)
        if rc != 0:
            return (exe if exe.exists() else None), 'ocamlopt failed: ' + out[-2000:], exe.exists()
        stamp.write_text(h)
        return exe, 'built', False


def _die_with_parent():
    try:
        import ctypes, signal as _sig
        ctypes.CDLL('libc.so.6', use_errno=True).prctl(1, _sig.SIGKILL)     # PR_SET_PDEATHSIG
    except Exception:
        pass


class Driver:
    def __init__(self, exe):
        self.exe = str(exe)
        self.calls = 0
    def batch(self, reqs):
        """reqs: list of Python values -> list of Python values"""
        if not reqs:
            return []
        data = '\n'.join(sx.dumps(r) for r in reqs) + '\n'
        # the driver dies with this process (PR_SET_PDEATHSIG) and cannot exhaust the machine: address space and
        # CPU time are capped (a model that diverges on some request is then a failed batch, not a stuck host)
        mem_kb = int(os.environ.get('VERIF_DRIVER_MEM_KB', str(16 * 1024 * 1024)))
        p = subprocess.run(['bash', '-c', 'ulimit -s unlimited 2>/dev/null; ulimit -v %d 2>/dev/null; '
                            'ulimit -t 14400 2>/dev/null; exec "$0"' % mem_kb, self.exe],
                           input=data, stdout=subprocess.PIPE, stderr=subprocess.PIPE, text=True,
                           preexec_fn=_die_with_parent)
        lines = p.stdout.split('\n')
        if lines and lines[-1] == '':
            lines.pop()
        if p.returncode != 0 or len(lines) != len(reqs):
            raise RuntimeError('driver failed rc=%s answered %d of %d: %s' %
                               (p.returncode, len(lines), len(reqs), p.stderr[-500:]))
        self.calls += len(reqs)
        return [sx.loads(l) for l in lines]
    def one(self, req):
        return self.batch([req])[0]


# ---------------------------------------------------------------- harness context
class Ctx:
    def __init__(self, prop, tier, seed, driver):
        self.prop = prop
        self.tier = tier
        self.seed = seed
        self.rng = random.Random((seed, prop).__repr__())
        self.driver = driver
        self.results = []      # every case, only when keep_all (replay)
        self.keep_all = False
        self.failures = []
        self.samples = []
        self.sample_kinds = set()
        self.drift_samples = []
        self.distinct = set()
        self.n_eval = 0
        self.n_in = 0
        self.hist = {}
        self.notes = []
        self.drift = 0
    def scale(self, quick, thorough):
        return thorough if self.tier == 'thorough' else quick
    def bump(self, name, bucket):
        d = self.hist.setdefault(name, {})
        d[str(bucket)] = d.get(str(bucket), 0) + 1
    def record(self, kind, abstract, impl, spec, model=None, in_domain=True, nontrivial=True,
               key=None, detail=None):
        """One evaluated case.  impl/spec/model are canonical Python values (see sx.canon).
        in_domain: inside the property's quantifier (certified by the driver's wf check where there is one).
        key: finding key if this case fails (defaults to kind).
        Aggregated on the fly: only failing cases, drift cases and a few samples are kept."""
        impl = sx.canon(impl)
        spec = sx.canon(spec)
        has_model = model is not None
        model = sx.canon(model) if has_model else None
        self.n_eval += 1
        if nontrivial:
            self.distinct.add(hashlib.blake2b(repr((kind, abstract)).encode(), digest_size=8).digest())
        r = None
        if in_domain:
            self.n_in += 1
            bad_impl = impl != spec
            bad_echo = has_model and model != spec
            if bad_impl or bad_echo:
                r = {'kind': kind, 'abstract': abstract, 'impl': impl, 'spec': spec, 'model': model,
                     'has_model': has_model, 'in_domain': True, 'nontrivial': nontrivial,
                     'key': key or kind, 'detail': detail, 'bad_impl': bad_impl, 'bad_echo': bad_echo}
                if len(self.failures) < 5000:
                    self.failures.append(r)
        else:
            if has_model and impl != model:
                self.drift += 1
                if len(self.drift_samples) < 5:
                    self.drift_samples.append({'kind': kind, 'abstract': abstract, 'impl': impl, 'model': model})
        if kind not in self.sample_kinds and len(self.samples) < 12:
            self.sample_kinds.add(kind)
            self.samples.append({'kind': kind, 'abstract': abstract, 'impl': impl, 'spec': spec})
        if self.keep_all:
            self.results.append(r or {'kind': kind, 'abstract': abstract, 'impl': impl, 'spec': spec, 'model': model,
                                      'has_model': has_model, 'in_domain': in_domain, 'nontrivial': nontrivial,
                                      'key': key or kind, 'detail': detail})


def load_known():
    out = []
    p = VERIF / 'known_findings.json'
    if p.exists():
        out += json.loads(p.read_text()).get('findings', [])
    d = VERIF / 'known_findings.d'
    if d.is_dir():
        for q in sorted(d.glob('*.json')):
            out += json.loads(q.read_text()).get('findings', [])
    return out


def write_replay(prop, payload):
    d = VERIF / 'replays'
    d.mkdir(exist_ok=True)
    blob = json.dumps(sx.jsonable(payload), indent=1, sort_keys=True, default=str)
    h = hashlib.sha256(blob.encode()).hexdigest()[:12]
    p = d / ('%s-%s.json' % (prop, h))
    p.write_text(blob)
    return p


class HarnessTimeout(BaseException):
    """the correspondence did not finish in time (BaseException: `except Exception` clauses of the
    library under check must not swallow it)"""


# wall-clock budget of the correspondence phase: the implementation (or the extracted model) looping on a
# generated input must end the check with a report, not hang it
HARNESS_BUDGET_S = {'quick': int(os.environ.get('VERIF_QUICK_BUDGET_S', '1200')),
                    'thorough': int(os.environ.get('VERIF_THOROUGH_BUDGET_S', '14400'))}


class ImplTimeout(Exception):
    """one observation of the implementation used more CPU than IMPL_CPU_S: a loop that does not end"""


IMPL_CPU_S = float(os.environ.get('VERIF_IMPL_CPU_S', '20'))
_impl_depth = [0]


def _on_vtalrm(signum, frame):
    raise ImplTimeout()


def impl_call(f, *a, **kw):
    """Run an implementation call, mapping exceptions to the ('err', class-name) shape the driver uses.
    The call is bounded in CPU time (ITIMER_VIRTUAL, independent of the check's wall-clock budget): an
    implementation that loops on some input yields ['err', 'ImplTimeout'] for that observation instead of
    hanging the whole correspondence."""
    import signal
    outer = _impl_depth[0] == 0
    _impl_depth[0] += 1
    if outer:
        old = signal.signal(signal.SIGVTALRM, _on_vtalrm)
        signal.setitimer(signal.ITIMER_VIRTUAL, IMPL_CPU_S)
    try:
        return f(*a, **kw)
    except Exception as e:   # noqa: the point is to observe every exception class
        return ['err', type(e).__name__]
    finally:
        _impl_depth[0] -= 1
        if outer:
            signal.setitimer(signal.ITIMER_VIRTUAL, 0)
            signal.signal(signal.SIGVTALRM, old)


# ---------------------------------------------------------------- main entry
# ---------------------------------------------------------------- environment modes of the correspondence
# The theorems speak about the model; the correspondence ties the model to the library *as the interpreter runs
# it*.  `python -O` strips assert statements (and `if __debug__:` blocks): a side effect hidden in an assert is
# behaviour that differs between the two ways of running the same source.  The same correspondence pass (same
# seed, same cases) is therefore run a second time in a child interpreter started with -O, concurrently with the
# normal pass; its failing cases are merged into the verdict with mode='O' in the replay.
MODES = [m for m in os.environ.get('VERIF_MODES', 'O').split(',') if m]


def _run_harness(ctx, harness, tier, replay_cases=None):
    """gen + evaluate under the wall-clock budget; returns (error-kind, traceback) or (None, None)"""
    import signal, traceback

    def _on_alarm(signum, frame):
        raise HarnessTimeout()
    old_handler = signal.signal(signal.SIGALRM, _on_alarm)
    signal.setitimer(signal.ITIMER_REAL, HARNESS_BUDGET_S[tier])
    try:
        if replay_cases is not None:
            cases = replay_cases
        else:
            cases = list(harness.corpus(ctx)) if hasattr(harness, 'corpus') else []
            cases += list(harness.gen(ctx))
        harness.evaluate(ctx, cases)
        return None, None
    except HarnessTimeout:
        return 'timeout', traceback.format_exc()
    except Exception as e:
        return 'crash: %r' % (e,), traceback.format_exc()
    finally:
        signal.setitimer(signal.ITIMER_REAL, 0)
        signal.signal(signal.SIGALRM, old_handler)


def harness_child(prop, cfg, tier, seed, out):
    """the correspondence pass alone, in this (variant) interpreter; result written to `out` as JSON"""
    exe = os.environ['PV_CHILD_EXE']
    ctx = Ctx(prop, tier, seed, Driver(exe))
    harness = importlib.import_module('tools.harness.' + cfg['harness'])
    kind, tb = _run_harness(ctx, harness, tier)
    fails = []
    per_key = {}
    for r in ctx.failures:
        n = per_key.get(r['key'], 0)
        per_key[r['key']] = n + 1
        if n < 40:
            fails.append(sx.jsonable(r))
    Path(out).write_text(json.dumps({'optimize': sys.flags.optimize, 'n_eval': ctx.n_eval, 'n_in': ctx.n_in,
                                     'failures': fails, 'failing_by_key': per_key,
                                     'error': kind, 'traceback': tb}, default=str))
    return 0


def spawn_mode_child(prop, tier, exe, mode):
    fd, out = tempfile.mkstemp(prefix='pv-mode-%s-' % mode, suffix='.json')
    os.close(fd)
    flags = {'O': ['-O']}[mode]
    env = dict(os.environ, PV_CHILD_EXE=str(exe), PYTHONOPTIMIZE='1' if mode == 'O' else '')
    p = subprocess.Popen([sys.executable] + flags + [str(VERIF / 'check'), prop, '--tier', tier, '--mode-child', out],
                         env=env, stdout=subprocess.DEVNULL, stderr=subprocess.PIPE, text=True,
                         preexec_fn=_die_with_parent)
    return p, out


def collect_mode_child(p, out, tier):
    try:
        _, err = p.communicate(timeout=HARNESS_BUDGET_S[tier] + 120)
    except subprocess.TimeoutExpired:
        p.kill()
        p.communicate()
        err = 'child did not finish'
    try:
        data = json.loads(Path(out).read_text())
    except Exception:
        data = {'error': 'no result from the child (rc=%s): %s' % (p.returncode, (err or '')[-1500:]),
                'failures': [], 'n_eval': 0, 'n_in': 0, 'failing_by_key': {}}
    finally:
        try:
            os.unlink(out)
        except OSError:
            pass
    return data



def main_check(prop, cfg, tier, seed, replay=None):
    """With VERIF_REPO pointing at a scratch copy (mutation testing) the whole check runs on a private
    copy of coq/ and ocaml/ so that regenerated Gen files and rebuilt drivers never disturb /verif."""
    global COQ, OCAML, EVIDENCE_DIR
    alt = None
    if str(REPO) != '/repo':
        alt = Path(tempfile.mkdtemp(prefix='pv-alt-'))
        with Lock('coq'):
            run(['rsync', '-a', '--exclude', '.lock-*', str(VERIF / 'coq') + '/', str(alt / 'coq') + '/'])
        run(['rsync', '-a', str(VERIF / 'ocaml') + '/', str(alt / 'ocaml') + '/'])
        COQ, OCAML, EVIDENCE_DIR = alt / 'coq', alt / 'ocaml', alt / 'evidence'
        os.environ['VERIF_GEN_DIR'] = str(COQ / 'Gen')
        log('scratch repo %s: private build tree %s' % (REPO, alt))
    try:
        return _main_check(prop, cfg, tier, seed, replay)
    finally:
        if alt is not None:
            shutil.rmtree(alt, ignore_errors=True)


EVIDENCE_DIR = Path(os.environ.get('VERIF_EVIDENCE_DIR') or (VERIF / 'evidence'))


def _main_check(prop, cfg, tier, seed, replay=None):
    t0 = time.time()
    violations = []     # (replay_path, suffix)
    known_lines = []
    ev_extra = {}

    ok_gen, gen_out = step_gen()
    if not ok_gen:
        mine = gen_failures_for(gen_out, [cfg['props'], cfg['driver']])
        if mine:
            log('gen failed (%s):\n' % ', '.join(mine) + gen_out[-3000:])
        else:
            log('gen: a translator module failed, but none whose output this property imports')
            ok_gen = True
    audit_hits = step_audit([cfg['props'], cfg['driver']])
    # the correspondence runs on one host and one interpreter: check that the source the model stands for does not
    # choose its behaviour by either (tools/lib/envaudit.py)
    try:
        from . import envaudit
        env_hits, env_files = envaudit.audit(str(REPO), prop, str(VERIF / 'properties.jsonl'))
    except Exception as e:
        env_hits, env_files = ['environment audit failed: %r' % (e,)], []
    ev_extra['environment_audit'] = {'files': len(env_files), 'hits': env_hits}

    targets = [cfg['props'][:-2] + '.vo', cfg['driver'][:-2] + '.vo']
    ok_make, make_out = step_make(targets)
    if not ok_make:
        log('make failed:\n' + make_out[-3000:])
    prove = step_prove(prop, cfg['props'])
    exe, drv_msg, stale = step_driver(prop, cfg['driver'])
    chk = None
    if tier == 'thorough' and not replay and ok_make:
        chk = step_coqchk(cfg['props'])
        ev_extra['coqchk'] = chk
        if not chk['clean']:
            prove['failed'].append('coqchk -o reports axioms or failed: %r' % (chk,))
    log('prove: %d/%d discharged; driver: %s' % (prove['discharged'], prove['obligations'], drv_msg))

    proof_broken = []
    if not ok_gen:
        proof_broken.append('translator (tools/gen) cannot express the current source: ' + gen_out[-800:])
    for h in audit_hits:
        proof_broken.append('audit: ' + h)
    for h in env_hits:
        proof_broken.append('environment audit: ' + h + ' — the library chooses its behaviour by the host or the '
                            'interpreter; the correspondence runs on one of each, the other arm is not shown to '
                            'satisfy the property')
    for name in prove['failed']:
        proof_broken.append('theorem ' + name + ' no longer checks')
    if exe is None:
        proof_broken.append('driver could not be built: ' + drv_msg)
    elif stale:
        proof_broken.append('driver is stale (model no longer builds): ' + drv_msg)

    ctx = Ctx(prop, tier, seed, Driver(exe) if exe else None)
    ctx.keep_all = bool(replay)
    harness = importlib.import_module('tools.harness.' + cfg['harness'])
    harness_error = None
    mode_children = []
    if exe is not None:
        if not replay:
            for m in MODES:
                mode_children.append((m,) + spawn_mode_child(prop, tier, exe, m))
        replay_cases = None
        if replay:
            data = json.loads(Path(replay).read_text())
            replay_cases = [(data['kind'], sx.unjson(data['abstract']))] if 'kind' in data else []
        kind_err, harness_error = _run_harness(ctx, harness, tier, replay_cases)
        if kind_err == 'timeout':
            log('harness timeout:\n' + harness_error[-3000:])
            proof_broken.append('the correspondence did not finish within %d s (%d cases evaluated): the '
                                'implementation or the model does not terminate in reasonable time on a generated '
                                'input; the stack at the time is in harness_error' % (HARNESS_BUDGET_S[tier], ctx.n_eval))
        elif kind_err:
            log('harness error:\n' + harness_error)
            proof_broken.append('correspondence harness crashed: ' + kind_err[7:])
    mode_report = {}
    for m, p, out in mode_children:
        data = collect_mode_child(p, out, tier)
        name = {'O': 'python -O'}[m]
        mode_report[name] = {'evaluations': data.get('n_eval', 0), 'in_domain': data.get('n_in', 0),
                             'failing_by_key': data.get('failing_by_key', {}), 'error': data.get('error')}
        for r in data.get('failures', []):
            r = dict(r, mode=m, abstract=sx.unjson(r['abstract']))
            ctx.failures.append(r)
        if data.get('error'):
            log('mode %s: %s\n%s' % (name, data['error'], (data.get('traceback') or '')[-2000:]))
            if harness_error is None:
                harness_error = data.get('traceback')
            proof_broken.append('the correspondence under %s did not complete (%s)' % (name, data['error']))
    if mode_report:
        ev_extra['modes'] = mode_report

    if replay:
        for r in ctx.results:
            print(json.dumps(sx.jsonable(r), indent=1, default=str))
        return 0

    # ---------------- decide
    known = load_known()
    known_keys = {k['key']: k for k in known if k['property'] == prop and k['status'] == 'known'}
    n_eval = ctx.n_eval
    distinct = ctx.distinct
    fail_by_key = {}
    echo_fail = []
    drift = ctx.drift
    in_dom = ctx.n_in
    for r in ctx.failures:
        if r['bad_impl']:
            fail_by_key.setdefault(r['key'], []).append(r)
        if r['bad_echo'] and r['key'] not in known_keys:
            echo_fail.append(r)
    seen_known = set()
    for key, rs in sorted(fail_by_key.items()):
        r = min(rs, key=lambda x: len(repr(x['abstract'])))
        if key in known_keys:
            seen_known.add(key)
            continue
        path = write_replay(prop, dict(r, property=prop, finding_key=key, seed=seed, tier=tier,
                                       count_failing=len(rs),
                                       broken_obligations=proof_broken))
        violations.append((path, ''))
    for key, k in sorted(known_keys.items()):
        if key in seen_known:
            known_lines.append('KNOWN-FINDING: property=%s %s [%s]' % (prop, k['what'], key))
        else:
            ctx.notes.append('known finding %s did not reproduce in this run' % key)
    if echo_fail and not violations:
        r = echo_fail[0]
        path = write_replay(prop, dict(r, property=prop, finding_key='model-vs-spec-echo', seed=seed, tier=tier,
                                       broken='model and spec disagree on an in-domain input: '
                                              'the theorem tying them is not reflected by the executable definitions'))
        violations.append((path, ' no-failing-input-found'))
    if proof_broken and not violations:
        path = write_replay(prop, {'property': prop, 'broken_obligations': proof_broken,
                                   'coqc_error': prove.get('coqc_error'), 'errors': prove.get('errors'),
                                   'make_output_tail': None if ok_make else make_out[-3000:],
                                   'gen_output_tail': None if ok_gen else gen_out[-3000:],
                                   'harness_error': harness_error,
                                   'searched': '%d in-domain cases compared impl vs spec; none failed' % in_dom,
                                   'seed': seed, 'tier': tier})
        violations.append((path, ' no-failing-input-found'))

    # ---------------- evidence
    samples = [sx.jsonable(x) for x in ctx.samples]
    if not samples:
        samples = [{'note': 'no case evaluated'}]
    evidence = {
        'property_id': prop, 'tier': tier, 'seed': seed, 'level': 'proof',
        'wall_s': round(time.time() - t0, 2), 'violations': len(violations),
        'coverage': {
            'obligations': max(prove['obligations'], 1), 'discharged': prove['discharged'],
            'checker_cmd': 'make -C coq %s && coqc -Q coq PV coq/%s (Print Assumptions parsed)' %
                           (' '.join(targets), cfg['props']),
            'trusted_base': TRUSTED_BASE + cfg.get('trusted_extra', []),
            'theorems': prove['theorems'], 'axioms': sx.jsonable(prove['axioms']),
            'non_vacuity_examples': prove['examples'],
            'audit_hits': audit_hits,
            'evaluations': n_eval, 'distinct_nontrivial': len(distinct),
            'rule': getattr(harness, 'RULE', 'distinct = hash of (kind, abstract input); non-trivial per harness'),
            'in_domain': in_dom, 'out_of_domain': n_eval - in_dom, 'model_drift': drift, 'model_drift_samples': sx.jsonable(ctx.drift_samples),
            'histogram': ctx.hist, 'samples': samples,
            'known_findings_reproduced': sorted(seen_known), 'notes': ctx.notes,
            'driver': drv_msg, 'exhaustive': False,
        },
        'assumptions': cfg.get('assumptions', []),
    }
    evidence['coverage'].update(ev_extra)
    EVIDENCE_DIR.mkdir(exist_ok=True)
    (EVIDENCE_DIR / (prop + '.json')).write_text(json.dumps(evidence, indent=1, default=str))

    for l in known_lines:
        print(l)
    for path, suffix in violations:
        print('VIOLATION property=%s replay=%s%s' % (prop, path, suffix))
    print('%s: %d/%d obligations, %d cases (%d in-domain, %d distinct non-trivial), %d violation(s), %.1fs' %
          (prop, prove['discharged'], prove['obligations'], n_eval, in_dom, len(distinct), len(violations),
           time.time() - t0))
    return 1 if violations else 0
