"""Stream kinds for the correspondence harnesses.

The library is handed `open(path, 'rb')` objects in practice; `io.BytesIO` alone cannot show a change that
looks into a buffered reader (`peek`, `read1`, read-buffer boundaries every `io.DEFAULT_BUFFER_SIZE` bytes),
that depends on `fileno()` / `mmap`, or that relies on where the caller left the stream.  A harness draws the
kind per case:

    with Streams() as S:
        st = S.open(data, kind)          # kind in KINDS
        ... ELFFile(st) ...

Every kind presents exactly the bytes `data`; whole reads (never short) — the library's contract with its
stream.  Temporary files live in one private directory removed on exit.
"""
import io
import mmap
import os
import shutil
import tempfile

# bytesio   : io.BytesIO(data)
# file      : open(path, 'rb'), untouched
# file_warm : open(path, 'rb') whose read buffer has been filled from offset 0 and the position left at 1
# file_end  : open(path, 'rb') positioned at EOF (a caller that has already read the file)
# file_small: open(path, 'rb', buffering=16): buffer boundaries every 16 bytes
# mmap      : mmap.mmap(fileno, 0, access=ACCESS_READ) (empty data: falls back to bytesio, mmap refuses length 0)
# gzip      : gzip.open(path.gz, 'rb'): a seekable stream of the logical bytes whose fileno() is the descriptor of
#             the COMPRESSED file (data over 256 KiB: falls back to 'file', backward seeks re-inflate from the start)
# decoy_fd  : an in-memory stream whose fileno() is a real descriptor of an unrelated 64-byte file — what gzip,
#             bz2, lzma and wrapper streams look like to code that goes to the descriptor behind the stream's back
KINDS = ('bytesio', 'file', 'file_warm', 'file_end', 'file_small', 'mmap', 'gzip', 'decoy_fd')


# not in KINDS (most of the library seeks): a non-seekable stream for the entry points that only read forward
# pipe      : the read end of an os.pipe() holding the bytes (data over 60000 bytes: falls back to 'file')
FORWARD_ONLY_KINDS = ('pipe',)


class _DecoyFdIO(io.BytesIO):
    def __init__(self, data, fobj):
        io.BytesIO.__init__(self, data)
        self._decoy = fobj

    def fileno(self):
        return self._decoy.fileno()


class Streams:
    def __init__(self, prefix='pv-streams-'):
        self._prefix = prefix
        self._dir = None
        self._n = 0
        self._open = []

    def __enter__(self):
        return self

    def __exit__(self, *exc):
        self.close()
        return False

    def path_of(self, data):
        if self._dir is None:
            self._dir = tempfile.mkdtemp(prefix=self._prefix)
        self._n += 1
        path = os.path.join(self._dir, 'f%d.bin' % self._n)
        with open(path, 'wb') as f:
            f.write(data)
        return path

    def open(self, data, kind='bytesio'):
        data = bytes(data)
        if kind == 'bytesio' or (kind == 'mmap' and not data):
            return io.BytesIO(data)
        if kind == 'gzip' and len(data) > 256 * 1024:
            kind = 'file'
        if kind == 'pipe' and len(data) > 60000:
            kind = 'file'
        if kind == 'pipe':
            r, w = os.pipe()
            try:
                os.write(w, data)
            finally:
                os.close(w)
            st = os.fdopen(r, 'rb')
            self._open.append(st)
            return st
        if kind == 'decoy_fd':
            f = open(self.path_of(b'\xa5' * 64), 'rb')
            self._open.append(f)
            return _DecoyFdIO(data, f)
        if kind == 'gzip':
            import gzip
            path = self.path_of(b'')
            with gzip.open(path, 'wb', compresslevel=1) as g:
                g.write(data)
            st = gzip.open(path, 'rb')
            self._open.append(st)
            return st
        path = self.path_of(data)
        if kind == 'file_small':
            st = open(path, 'rb', buffering=16)
        else:
            st = open(path, 'rb')
        self._open.append(st)
        if kind == 'file_warm':
            st.read(1)
        elif kind == 'file_end':
            st.seek(0, os.SEEK_END)
        elif kind == 'mmap':
            mm = mmap.mmap(st.fileno(), 0, access=mmap.ACCESS_READ)
            self._open.append(mm)
            return mm
        elif kind not in ('file', 'file_small'):
            raise ValueError(kind)
        return st

    def drop_files(self):
        """close and delete what was opened so far (call between batches to bound disk use)"""
        for st in reversed(self._open):
            try:
                st.close()
            except Exception:
                pass
        self._open = []
        if self._dir is not None:
            shutil.rmtree(self._dir, ignore_errors=True)
            self._dir = None

    close = drop_files


def draw_kind(rng, p_bytesio=0.6):
    """mostly BytesIO (cheap), the rest spread over the real-file kinds"""
    if rng.random() < p_bytesio:
        return 'bytesio'
    return rng.choice(KINDS[1:])
