"""S-expression text <-> Python values, the wire format of the extracted driver.
int <-> 0x.. ; bytes <-> #hex ; str <-> "text" ; list/tuple <-> ( ... ) ;
bool -> 0x1/0x0 ; None -> "none"."""

def dumps(v):
    if v is None:
        return '"none"'
    if isinstance(v, bool):
        return '0x1' if v else '0x0'
    if isinstance(v, int):
        return hex(v)
    if isinstance(v, (bytes, bytearray)):
        return '#' + bytes(v).hex()
    if isinstance(v, str):
        assert '"' not in v and '\n' not in v
        return '"' + v + '"'
    if isinstance(v, (list, tuple)):
        return '(' + ' '.join(dumps(x) for x in v) + ')'
    raise TypeError('cannot serialise %r' % (v,))

def loads(s):
    pos = 0
    n = len(s)
    def value():
        nonlocal pos
        while pos < n and s[pos] in ' \t\r\n':
            pos += 1
        c = s[pos]
        if c == '(':
            pos += 1
            out = []
            while True:
                while pos < n and s[pos] in ' \t\r\n':
                    pos += 1
                if s[pos] == ')':
                    pos += 1
                    return out
                out.append(value())
        if c == '"':
            e = s.index('"', pos + 1)
            t = s[pos + 1:e]
            pos = e + 1
            return t
        st = pos
        while pos < n and s[pos] not in ' ()\t\r\n':
            pos += 1
        t = s[st:pos]
        if c == '#':
            return bytes.fromhex(t[1:])
        return int(t, 16)
    return value()

def canon(v):
    """tuples -> lists, bytearray -> bytes, bool -> int, None -> 'none' (what loads() would give back)"""
    if v is None:
        return 'none'
    if isinstance(v, bool):
        return int(v)
    if isinstance(v, (list, tuple)):
        return [canon(x) for x in v]
    if isinstance(v, bytearray):
        return bytes(v)
    return v

def jsonable(v):
    if isinstance(v, (bytes, bytearray)):
        return '#' + bytes(v).hex()
    if isinstance(v, (list, tuple)):
        return [jsonable(x) for x in v]
    if isinstance(v, dict):
        return {str(k): jsonable(x) for k, x in v.items()}
    if isinstance(v, int) and not isinstance(v, bool) and abs(v) >= 2 ** 53:
        return hex(v)
    return v

def unjson(v):
    if isinstance(v, str) and v.startswith('#'):
        try:
            return bytes.fromhex(v[1:])
        except ValueError:
            return v
    if isinstance(v, str) and (v.startswith('0x') or v.startswith('-0x')):
        try:
            return int(v, 16)
        except ValueError:
            return v
    if isinstance(v, list):
        return [unjson(x) for x in v]
    return v
