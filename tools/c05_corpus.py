#!/venv/bin/python
"""Builder of /verif/corpus/C05/*.json (run by hand, NOT by ./check): line tables of real objects with the rows an
INDEPENDENT consumer (llvm-dwarfdump 14) computes, used by tools/harness/c05.py as 'real' cases.  This cross-checks
the transcription of DWARF 6.2 in Spec/C05Line.v (through the proved model = spec equality) and the implementation
against a second implementation of the standard, on producer-made programs (gas, LLVM MC).

  sources   small C files written here, compiled by gcc and clang with -gdwarf-2..5, -gdwarf64, -m32, -O0..-O2,
            linked with -nostdlib -shared (no relocations left in .debug_line), and every linked ELF file of the
            library's test directories that has a .debug_line section
  stored    byte order, the bytes of .debug_line / .debug_line_str / .debug_str, and per line table: offset, 32/64-bit
            format, address size, the rows (address, line, column, file, isa, discriminator, five flags), and the
            include directories / file names when llvm-dwarfdump printed them as plain ASCII

Needs gcc, clang, llvm-dwarfdump-14 and reads sections with pyelftools (decompression is property C02's)."""
import hashlib, json, os, re, subprocess, sys, tempfile

sys.path.insert(0, '/verif')
OUT = '/verif/corpus/C05'
REPO = os.environ.get('VERIF_REPO', '/repo')
sys.path.insert(0, REPO)
DUMP = 'llvm-dwarfdump-14'
MAXSEC = 40000

SRC = {
    'a.c': '#include "a.h"\nint g(int x) { int s = 0; for (int i = 0; i < x; i++) { s += i * x; if (s > 100) s -= 7; } return s; }\n'
           'int main(void) { return g(5) + h(3); }\n',
    'a.h': 'static inline int h(int y) { return y * 3\n  + 1; }\n',
    'b.c': 'int k(int a, int b) { while (a > b) { a -= b; b++; }\n  return a; }\n'
           '#line 70000 "gen/far.c"\nint far(int q) { return q ? q * 2 : 9; }\n#line 5 "b.c"\nint near(int q) { return q - 1; }\n',
    'c.c': 'static int t[300];\nint fill(int n) {\n' + ''.join('  t[%d] = n + %d;\n' % (i, i) for i in range(120)) +
           '  return t[n & 127];\n}\n' + '\n' * 400 + 'int late(void) { return fill(3); }\n',
}
BUILDS = [
    ('gcc', ['-gdwarf-2', '-O0']), ('gcc', ['-gdwarf-3', '-O2']), ('gcc', ['-gdwarf-4', '-O1']),
    ('gcc', ['-gdwarf-5', '-O2']), ('gcc', ['-gdwarf-5', '-O0', '-gno-column-info']),
    ('gcc', ['-gdwarf-4', '-gdwarf64', '-O0']), ('gcc', ['-gdwarf-5', '-gdwarf64', '-O2']),
    ('gcc', ['-m32', '-gdwarf-3', '-O1']), ('gcc', ['-m32', '-gdwarf-5', '-O2']),
    ('gcc', ['-gdwarf-4', '-O2', '-gno-as-loc-support']), ('gcc', ['-gdwarf-5', '-O2', '-gno-as-loc-support']),
    ('gcc', ['-gdwarf-3', '-O2', '-ffunction-sections']),
    ('clang', ['-gdwarf-2', '-O0']), ('clang', ['-gdwarf-4', '-O2']), ('clang', ['-gdwarf-5', '-O1']),
    ('clang', ['-gdwarf-5', '-gdwarf64', '-O2']), ('clang', ['-m32', '-gdwarf-5', '-O1']),
    ('clang', ['-gdwarf-5', '-O1', '-gembed-source']),
]
TEST_DIRS = ['test/testfiles_for_unittests', 'test/testfiles_for_readelf', 'test/testfiles_for_location_info',
             'test/testfiles_for_dwarfdump']

ROW = re.compile(r'^0x([0-9a-f]+)\s+(\d+)\s+(\d+)\s+(\d+)\s+(\d+)\s+(\d+)\s*(.*)$')
PLAIN = re.compile(r'^[\x20\x21\x23-\x5b\x5d-\x7e]*$')


def parse_dump(text):
    """-> list of tables {offset, is64, version, addr (or None), rows, dirs (or None), files (or None)}"""
    tables, cur = [], None
    lines = text.splitlines()
    i = 0
    while i < len(lines):
        ln = lines[i]
        m = re.match(r'^debug_line\[0x([0-9a-f]+)\]', ln)
        if m:
            cur = {'offset': int(m.group(1), 16), 'is64': None, 'version': None, 'addr': None, 'rows': [],
                   'dirs': [], 'files': [], 'plain': True}
            tables.append(cur)
        elif cur is not None:
            s = ln.strip()
            if s.startswith('format:'):
                cur['is64'] = s.endswith('DWARF64')
            elif s.startswith('version:'):
                cur['version'] = int(s.split()[-1])
            elif s.startswith('address_size:'):
                cur['addr'] = int(s.split()[-1])
            elif s.startswith('include_directories['):
                m = re.match(r'^include_directories\[\s*\d+\] = "(.*)"$', s)
                if m and PLAIN.match(m.group(1)):
                    cur['dirs'].append(m.group(1))
                else:
                    cur['plain'] = False
            elif s.startswith('file_names['):
                name = di = None
                j = i + 1
                while j < len(lines) and re.match(r'^\s+\w+:', lines[j]):
                    t = lines[j].strip()
                    if t.startswith('name:'):
                        m = re.match(r'^name: "(.*)"$', t)
                        if m and PLAIN.match(m.group(1)):
                            name = m.group(1)
                    elif t.startswith('dir_index:'):
                        di = int(t.split()[-1])
                    j += 1
                if name is None or di is None:
                    cur['plain'] = False
                else:
                    cur['files'].append([name, di])
                i = j - 1
            else:
                m = ROW.match(ln)
                if m:
                    fl = m.group(7).split()
                    bad = set(fl) - {'is_stmt', 'basic_block', 'end_sequence', 'prologue_end', 'epilogue_begin'}
                    if bad:
                        raise ValueError('unknown flags %r' % (bad,))
                    cur['rows'].append([int(m.group(1), 16), 0, int(m.group(4)), int(m.group(2)), int(m.group(3)),
                                        int('is_stmt' in fl), int('basic_block' in fl), int('end_sequence' in fl),
                                        int('prologue_end' in fl), int('epilogue_begin' in fl), int(m.group(5)),
                                        int(m.group(6))])
        i += 1
    return tables


def sections(path):
    from elftools.elf.elffile import ELFFile
    with open(path, 'rb') as f:
        elf = ELFFile(f)
        if elf['e_type'] not in ('ET_EXEC', 'ET_DYN'):
            return None
        out = {}
        for nm in ('.debug_line', '.debug_line_str', '.debug_str'):
            sec = elf.get_section_by_name(nm)
            out[nm] = sec.data() if sec is not None else None
        if out['.debug_line'] is None:
            return None
        return elf.little_endian, elf.elfclass // 8, out


def entry(label, path):
    got = sections(path)
    if got is None:
        return None
    le, cls, secs = got
    if any(v is not None and len(v) > MAXSEC for v in secs.values()):
        return None
    r = subprocess.run([DUMP, '--debug-line', path], capture_output=True, text=True, errors='replace')
    if r.returncode != 0 or 'warning:' in r.stderr or 'error:' in r.stderr:
        print('  skip %s: llvm-dwarfdump complains: %s' % (label, r.stderr.strip()[:120]))
        return None
    tables = parse_dump(r.stdout)
    if not tables:
        return None
    units = []
    for t in tables:
        if t['is64'] is None or t['version'] is None:
            return None
        units.append({'offset': t['offset'], 'is64': t['is64'], 'version': t['version'],
                      'addr': t['addr'] if t['addr'] is not None else cls, 'rows': t['rows'],
                      'dirs': t['dirs'] if t['plain'] else None, 'files': t['files'] if t['plain'] else None})
    hx = lambda b: None if b is None else b.hex()
    return {'label': label, 'little_endian': le, 'line': hx(secs['.debug_line']),
            'line_str': hx(secs['.debug_line_str']), 'str': hx(secs['.debug_str']), 'units': units,
            'oracle': subprocess.run([DUMP, '--version'], capture_output=True, text=True).stdout.strip().splitlines()[1].strip()}


def main():
    os.makedirs(OUT, exist_ok=True)
    for fn in os.listdir(OUT):
        if fn.endswith('.json'):
            os.unlink(os.path.join(OUT, fn))
    made = []
    with tempfile.TemporaryDirectory() as td:
        for fn, txt in SRC.items():
            open(os.path.join(td, fn), 'w').write(txt)
        for cc, flags in BUILDS:
            label = 'built-%s%s' % (cc, ''.join(flags))
            so = os.path.join(td, 'out.so')
            cmd = [cc] + flags + ['-nostdlib', '-shared', '-fPIC', '-o', so, 'a.c', 'b.c', 'c.c']
            r = subprocess.run(cmd, cwd=td, capture_output=True, text=True)
            if r.returncode != 0:
                print('  build failed: %s: %s' % (' '.join(cmd), r.stderr.strip()[:200]))
                continue
            e = entry(label, so)
            if e:
                made.append(e)
    for d in TEST_DIRS:
        full = os.path.join(REPO, d)
        for fn in sorted(os.listdir(full)) if os.path.isdir(full) else []:
            p = os.path.join(full, fn)
            try:
                if not os.path.isfile(p) or open(p, 'rb').read(4) != b'\x7fELF':
                    continue
                e = entry(d + '/' + fn, p)
            except Exception as ex:
                print('  skip %s/%s: %r' % (d, fn, ex))
                continue
            if e:
                made.append(e)
    for e in made:
        nm = re.sub(r'[^A-Za-z0-9_.-]+', '_', e['label'])[:80] + '.json'
        blob = json.dumps(e, sort_keys=True)
        open(os.path.join(OUT, nm), 'w').write(blob)
        print('%-70s %d table(s), %d rows, %d bytes' % (nm, len(e['units']), sum(len(u['rows']) for u in e['units']),
                                                     len(blob)))


if __name__ == '__main__':
    main()
