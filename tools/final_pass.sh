#!/bin/bash
# tools/final_pass.sh — coordinator's closing pass in /verif against /repo itself: every claimed check's quick
# command with the default seed (rewrites evidence/), schema validation, MANIFEST/STATUS regeneration, findings audit.
cd "$(dirname "$0")/.." || exit 1
unset VERIF_SEED VERIF_TIER VERIF_REPO
/venv/bin/python tools/manifest.py
bad=0
for p in $(python3 -c "import json;print(' '.join(c['property_id'] for c in json.load(open('MANIFEST.json'))['checks']))"); do
  out=$(./check $p --tier quick 2>/dev/null | tail -n 1)
  rc=$?
  echo "$out"
  case "$out" in *" 0 violation(s)"*) ;; *) bad=$((bad+1)); echo "  ^^^ NOT CLEAN";; esac
done
python3-vt - <<'PY'
import json, jsonschema, glob
s = json.load(open('/root/.vp/EVIDENCE.schema.json'))
m = json.load(open('/verif/MANIFEST.json'))
jsonschema.validate(m, json.load(open('/root/.vp/MANIFEST.schema.json')))
for c in m['checks']:
    jsonschema.validate(json.load(open('/verif/' + c['evidence_file'])), s)
print('manifest and %d evidence files validate' % len(m['checks']))
PY
tools/status_table.py
tools/audit_findings.py | tail -n 4
echo "unclean checks: $bad"
