"""gen_c05.py — the data the line-program code (C05) reads, taken from the LIVE /repo modules:

  coq/Gen/C05Tables.v
    DW_LNS_* / DW_LNE_* : Z            every module constant of dwarf/constants.py with that prefix
    tbl_c05_lns, tbl_c05_lne           the same as (name, value) lists in module order
    tbl_c05_lnct, c05_lnct_default     ENUM_DW_LNCT in dict order / whether it carries _default_=Pass
    c05_form_default                   whether ENUM_DW_FORM carries _default_=Pass
    tbl_c05_forms : list (Z * (string * pkind))
        for every value of ENUM_DW_FORM: the name construct's Enum decodes it to (the LAST name with
        that value, evaluated by the live SymmetricMapping) and the kind of parser
        DWARFStructs.Dwarf_dw_form holds under that name, obtained by walking the live construct
        object for every (byte order, DWARF format, address size) configuration.

Fail closed: a parser object this walker does not recognise, or one whose shape differs between
configurations in a way not expressible as KOffset/KAddr, raises."""
import re, struct
from . import coqfmt as F


class CannotExpress(Exception):
    pass


def _consts(prefix):
    import elftools.dwarf.constants as dc
    out = []
    for name, v in vars(dc).items():
        if name.startswith(prefix):
            if isinstance(v, bool) or not isinstance(v, int):
                raise CannotExpress('%s = %r is not an int' % (name, v))
            out.append((name, v))
    if not out:
        raise CannotExpress('no %s* constants' % prefix)
    return out


def _classify(con, little):
    """kind of one construct object as a Python tuple"""
    from elftools.construct import core as C
    from elftools.construct import adapters as A
    from elftools.common import construct_utils as U
    if con is None:
        return ('KNone',)
    t = type(con)
    if t is U.ULEB128:
        return ('KUleb',)
    if t is U.SLEB128:
        return ('KSleb',)
    if t in (U.ULInt24, U.UBInt24):
        if (t is U.ULInt24) != little:
            raise CannotExpress('24-bit field of the wrong byte order')
        return ('KU24',)
    if t is C.FormatField:
        fmt = con.packer.format
        if isinstance(fmt, bytes):
            fmt = fmt.decode()
        if len(fmt) != 2 or fmt[0] != ('<' if little else '>'):
            raise CannotExpress('FormatField format %r' % fmt)
        ch = fmt[1]
        if ch in 'BHLQ':
            return ('KUInt', struct.calcsize('<' + ch))
        if ch in 'bhlq':
            return ('KSInt', struct.calcsize('<' + ch))
        raise CannotExpress('FormatField format %r' % fmt)
    if t is C.StaticField:
        if con.length != 0:
            raise CannotExpress('StaticField of length %r' % con.length)
        return ('KEmpty',)
    if t is A.LengthValueAdapter:
        seq = con.subcon
        if type(seq) is not C.Sequence or len(seq.subcons) != 2:
            raise CannotExpress('LengthValueAdapter over %r' % (seq,))
        lenf, arr = seq.subcons
        if type(arr) is not C.MetaArray or _classify(arr.subcon, little) != ('KUInt', 1):
            raise CannotExpress('PrefixedArray element is not uint8')
        # the count lambda must read the length field
        probe = {lenf.name: 7}
        if arr.countfunc(probe) != 7:
            raise CannotExpress('PrefixedArray count is not its length field')
        return ('KBlock', _classify(lenf, little))
    if t is C.MetaArray:
        if _classify(con.subcon, little) != ('KUInt', 1):
            raise CannotExpress('Array element is not uint8')
        n = con.countfunc({})
        if isinstance(n, bool) or not isinstance(n, int) or n < 0:
            raise CannotExpress('Array count %r' % (n,))
        return ('KArray', n)
    if t is C.Reconfig:
        a = con.subcon
        if type(a) is A.CStringAdapter and type(a.subcon) is C.RepeatUntil and a.terminators == b'\x00' \
                and a.encoding is None and type(a.subcon.subcon) is C.StaticField and a.subcon.subcon.length == 1 \
                and a.subcon.predicate(b'\x00', None) and not a.subcon.predicate(b'\x01', None):
            return ('KCString',)
        raise CannotExpress('Reconfig over %r' % (a,))
    raise CannotExpress('unrecognised parser object %r' % (con,))


def _kind_coq(k):
    if k[0] in ('KUInt', 'KSInt', 'KArray'):
        return '(%s %d)' % (k[0], k[1])
    if k[0] == 'KBlock':
        return '(KBlock %s)' % _kind_coq(k[1])
    return k[0]


def _merge(kinds):
    """kinds: {(little, fmt, addr): kind} -> one configuration-independent kind"""
    vals = set(kinds.values())
    if len(vals) == 1:
        return vals.pop()
    if all(k == ('KUInt', 4 if fmt == 32 else 8) for (le, fmt, a), k in kinds.items()):
        return ('KOffset',)
    if all(k == ('KUInt', a) for (le, fmt, a), k in kinds.items()):
        return ('KAddr',)
    if all(k[0] == 'KBlock' for k in vals):
        return ('KBlock', _merge({c: k[1] for c, k in kinds.items()}))
    raise CannotExpress('parser differs between configurations: %r' % (kinds,))


def form_table():
    from elftools.dwarf.structs import DWARFStructs
    from elftools.dwarf.enums import ENUM_DW_FORM, ENUM_DW_LNCT
    from elftools.construct import Pass, Enum
    from elftools.construct.lib import Container
    configs = [(le, fmt, a) for le in (True, False) for fmt in (32, 64) for a in (4, 8)]
    structs = {c: DWARFStructs(little_endian=c[0], dwarf_format=c[1], address_size=c[2], dwarf_version=5)
               for c in configs}
    if ENUM_DW_FORM.get('_default_', None) is not None and ENUM_DW_FORM['_default_'] is not Pass:
        raise CannotExpress('ENUM_DW_FORM _default_ is not Pass')
    dec = Enum(structs[configs[0]].Dwarf_uleb128(''), **ENUM_DW_FORM)
    rows = []
    seen = set()
    for name, v in ENUM_DW_FORM.items():
        if name == '_default_' or v in seen:
            continue
        seen.add(v)
        decoded = dec._decode(v, Container())
        if not isinstance(decoded, str):
            raise CannotExpress('form value %r decodes to %r' % (v, decoded))
        kinds = {}
        for c in configs:
            tbl = structs[c].Dwarf_dw_form
            kinds[c] = _classify(tbl[decoded], c[0]) if decoded in tbl else ('KMissing',)
        rows.append((v, decoded, _merge(kinds)))
    return rows, '_default_' in ENUM_DW_FORM


def generate():
    from elftools.dwarf.enums import ENUM_DW_LNCT
    from elftools.construct import Pass
    lns, lne = _consts('DW_LNS_'), _consts('DW_LNE_')
    out = [F.HEADER % 'gen_c05.py', 'From PV Require Import Model.C05Kinds.\n']
    for name, v in lns + lne:
        out.append('Definition %s : Z := %s.' % (name, F.z(v)))
    out.append('')
    out.append('Definition tbl_c05_lns : list (string * Z) := %s.\n' % F.assoc(dict(lns)))
    out.append('Definition tbl_c05_lne : list (string * Z) := %s.\n' % F.assoc(dict(lne)))
    lnct = [(k, v) for k, v in ENUM_DW_LNCT.items() if k != '_default_']
    for k, v in lnct:
        if isinstance(v, bool) or not isinstance(v, int) or not re.match(r'^[A-Za-z_][A-Za-z0-9_]*$', k):
            raise CannotExpress('ENUM_DW_LNCT[%r] = %r' % (k, v))
    if '_default_' in ENUM_DW_LNCT and ENUM_DW_LNCT['_default_'] is not Pass:
        raise CannotExpress('ENUM_DW_LNCT _default_ is not Pass')
    out.append('Definition tbl_c05_lnct : list (string * Z) := %s.\n' % F.assoc(dict(lnct)))
    out.append('Definition c05_lnct_default : bool := %s.\n' % F.boolean('_default_' in ENUM_DW_LNCT))
    rows, fdef = form_table()
    out.append('Definition c05_form_default : bool := %s.\n' % F.boolean(fdef))
    out.append('Definition tbl_c05_forms : list (Z * (string * pkind)) := %s.\n' % F.lst(
        '(%s, (%s, %s))' % (F.z(v), F.string(n), _kind_coq(k)) for v, n, k in rows))
    return {'C05Tables.v': '\n'.join(out)}


if __name__ == '__main__':
    print(generate()['C05Tables.v'])
