"""gen_c05.py — the data the line-program code (C05) reads, taken from the LIVE /repo modules:

  coq/Gen/C05Tables.v
    DW_LNS_* / DW_LNE_* : Z            every module constant of dwarf/constants.py with that prefix
    tbl_c05_lns, tbl_c05_lne           the same as (name, value) lists in module order
    tbl_c05_lnct, c05_lnct_default     ENUM_DW_LNCT in dict order / whether it carries _default_=Pass
    c05_form_default                   whether ENUM_DW_FORM carries _default_=Pass
    tbl_c05_forms : list (Z * (string * pkind))
        for every value of ENUM_DW_FORM: the name construct's Enum decodes it to (the LAST name with
        that value, evaluated by the live SymmetricMapping) and the kind of parser
        DWARFStructs.Dwarf_dw_form holds under that name, obtained by walking the live construct
        object for every (byte order, DWARF format, address size) configuration.

Fail closed: a parser object this walker does not recognise, or one whose shape differs between
configurations in a way not expressible as KOffset/KAddr, raises."""
import re, struct
from . import coqfmt as F


class CannotExpress(Exception):
    pass


def _consts(prefix):
    import elftools.dwarf.constants as dc
    out = []
    for name, v in vars(dc).items():
        if name.startswith(prefix):
            if isinstance(v, bool) or not isinstance(v, int):
                raise CannotExpress('%s = %r is not an int' % (name, v))
            out.append((name, v))
    if not out:
        raise CannotExpress('no %s* constants' % prefix)
    return out


def _classify(con, little):
    """kind of one construct object as a Python tuple"""
    from elftools.construct import core as C
    from elftools.construct import adapters as A
    from elftools.common import construct_utils as U
    if con is None:
        return ('KNone',)
    t = type(con)
    if t is U.ULEB128:
        return ('KUleb',)
    if t is U.SLEB128:
        return ('KSleb',)
    if t in (U.ULInt24, U.UBInt24):
        if (t is U.ULInt24) != little:
            raise CannotExpress('24-bit field of the wrong byte order')
        return ('KU24',)
    if t is C.FormatField:
        fmt = con.packer.format
        if isinstance(fmt, bytes):
            fmt = fmt.decode()
        if len(fmt) != 2 or fmt[0] != ('<' if little else '>'):
            raise CannotExpress('FormatField format %r' % fmt)
        ch = fmt[1]
        if ch in 'BHLQ':
            return ('KUInt', struct.calcsize('<' + ch))
        if ch in 'bhlq':
            return ('KSInt', struct.calcsize('<' + ch))
        raise CannotExpress('FormatField format %r' % fmt)
    if t is C.StaticField:
        if con.length != 0:
            raise CannotExpress('StaticField of length %r' % con.length)
        return ('KEmpty',)
    if t is A.LengthValueAdapter:
        seq = con.subcon
        if type(seq) is not C.Sequence or len(seq.subcons) != 2:
            raise CannotExpress('LengthValueAdapter over %r' % (seq,))
        lenf, arr = seq.subcons
        if type(arr) is not C.MetaArray or _classify(arr.subcon, little) != ('KUInt', 1):
            raise CannotExpress('PrefixedArray element is not uint8')
        # the count lambda must read the length field
        probe = {lenf.name: 7}
        if arr.countfunc(probe) != 7:
            raise CannotExpress('PrefixedArray count is not its length field')
        return ('KBlock', _classify(lenf, little))
    if t is C.MetaArray:
        if _classify(con.subcon, little) != ('KUInt', 1):
            raise CannotExpress('Array element is not uint8')
        n = con.countfunc({})
        if isinstance(n, bool) or not isinstance(n, int) or n < 0:
            raise CannotExpress('Array count %r' % (n,))
        return ('KArray', n)
    if t is C.Reconfig:
        a = con.subcon
        if type(a) is A.CStringAdapter and type(a.subcon) is C.RepeatUntil and a.terminators == b'\x00' \
                and a.encoding is None and type(a.subcon.subcon) is C.StaticField and a.subcon.subcon.length == 1 \
                and a.subcon.predicate(b'\x00', None) and not a.subcon.predicate(b'\x01', None):
            return ('KCString',)
        raise CannotExpress('Reconfig over %r' % (a,))
    raise CannotExpress('unrecognised parser object %r' % (con,))


def _kind_coq(k):
    if k[0] in ('KUInt', 'KSInt', 'KArray'):
        return '(%s %d)' % (k[0], k[1])
    if k[0] == 'KBlock':
        return '(KBlock %s)' % _kind_coq(k[1])
    return k[0]


def _merge(kinds):
    """kinds: {(little, fmt, addr): kind} -> one configuration-independent kind"""
    vals = set(kinds.values())
    if len(vals) == 1:
        return vals.pop()
    if all(k == ('KUInt', 4 if fmt == 32 else 8) for (le, fmt, a), k in kinds.items()):
        return ('KOffset',)
    if all(k == ('KUInt', a) for (le, fmt, a), k in kinds.items()):
        return ('KAddr',)
    if all(k[0] == 'KBlock' for k in vals):
        return ('KBlock', _merge({c: k[1] for c, k in kinds.items()}))
    raise CannotExpress('parser differs between configurations: %r' % (kinds,))


def form_table():
    from elftools.dwarf.structs import DWARFStructs
    from elftools.dwarf.enums import ENUM_DW_FORM, ENUM_DW_LNCT
    from elftools.construct import Pass, Enum
    from elftools.construct.lib import Container
    configs = [(le, fmt, a) for le in (True, False) for fmt in (32, 64) for a in (4, 8)]
    structs = {c: DWARFStructs(little_endian=c[0], dwarf_format=c[1], address_size=c[2], dwarf_version=5)
               for c in configs}
    if ENUM_DW_FORM.get('_default_', None) is not None and ENUM_DW_FORM['_default_'] is not Pass:
        raise CannotExpress('ENUM_DW_FORM _default_ is not Pass')
    dec = Enum(structs[configs[0]].Dwarf_uleb128(''), **ENUM_DW_FORM)
    rows = []
    seen = set()
    for name, v in ENUM_DW_FORM.items():
        if name == '_default_' or v in seen:
            continue
        seen.add(v)
        decoded = dec._decode(v, Container())
        if not isinstance(decoded, str):
            raise CannotExpress('form value %r decodes to %r' % (v, decoded))
        kinds = {}
        for c in configs:
            tbl = structs[c].Dwarf_dw_form
            kinds[c] = _classify(tbl[decoded], c[0]) if decoded in tbl else ('KMissing',)
        rows.append((v, decoded, _merge(kinds)))
    return rows, '_default_' in ENUM_DW_FORM


# ------------------------------------------------------------------ the header struct as data
def _probe_version_pred(keyfunc):
    """('ge', t) / ('lt', t) when keyfunc(ctx) == (ctx.version >= t) / (< t) on versions 0..9, else None"""
    from elftools.construct.lib import Container
    try:
        vals = [bool(keyfunc(Container(version=v))) for v in range(10)]
    except (AttributeError, KeyError):
        return None
    for t in range(1, 10):
        if vals == [v >= t for v in range(10)]:
            return ('ge', t)
        if vals == [v < t for v in range(10)]:
            return ('lt', t)
    raise CannotExpress('version predicate with truth table %r' % (vals,))


def _else_value(sw):
    from elftools.construct import core as C
    if set(sw.cases.keys()) != {True, False} or type(sw.cases[False]) is not C.Value:
        raise CannotExpress('conditional %r is not If(...)' % (sw,))
    v = sw.cases[False].func(None)
    if v is not None and (isinstance(v, bool) or not isinstance(v, int)):
        raise CannotExpress('elsevalue %r' % (v,))
    return v


def _same_mapping(con, enum_dict):
    from elftools.construct import Enum
    from elftools.common.construct_utils import ULEB128
    ref = Enum(ULEB128(''), **enum_dict)
    return type(con) is type(ref) and type(con.subcon) is ULEB128 and \
        all(getattr(con, a) == getattr(ref, a) or getattr(con, a) is getattr(ref, a)
            for a in ('decoding', 'encoding', 'decdefault', 'encdefault'))


def _is_cstring(con, little):
    try:
        return _classify(con, little) == ('KCString',)
    except CannotExpress:
        return False


def _walk_member(con, little, seen, structs):
    """shape of one member of the header struct as a nested tuple (leaves: pkind tuples)"""
    from elftools.construct import core as C
    from elftools.construct import adapters as A
    from elftools.construct.lib import Container
    from elftools.common import construct_utils as U
    from elftools.dwarf.enums import ENUM_DW_LNCT, ENUM_DW_FORM
    t = type(con)
    if t.__name__ == '_InitialLengthAdapter':
        st = con.subcon
        if type(st) is not C.Struct or len(st.subcons) != 2:
            raise CannotExpress('initial length over %r' % (st,))
        first, second = st.subcons
        if first.name != 'first' or _classify(first, little) != ('KUInt', 4) or type(second) is not C.Switch \
                or second.name != 'second' or _else_value(second) is not None \
                or _classify(second.cases[True], little) != ('KUInt', 8) \
                or not second.keyfunc(Container(first=0xFFFFFFFF)) or second.keyfunc(Container(first=0xFFFFFFFE)) \
                or con._decode(Container(first=5, second=None), Container()) != 5 \
                or con._decode(Container(first=0xFFFFFFFF, second=77), Container()) != 77:
            raise CannotExpress('initial length struct %r' % (st,))
        return ('HInitialLength',)
    if t is C.Switch:
        dflt = _else_value(con)
        then = con.cases[True]
        pv = _probe_version_pred(con.keyfunc)
        if pv is not None:
            return ('HIfVerGe' if pv[0] == 'ge' else 'HIfVerLt', pv[1], _walk_member(then, little, seen, structs), dflt)
        # If(lambda ctx: bool(ctx.<field>), Embed(Struct('', ...)))
        for name in seen:
            try:
                if con.keyfunc(Container(**{name: b''})) is False and con.keyfunc(Container(**{name: b'x'})) is True:
                    inner = then.subcon if type(then) is C.Reconfig else None
                    if dflt is not None or type(inner) is not C.Struct or not (then.conflags & then.FLAG_EMBED):
                        raise CannotExpress('conditional on %s over %r' % (name, then))
                    return ('HIfNonEmpty', name, tuple((f.name, _classify(f, little)) for f in inner.subcons))
            except (AttributeError, KeyError):
                continue
        raise CannotExpress('unrecognised condition of %r' % (con,))
    if t is C.MetaArray:
        for name in seen:
            try:
                if all(con.countfunc(Container(**{name: n})) == n - 1 for n in (1, 10, 255)):
                    return ('HCountMinus1', name, _classify(con.subcon, little))
            except (AttributeError, KeyError, TypeError):
                continue
        raise CannotExpress('array count of %r' % (con,))
    if t is A.LengthValueAdapter:
        seq = con.subcon
        if type(seq) is not C.Sequence or len(seq.subcons) != 2 or type(seq.subcons[1]) is not C.MetaArray:
            raise CannotExpress('PrefixedArray %r' % (seq,))
        cnt, arr = seq.subcons
        if arr.countfunc(Container(**{cnt.name: 7})) != 7:
            raise CannotExpress('PrefixedArray count is not its length field')
        return ('HPrefixed', cnt.name, _classify(cnt, little), _walk_member(arr.subcon, little, seen, structs))
    if t is C.Struct and [f.name for f in con.subcons] == ['content_type', 'form']:
        if not (_same_mapping(con.subcons[0], ENUM_DW_LNCT) and _same_mapping(con.subcons[1], ENUM_DW_FORM)):
            raise CannotExpress('entry format struct does not use Enum(ULEB128, ENUM_DW_LNCT/ENUM_DW_FORM)')
        return ('HFormatStruct',)
    if t.__name__ == 'FormattedEntry':
        if con.structs is not structs or not isinstance(con.format_field, str):
            raise CannotExpress('FormattedEntry %r' % (con,))
        return ('HFormattedEntry', con.format_field)
    if t is U.RepeatUntilExcluding:
        if _is_cstring(con.subcon, little):
            if con.predicate(b'', None) is True and con.predicate(b'x', None) is False:
                return ('HUntilEmptyString',)
        elif type(con.subcon) is C.Struct:
            if _walk_struct(con.subcon, little, structs) == _walk_struct(structs.Dwarf_lineprog_file_entry, little, structs) \
                    and con.predicate(Container(name=b''), None) and not con.predicate(Container(name=b'x'), None):
                return ('HUntilEmptyName',)
        raise CannotExpress('RepeatUntilExcluding %r' % (con,))
    return ('HField', _classify(con, little))


def _walk_struct(st, little, structs):
    from elftools.construct import core as C
    if type(st) is not C.Struct:
        raise CannotExpress('%r is not a Struct' % (st,))
    out, seen = [], []
    for m in st.subcons:
        if not isinstance(m.name, str):
            raise CannotExpress('unnamed member %r' % (m,))
        out.append((m.name, _walk_member(m, little, seen, structs)))
        seen.append(m.name)
    return tuple(out)


def _merge_shape(shapes):
    """shapes: {config: nested tuple} -> configuration independent nested tuple"""
    vals = list(shapes.values())
    if all(v == vals[0] for v in vals):
        return vals[0]
    v0 = vals[0]
    if isinstance(v0, tuple) and v0 and isinstance(v0[0], str) and v0[0].startswith('K'):
        return _merge(shapes)
    if not isinstance(v0, tuple) or any(not isinstance(v, tuple) or len(v) != len(v0) for v in vals):
        raise CannotExpress('header shape differs between configurations: %r' % (shapes,))
    return tuple(_merge_shape({c: v[i] for c, v in shapes.items()}) for i in range(len(v0)))


def _shape_coq(x):
    tag = x[0]
    opt = lambda v: 'None' if v is None else '(Some %s)' % F.z(v)
    if tag == 'HInitialLength' or tag == 'HFormatStruct' or tag == 'HUntilEmptyString' or tag == 'HUntilEmptyName':
        return tag
    if tag == 'HField':
        return '(HField %s)' % _kind_coq(x[1])
    if tag in ('HIfVerGe', 'HIfVerLt'):
        return '(%s %s %s %s)' % (tag, F.z(x[1]), _shape_coq(x[2]), opt(x[3]))
    if tag == 'HIfNonEmpty':
        return '(HIfNonEmpty %s %s)' % (F.string(x[1]), F.lst(('(%s, %s)' % (F.string(n), _kind_coq(k)) for n, k in x[2]), per_line=0))
    if tag == 'HCountMinus1':
        return '(HCountMinus1 %s %s)' % (F.string(x[1]), _kind_coq(x[2]))
    if tag == 'HPrefixed':
        return '(HPrefixed %s %s %s)' % (F.string(x[1]), _kind_coq(x[2]), _shape_coq(x[3]))
    if tag == 'HFormattedEntry':
        return '(HFormattedEntry %s)' % F.string(x[1])
    raise CannotExpress('shape %r' % (x,))


def header_layout():
    from elftools.dwarf.structs import DWARFStructs
    configs = [(le, fmt, a) for le in (True, False) for fmt in (32, 64) for a in (4, 8)]
    hs, fs = {}, {}
    for c in configs:
        for ver in (2, 5):     # the struct must not depend on the dwarf_version the structs were made for
            st = DWARFStructs(little_endian=c[0], dwarf_format=c[1], address_size=c[2], dwarf_version=ver)
            hs[c + (ver,)] = _walk_struct(st.Dwarf_lineprog_header, c[0], st)
            fs[c + (ver,)] = _walk_struct(st.Dwarf_lineprog_file_entry, c[0], st)
    hs = {c[:3]: v for c, v in hs.items() if all(hs[c[:3] + (w,)] == v for w in (2, 5))}
    fs = {c[:3]: v for c, v in fs.items() if all(fs[c[:3] + (w,)] == v for w in (2, 5))}
    if len(hs) != len(configs) or len(fs) != len(configs):
        raise CannotExpress('Dwarf_lineprog_header depends on the dwarf_version of the structs')
    return _merge_shape(hs), _merge_shape(fs)


def generate():
    from elftools.dwarf.enums import ENUM_DW_LNCT
    from elftools.construct import Pass
    lns, lne = _consts('DW_LNS_'), _consts('DW_LNE_')
    out = [F.HEADER % 'gen_c05.py', 'From PV Require Import Model.C05Kinds.\n']
    for name, v in lns + lne:
        out.append('Definition %s : Z := %s.' % (name, F.z(v)))
    out.append('')
    out.append('Definition tbl_c05_lns : list (string * Z) := %s.\n' % F.assoc(dict(lns)))
    out.append('Definition tbl_c05_lne : list (string * Z) := %s.\n' % F.assoc(dict(lne)))
    lnct = [(k, v) for k, v in ENUM_DW_LNCT.items() if k != '_default_']
    for k, v in lnct:
        if isinstance(v, bool) or not isinstance(v, int) or not re.match(r'^[A-Za-z_][A-Za-z0-9_]*$', k):
            raise CannotExpress('ENUM_DW_LNCT[%r] = %r' % (k, v))
    if '_default_' in ENUM_DW_LNCT and ENUM_DW_LNCT['_default_'] is not Pass:
        raise CannotExpress('ENUM_DW_LNCT _default_ is not Pass')
    out.append('Definition tbl_c05_lnct : list (string * Z) := %s.\n' % F.assoc(dict(lnct)))
    out.append('Definition c05_lnct_default : bool := %s.\n' % F.boolean('_default_' in ENUM_DW_LNCT))
    rows, fdef = form_table()
    out.append('Definition c05_form_default : bool := %s.\n' % F.boolean(fdef))
    out.append('Definition tbl_c05_forms : list (Z * (string * pkind)) := %s.\n' % F.lst(
        '(%s, (%s, %s))' % (F.z(v), F.string(n), _kind_coq(k)) for v, n, k in rows))
    hl, fl = header_layout()
    for nm, lay in (('gen_c05_header', hl), ('gen_c05_file_entry', fl)):
        out.append('Definition %s : list (string * hfield) := %s.\n' % (
            nm, F.lst('(%s, %s)' % (F.string(n), _shape_coq(x)) for n, x in lay)))
    return {'C05Tables.v': '\n'.join(out)}


if __name__ == '__main__':
    print(generate()['C05Tables.v'])
