"""gen_c14.py — the DATA of the note code, regenerated from the live modules (coq/Gen/C14Notes.v):

* `roundup` (common/utils.py) evaluated symbolically (operator overloading, as in
  gen_elf_layouts.py) into a Fmt.cexpr over the fields "num" and "bits";
* Elf_Prop (elf/structs.py _create_gnu_property): the two leading integer fields as a layout,
  the decode dict of the pr_type Enum, the Switch table (key -> integer format), the default
  Field's length lambda, the Padding lambda (`roundup_padding`, per class) and — by probing the
  live key function `classify_pr_data` on every name of the Enum — the table name -> Switch key;
* Elf_Nt_File: the two count fields and the entry Struct as layouts, the two count lambdas, and a
  structural check that the second array is an array of plain CStrings.

Fail closed: any construct shape other than the one the hand model (Model/C14Notes.v) mirrors
raises Unsupported."""
from tools.gen.coqfmt import z, string, boolean, lst, HEADER
from tools.gen.gen_elf_layouts import Sym, Walker, Unsupported, coq_layout, FMT, _int


class Sym2(Sym):
    """Sym plus the reflected shifts that `1 << bits` needs."""
    def _bin(self, op, other, swap=False):
        o = other if isinstance(other, Sym) else Sym2('(CConst %s)' % z(_int(other)))
        a, b = (o, self) if swap else (self, o)
        return Sym2('(CBin %s %s %s)' % (op, a.coq, b.coq))
    def __rlshift__(s, o): return s._bin('OShl', o, True)
    def __rrshift__(s, o): return s._bin('OShr', o, True)


class Ctx2:
    def __getitem__(self, k):
        return Sym2('(CField %s)' % string(k))
    def __getattr__(self, k):
        if k.startswith('__'):
            raise AttributeError(k)
        return Sym2('(CField %s)' % string(k))


def sym2(func):
    r = func(Ctx2())
    if isinstance(r, Sym):
        return r.coq
    return '(CConst %s)' % z(_int(r))


class _PropCtx:
    def __init__(self, pr_type, pr_datasz):
        self.pr_type = pr_type
        self.pr_datasz = pr_datasz


def _mk(le, cls):
    from elftools.elf.structs import ELFStructs
    s = ELFStructs(little_endian=le, elfclass=cls)
    s.create_basic_structs()
    s.create_advanced_structs(None, None, None)
    return s


def _tname(c):
    return type(c).__name__


def _is_plain_cstring(c):
    """Rename(CStringAdapter(RepeatUntil(Field(1)))) with NUL terminator and no encoding"""
    chain = []
    while True:
        chain.append(_tname(c))
        if _tname(c) == 'CStringAdapter' and (c.terminators != b'\x00' or c.encoding is not None):
            return False
        if not hasattr(c, 'subcon'):
            break
        c = c.subcon
    return chain == ['Reconfig', 'CStringAdapter', 'RepeatUntil', 'StaticField'] and c.length == 1


def generate():
    from elftools.common import utils as U
    w = Walker()
    out = [HEADER % 'gen_c14.py', 'From PV Require Import Base.Fmt.\n']

    # ---- roundup(num, bits)
    r = U.roundup(Sym2('(CField "num")'), Sym2('(CField "bits")'))
    if not isinstance(r, Sym):
        raise Unsupported('roundup did not evaluate symbolically')
    out.append('(* common/utils.py roundup(num, bits), evaluated symbolically *)')
    out.append('Definition gen_roundup : cexpr :=\n  %s.\n' % r.coq)

    # ---- Elf_Prop
    head_cases, sw_cases, pad_cases = [], [], []
    decoding = None
    strict = None
    keymap = None
    default_len = None
    for le in (True, False):
        for cls in (32, 64):
            P = _mk(le, cls).Elf_Prop
            if _tname(P) != 'Struct' or [_tname(c) for c in P.subcons] != ['MappingAdapter', 'FormatField', 'Switch', 'PaddingAdapter']:
                raise Unsupported('Elf_Prop shape %r' % [_tname(c) for c in P.subcons])
            fields, binds = [], []
            w.field(P.subcons[0], '', fields, binds)
            w.field(P.subcons[1], '', fields, binds)
            if [f for f, _ in fields] != ['pr_type', 'pr_datasz']:
                raise Unsupported('Elf_Prop head fields %r' % fields)
            head_cases.append('  | %s, %s => %s' % (boolean(le), boolean(cls == 64), coq_layout(fields)))
            en = P.subcons[0]
            st = en.decdefault is NotImplemented
            if not st and _tname(en.decdefault) != '_Pass':
                raise Unsupported('pr_type default')
            dec = dict(en.decoding)
            for k, v in dec.items():
                _int(k)
                if not isinstance(v, str):
                    raise Unsupported('pr_type name %r' % (v,))
            if decoding is not None and (dec != decoding or st != strict):
                raise Unsupported('pr_type table depends on the configuration')
            decoding, strict = dec, st
            # Switch table
            sw = P.subcons[2]
            if sw.include_key:
                raise Unsupported('Switch include_key')
            rows = []
            for key, con in sw.cases.items():
                if not (isinstance(key, tuple) and len(key) == 3 and isinstance(key[0], str)):
                    raise Unsupported('Switch key %r' % (key,))
                if _tname(con) != 'FormatField' or con.name != 'pr_data':
                    raise Unsupported('Switch case %r' % (con,))
                fmt = con.packer.format
                n, signed = FMT[fmt[1]]
                if signed or (fmt[0] == '<') != le:
                    raise Unsupported('Switch case format %r' % fmt)
                rows.append((key[0], _int(key[1]), _int(key[2]), n))
            if le:
                sw_cases.append((cls, rows))
            else:
                if rows != dict(sw_cases)[cls]:
                    raise Unsupported('Switch table depends on the byte order')
            d = sw.default
            if _tname(d) != 'MetaField' or d.name != 'pr_data':
                raise Unsupported('Switch default %r' % (d,))
            dl = sym2(d.lengthfunc)
            if default_len is not None and dl != default_len:
                raise Unsupported('default length depends on the configuration')
            default_len = dl
            # Padding(roundup_padding)
            pad = P.subcons[3]
            if _tname(pad.subcon) != 'MetaField' or pad.strict:
                raise Unsupported('Elf_Prop padding')
            pe = sym2(pad.subcon.lengthfunc)
            if le:
                pad_cases.append((cls, pe))
            elif dict(pad_cases)[cls] != pe:
                raise Unsupported('padding depends on the byte order')
            # classify_pr_data probed on every name of the Enum, three sizes
            km = []
            probes = (0, 4, 8, 12345)
            for name in decoding.values():
                res = [sw.keyfunc(_PropCtx(name, D)) for D in probes]
                if not all(isinstance(x, tuple) and len(x) == 3 and isinstance(x[0], str) for x in res) or len(set(x[0] for x in res)) != 1:
                    raise Unsupported('classify_pr_data(%s) = %r' % (name, res))
                lab = res[0][0]
                # second component: pr_datasz itself, or a constant; third: elfclass, or a constant
                if [x[1] for x in res] == list(probes):
                    a = None
                elif len(set(x[1] for x in res)) == 1:
                    a = _int(res[0][1])
                else:
                    raise Unsupported('classify_pr_data(%s) size component %r' % (name, res))
                if len(set(x[2] for x in res)) != 1:
                    raise Unsupported('classify_pr_data(%s) class component %r' % (name, res))
                b = None if res[0][2] == cls else _int(res[0][2])
                km.append((name, lab, a, b))
            for raw in (0, 1, 0xc0000002, 0x12345678):
                if sw.keyfunc(_PropCtx(raw, 4)) is not None:
                    raise Unsupported('classify_pr_data on an unnamed type')
            if keymap is not None and km != keymap:
                raise Unsupported('classify_pr_data depends on the configuration')
            keymap = km
    out.append('(* Elf_Prop: Enum(word pr_type), word pr_datasz *)')
    out.append('Definition gen_Elf_Prop_head (le is64 : bool) : layout :=\n  match le, is64 with\n%s\n  end.\n' % '\n'.join(head_cases))
    out.append('Definition gen_prop_type_table : list (Z * string) := %s.\n'
               % lst(('(%s, %s)' % (z(k), string(v)) for k, v in decoding.items()), 2))
    out.append('Definition gen_prop_type_strict : bool := %s.\n' % boolean(strict))
    out.append('(* classify_pr_data probed on every name of the Enum (pr_datasz 0, 4, 8, 12345; both classes):\n'
               '   name -> (label, size, class); the Switch key is (label, size or pr_datasz if None, class or\n'
               '   elfclass if None); a pr_type that is not a name gives no key (the Switch default) *)')
    def opt(v):
        return 'None' if v is None else '(Some %s)' % z(v)
    out.append('Definition gen_prop_key_of_type : list (string * (string * option Z * option Z)) := %s.\n'
               % lst(('(%s, (%s, %s, %s))' % (string(n), string(l), opt(a), opt(b)) for n, l, a, b in keymap), 1))
    if dict(sw_cases)[32] != dict(sw_cases)[64]:
        raise Unsupported('Switch table depends on the class')
    out.append('(* Switch cases: (label, pr_datasz, class) -> unsigned integer of n bytes in file byte order *)')
    out.append('Definition gen_prop_cases : list (string * Z * Z * nat) := %s.\n'
               % lst(('(%s, %s, %s, %d%%nat)' % (string(l), z(a), z(b), n) for l, a, b, n in dict(sw_cases)[32]), 1))
    out.append('Definition gen_prop_default_len : cexpr := %s.\n' % default_len)
    out.append('Definition gen_prop_padding (is64 : bool) : cexpr :=\n  if is64 then %s\n  else %s.\n'
               % (dict(pad_cases)[64], dict(pad_cases)[32]))

    # ---- Elf_Nt_File
    head_cases, entry_cases = [], []
    counts = None
    for le in (True, False):
        for cls in (32, 64):
            F = _mk(le, cls).Elf_Nt_File
            if _tname(F) != 'Struct' or [_tname(c) for c in F.subcons] != ['FormatField', 'FormatField', 'MetaArray', 'MetaArray']:
                raise Unsupported('Elf_Nt_File shape')
            fields, binds = [], []
            w.field(F.subcons[0], '', fields, binds)
            w.field(F.subcons[1], '', fields, binds)
            head_cases.append('  | %s, %s => %s' % (boolean(le), boolean(cls == 64), coq_layout(fields)))
            a1, a2 = F.subcons[2], F.subcons[3]
            if _tname(a1.subcon) != 'Struct' or a1.name != 'Elf_Nt_File_Entry' or a2.name != 'filename':
                raise Unsupported('Elf_Nt_File arrays')
            efields, ebinds = w.layout(a1.subcon)
            if ebinds:
                raise Unsupported('enum in Elf_Nt_File_Entry')
            entry_cases.append('  | %s, %s => %s' % (boolean(le), boolean(cls == 64), coq_layout(efields)))
            if not _is_plain_cstring(a2.subcon):
                raise Unsupported('Elf_Nt_File filename is not a plain CString')
            cs = (sym2(a1.countfunc), sym2(a2.countfunc))
            if counts is not None and cs != counts:
                raise Unsupported('Elf_Nt_File counts depend on the configuration')
            counts = cs
    out.append('(* Elf_Nt_File: xword num_map_entries, xword page_size, Array(count1, Elf_Nt_File_Entry), Array(count2, CString) *)')
    out.append('Definition gen_Elf_Nt_File_head (le is64 : bool) : layout :=\n  match le, is64 with\n%s\n  end.\n' % '\n'.join(head_cases))
    out.append('Definition gen_Elf_Nt_File_entry (le is64 : bool) : layout :=\n  match le, is64 with\n%s\n  end.\n' % '\n'.join(entry_cases))
    out.append('Definition gen_nt_file_count_entries : cexpr := %s.\n' % counts[0])
    out.append('Definition gen_nt_file_count_names : cexpr := %s.\n' % counts[1])
    return {'C14Notes.v': '\n'.join(out)}
