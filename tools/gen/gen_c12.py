"""gen_c12.py -> coq/Gen/C12Tables.v : the DATA of elftools/dwarf/dwarf_expr.py, read from the live module.

  gen_DW_OP_name2opcode : list (string * Z)   DW_OP_name2opcode in dict order (after _generate_dynamic_values ran)
  gen_DW_OP_opcode2name : list (Z * string)   DW_OP_opcode2name in dict order
  gen_dispatch          : list (Z * list opkind)
        the table built by _init_dispatch_table, rendered as opcode -> operand-kind list.

The dispatch table is a dict of closures, so it is identified *behaviourally* through the public entry
point DWARFExprParser(structs).parse_expr in all 8 configurations (byte order x DWARF format x address
size): every opcode is run on a fixed set of probe streams and the observations (argument values,
argument shapes, bytes consumed, error or not) are matched against a reference reading of every
candidate kind list of length <= 2 (plus []).  Exactly one candidate must explain every observation
in every configuration; the candidate set is checked to be pairwise separated by the probes.  Anything
else (no candidate, two candidates, configuration-dependent table, odd names/values) raises: fail closed.
A renaming or restructuring of the closures changes nothing here; a change of width, signedness, order
or number of operands changes the emitted table (and breaks C12_dispatch_matches_standard)."""
import itertools
from . import coqfmt

ATOMS = ['U1', 'S1', 'U2', 'S2', 'U4', 'S4', 'U8', 'S8', 'ULEB', 'SLEB', 'ADDR', 'OFFSET']
SPECIAL = ['BLOCK', 'TYPEDBLOCK', 'NESTED', 'WASM']
ALL_KINDS = ATOMS + SPECIAL
CANDIDATES = [()] + [(a,) for a in ALL_KINDS] + [p for p in itertools.product(ALL_KINDS, repeat=2)]
CONFIGS = [(le, fmt, addr) for le in (True, False) for fmt in (32, 64) for addr in (4, 8)]


class Short(Exception):
    pass


class _Rd:
    def __init__(self, data):
        self.d = data
        self.p = 0
    def take(self, n):
        if self.p + n > len(self.d):
            raise Short()
        b = self.d[self.p:self.p + n]
        self.p += n
        return b
    def uleb(self):
        v = s = 0
        while True:
            b = self.take(1)[0]
            v |= (b & 0x7f) << s
            s += 7
            if not b & 0x80:
                return v
    def sleb(self):
        v = s = 0
        while True:
            b = self.take(1)[0]
            v |= (b & 0x7f) << s
            s += 7
            if not b & 0x80:
                return v - (1 << s) if b & 0x40 else v


def _ref_kind(rd, kind, cfg, noarg):
    """reference reading of one operand kind -> list of normalised args; raises Short / ValueError('ERR')"""
    le, fmt, addr = cfg
    order = 'little' if le else 'big'
    if kind in ('U1', 'U2', 'U4', 'U8', 'S1', 'S2', 'S4', 'S8'):
        return [('i', int.from_bytes(rd.take(int(kind[1])), order, signed=kind[0] == 'S'))]
    if kind == 'ADDR':
        return [('i', int.from_bytes(rd.take(addr), order))]
    if kind == 'OFFSET':
        return [('i', int.from_bytes(rd.take(4 if fmt == 32 else 8), order))]
    if kind == 'ULEB':
        return [('i', rd.uleb())]
    if kind == 'SLEB':
        return [('i', rd.sleb())]
    if kind == 'BLOCK':
        return [('b', tuple(rd.take(rd.uleb())))]
    if kind == 'TYPEDBLOCK':
        t = rd.uleb()
        n = rd.take(1)[0]
        return [('i', t), ('b', tuple(rd.take(n)))]
    if kind == 'NESTED':
        body = rd.take(rd.uleb())
        if any(b not in noarg for b in body):
            raise ValueError('ERR')
        return [('e', tuple((b, (), i) for i, b in enumerate(body)))] if body else [('b', ())]
    if kind == 'WASM':
        tag = rd.take(1)[0]
        if tag <= 2:
            return [('i', tag), ('i', rd.uleb())]
        if tag == 3:
            return [('i', tag), ('i', int.from_bytes(rd.take(4), order))]
        raise ValueError('ERR')
    raise AssertionError(kind)


def _ref(cand, probe, cfg, noarg):
    rd = _Rd(probe)
    try:
        args = []
        for k in cand:
            args += _ref_kind(rd, k, cfg, noarg)
    except (Short, ValueError):
        return 'ERR'
    if any(b not in noarg for b in probe[rd.p:]):
        return 'ERR'
    return (tuple(args), rd.p)


def _norm_arg(a, optype):
    if isinstance(a, bool) or not isinstance(a, (int, list)):
        raise RuntimeError('gen_c12: unexpected argument value %r' % (a,))
    if isinstance(a, int):
        return ('i', a)
    if all(isinstance(x, int) and not isinstance(x, bool) for x in a):
        return ('b', tuple(a))
    if all(isinstance(x, optype) for x in a):
        return ('e', tuple((x.op, tuple(_norm_arg(y, optype) for y in x.args), x.offset) for x in a))
    raise RuntimeError('gen_c12: unexpected argument list %r' % (a,))


def _observe(parser, opcode, probe, optype, noarg):
    try:
        r = parser.parse_expr([opcode] + list(probe))
    except KeyError:
        return 'KEYERR'
    except Exception:
        return 'ERR'
    if not r or r[0].op != opcode or r[0].offset != 0:
        raise RuntimeError('gen_c12: parse_expr did not return the probed operation first at offset 0: %s' % repr(r[:1])[:300])
    if any(x.op not in noarg or x.args != [] for x in r[1:]):
        return 'ERR'        # same convention as _ref: what follows the operands must be operand-less operations
    consumed = (r[1].offset if len(r) > 1 else 1 + len(probe)) - 1
    return (tuple(_norm_arg(a, optype) for a in r[0].args), consumed)


ALPHABET = [0xf0, 0xe0, 0x96, 0x9f, 0x9c, 0x31, 0x32, 0x41, 0x55, 0x6f, 0x06, 0x12, 0x30, 0x3f, 0x40]


def _probes():
    """Probe streams.  Every byte except deliberately placed tag/length bytes (< 5) is an operation
    without operands, so whatever the operand parser leaves is parsed as further operand-less operations
    and the offset of the second operation tells how many bytes the operands took.  Fixed PRNG: the set
    is the same on every run."""
    import random
    rng = random.Random(0xC12)
    def rnd(n):
        return bytes(rng.choice(ALPHABET) for _ in range(n))
    tail = bytes([0x31 + (i % 0x3f) for i in range(56)])          # 0x31 .. 0x6f : DW_OP_lit1.. / reg
    hi = bytes([0xf0, 0xe0, 0x9f, 0x96, 0x9c, 0xf0, 0x96, 0x9f, 0xe0])
    P = [
        b'',
        hi + tail,                      # high bits set: signedness of fixed ints (both byte orders), long LEB128
        b'\x41\xf0\x42' + tail,         # LEB128 ending with bit 6 set: ULEB vs SLEB; LE 16-bit negative
        b'\xf0\x41' + tail,             # two-byte LEB128 with sign bit
        b'\x06\x31\x32\xf0\x34\x35\x36\x37\x38' + tail,   # small length: BLOCK / NESTED / TYPEDBLOCK
        b'\x30\x06' + tail,             # TYPEDBLOCK with a small length
        b'\x00\xf0\x41' + tail,         # WASM tag 0, or zero length
        b'\x01\x41' + tail,
        b'\x02\xf0\x96\x41' + tail,
        b'\x03' + hi + tail,            # WASM tag 3: 4-byte value
        b'\x04' + tail,                 # WASM: bad tag
        b'\x96' * 9 + b'\x30' + tail,   # 10-byte LEB128
        b'\x31',
        b'\xf0\x41',
        b'\x31\x32\x33\x34',
        b'\x31\x32\x33\x34\x35\x36\x37\x38',
    ]
    P.append(b'\x31\x96' + tail * 3)   # 1-byte length >= 0x80 (TYPEDBLOCK) vs a ULEB128 length
    P += [rnd(24) for _ in range(12)]
    # a tag / small length after a first operand of 1 or 2 bytes
    for n in (1, 2):
        for tag in (0, 1, 2, 3):
            P.append(bytes(rng.choice([0x31, 0x32, 0x41, 0x55, 0x6f]) for _ in range(n)) + bytes([tag]) + rnd(16))
            P.append(rnd(n - 1) + bytes([rng.choice([0x31, 0x41, 0x6f]), tag]) + rnd(16))
    return P


def probe_dispatch(E, DWARFStructs):
    """-> dict opcode -> tuple of kind names"""
    parsers = {cfg: E.DWARFExprParser(DWARFStructs(little_endian=cfg[0], dwarf_format=cfg[1], address_size=cfg[2]))
               for cfg in CONFIGS}
    optype = E.DWARFExprOp
    # 1. operations without operands: [op] alone parses to one op with no args, and [op, op] to two
    noarg = set()
    for op in range(256):
        ok = True
        for cfg, p in parsers.items():
            try:
                r1 = p.parse_expr([op])
                r2 = p.parse_expr([op, op])
            except Exception:
                ok = False
                break
            if not (len(r1) == 1 and r1[0].args == [] and len(r2) == 2 and r2[1].offset == 1 and r2[1].args == []):
                ok = False
                break
        if ok:
            noarg.add(op)
    probes = _probes()
    need = set(b for P in probes for b in P if b > 4)
    missing = sorted(b for b in need if b not in noarg)
    if missing:
        raise RuntimeError('gen_c12: probe bytes are not operand-less operations any more: %s' %
                           [hex(b) for b in missing])
    # 2. reference observations of every candidate; they must separate the candidates
    sig = {}
    for cand in CANDIDATES:
        s = tuple(_ref(cand, P, cfg, noarg) for cfg in CONFIGS for P in probes)
        if all(x == 'ERR' for x in s):
            continue        # not observable with these probes: an opcode behaving so is refused below
        if s in sig:
            if all(k in ATOMS for k in cand + sig[s][0]):
                raise RuntimeError('gen_c12: probes do not separate %r from %r' % (cand, sig[s][0]))
            sig[s].append(cand)     # ambiguous signature: an opcode showing it is refused below
        else:
            sig[s] = [cand]
    # 3. identify every opcode
    table = {}
    for op in range(256):
        obs = tuple(_observe(parsers[cfg], op, P, optype, noarg) for cfg in CONFIGS for P in probes)
        if all(o == 'KEYERR' for o in obs):
            continue                                    # not in the dispatch table
        obs = tuple('ERR' if o == 'KEYERR' else o for o in obs)
        if all(o == 'ERR' for o in obs) or obs not in sig or len(sig[obs]) != 1:
            raise RuntimeError('gen_c12: cannot express the operand parser of opcode 0x%02x as a kind list '
                               '(candidates explaining its behaviour: %r)' % (op, sig.get(obs, [])))
        table[op] = sig[obs][0]
    return table


def generate():
    import elftools.dwarf.dwarf_expr as E
    from elftools.dwarf.structs import DWARFStructs
    n2o = E.DW_OP_name2opcode
    o2n = E.DW_OP_opcode2name
    for k, v in n2o.items():
        if not (isinstance(k, str) and isinstance(v, int) and not isinstance(v, bool) and 0 <= v < 256):
            raise RuntimeError('gen_c12: DW_OP_name2opcode entry %r: %r not expressible' % (k, v))
    for k, v in o2n.items():
        if not (isinstance(v, str) and isinstance(k, int) and not isinstance(k, bool)):
            raise RuntimeError('gen_c12: DW_OP_opcode2name entry %r: %r not expressible' % (k, v))
    table = probe_dispatch(E, DWARFStructs)
    out = [coqfmt.HEADER % 'gen_c12.py']
    out.append('From PV Require Import Spec.C12Kinds.\n')
    out.append('(* elftools.dwarf.dwarf_expr.DW_OP_name2opcode, dict order *)')
    out.append('Definition gen_DW_OP_name2opcode : list (string * Z) := %s.\n' % coqfmt.assoc(n2o))
    out.append('(* elftools.dwarf.dwarf_expr.DW_OP_opcode2name, dict order *)')
    out.append('Definition gen_DW_OP_opcode2name : list (Z * string) := %s.\n' %
               coqfmt.lst('(%s, %s)' % (coqfmt.z(k), coqfmt.string(v)) for k, v in o2n.items()))
    out.append('(* _init_dispatch_table(structs): opcode -> operand kinds, identified by probing parse_expr in the\n'
               '   8 configurations; sorted by opcode; opcodes absent from the table raise KeyError *)')
    out.append('Definition gen_dispatch : list (Z * list opkind) := %s.\n' %
               coqfmt.lst('(%s, [%s])' % (coqfmt.z(op), '; '.join(table[op])) for op in sorted(table)))
    return {'C12Tables.v': '\n'.join(out)}
