"""gen_elf_layouts.py — walk the LIVE construct object trees of elftools.elf.structs.ELFStructs
for every configuration and emit them as Base/Fmt.v layouts (coq/Gen/ElfLayouts.v), together
with the decode tables of every Enum binding and the table each machine / OS ABI / file type
selects.  Value(lambda) and count lambdas are evaluated symbolically (operator overloading),
never parsed from text.  Fail closed: anything not expressible raises."""
from tools.gen.coqfmt import z, string, boolean, lst, HEADER


class Unsupported(Exception):
    pass


# ----------------------------------------------------------------- symbolic lambdas
class Sym:
    def __init__(self, coq):
        self.coq = coq
    def _bin(self, op, other, swap=False):
        o = other if isinstance(other, Sym) else Sym('(CConst %s)' % z(_int(other)))
        a, b = (o, self) if swap else (self, o)
        return Sym('(CBin %s %s %s)' % (op, a.coq, b.coq))
    def __add__(s, o): return s._bin('OAdd', o)
    def __radd__(s, o): return s._bin('OAdd', o, True)
    def __sub__(s, o): return s._bin('OSub', o)
    def __rsub__(s, o): return s._bin('OSub', o, True)
    def __mul__(s, o): return s._bin('OMul', o)
    def __rmul__(s, o): return s._bin('OMul', o, True)
    def __lshift__(s, o): return s._bin('OShl', o)
    def __rshift__(s, o): return s._bin('OShr', o)
    def __and__(s, o): return s._bin('OAnd', o)
    def __rand__(s, o): return s._bin('OAnd', o, True)
    def __or__(s, o): return s._bin('OOr', o)
    def __ror__(s, o): return s._bin('OOr', o, True)
    def __xor__(s, o): return s._bin('OXor', o)
    def __floordiv__(s, o): return s._bin('OFloorDiv', o)
    def __mod__(s, o): return s._bin('OMod', o)
    def __bool__(s): raise Unsupported('branch on a symbolic value')
    def __index__(s): raise Unsupported('symbolic value used as an index')
    def __int__(s): raise Unsupported('int() of a symbolic value')
    def __eq__(s, o): raise Unsupported('comparison of a symbolic value')
    def __lt__(s, o): raise Unsupported('comparison of a symbolic value')
    __gt__ = __le__ = __ge__ = __ne__ = __lt__
    __hash__ = None


def _int(v):
    if isinstance(v, bool) or not isinstance(v, int):
        raise Unsupported('non-integer constant %r' % (v,))
    return v


class SymCtx:
    def __init__(self, prefix):
        self.prefix = prefix
    def __getitem__(self, k):
        return Sym('(CField %s)' % string(self.prefix + k))
    def __getattr__(self, k):
        if k.startswith('__'):
            raise AttributeError(k)
        return Sym('(CField %s)' % string(self.prefix + k))


def sym_eval(func, prefix):
    r = func(SymCtx(prefix))
    if isinstance(r, Sym):
        return r.coq
    return '(CConst %s)' % z(_int(r))


# ----------------------------------------------------------------- construct walk
FMT = {'B': (1, False), 'H': (2, False), 'L': (4, False), 'Q': (8, False),
       'b': (1, True), 'h': (2, True), 'l': (4, True), 'q': (8, True)}


class Walker:
    def __init__(self):
        self.enums = {}      # table id -> dict value->name
        self.enum_ids = {}   # canonical content -> id

    def enum_id(self, decoding, hint):
        key = tuple(decoding.items())
        if key not in self.enum_ids:
            i = 'E%03d_%s' % (len(self.enum_ids), hint)
            self.enum_ids[key] = i
            self.enums[i] = dict(decoding)
        return self.enum_ids[key]

    def field(self, c, prefix, out, binds, bit_ctx=False):
        """append (name, kind) pairs for construct c to out; binds gets (name, enum id, strict)"""
        from elftools import construct as C
        from elftools.construct import core, adapters
        t = type(c).__name__
        name = c.name
        full = prefix + (name or '')
        if t == 'FormatField':
            fmt = c.packer.format
            if len(fmt) != 2 or fmt[0] not in '<>' or fmt[1] not in FMT:
                raise Unsupported('format %r' % fmt)
            n, signed = FMT[fmt[1]]
            out.append((full, '(%s %s %d)' % ('KS' if signed else 'KU', boolean(fmt[0] == '<'), n)))
        elif t == 'MappingAdapter':
            if c.decdefault is NotImplemented:
                strict = True
            elif type(c.decdefault).__name__ == '_Pass':
                strict = False
            else:
                raise Unsupported('enum default %r' % (c.decdefault,))
            for k, v in c.decoding.items():
                _int(k)
                if not isinstance(v, str):
                    raise Unsupported('enum name %r' % (v,))
            binds.append((full, self.enum_id(c.decoding, (name or 'x')), strict))
            self.field(c.subcon, prefix, out, binds, bit_ctx)
        elif t == 'Struct':
            for sc in c.subcons:
                self.field(sc, prefix + (name + '.' if name else ''), out, binds)
        elif t == 'Buffered':   # Bitwise(Struct(...)) = BitStruct
            inner = c.subcon
            if type(inner).__name__ != 'Struct':
                raise Unsupported('Bitwise of %s' % type(inner).__name__)
            parts = []
            total = 0
            for sc in inner.subcons:
                w, pname = self.bitfield(sc, full + '.', binds)
                parts.append('(%s, %d%%nat)' % (string(pname), w))
                total += w
            if total % 8:
                raise Unsupported('BitStruct of %d bits' % total)
            out.append((full, '(KBits %d [%s])' % (total // 8, '; '.join(parts))))
        elif t == 'PaddingAdapter':
            sc = c.subcon
            if type(sc).__name__ != 'StaticField':
                raise Unsupported('dynamic padding')
            out.append((prefix + '<pad>', '(KPad %d)' % sc.length))
        elif t == 'StaticField':
            out.append((full, '(KBytes %d)' % c.length))
        elif t == 'StringAdapter':
            sc = c.subcon
            if type(sc).__name__ != 'StaticField' or c.encoding is not None:
                raise Unsupported('String with encoding/dynamic length')
            out.append((full, '(KBytes %d)' % sc.length))
        elif t == 'MetaArray':
            sc = c.subcon
            cnt = sym_eval(c.countfunc, prefix)
            if type(sc).__name__ == 'FormatField' and cnt.startswith('(CConst ') and FMT[sc.packer.format[1]] == (1, False):
                # Array(n, byte): a fixed run of bytes
                out.append((full, '(KBytes %s)' % cnt[len('(CConst '):-1]))
            elif type(sc).__name__ == 'FormatField':
                fmt = sc.packer.format
                n, signed = FMT[fmt[1]]
                if signed:
                    raise Unsupported('signed array')
                out.append((full, '(KArr %s %s %d)' % (cnt, boolean(fmt[0] == '<'), n)))
            else:
                raise Unsupported('array of %s' % type(sc).__name__)
        elif t == 'Value':
            out.append((full, '(KCalc %s)' % sym_eval(c.func, prefix)))
        else:
            raise Unsupported('construct %s (field %s)' % (t, full))

    def bitfield(self, c, prefix, binds):
        t = type(c).__name__
        if t == 'MappingAdapter':
            if type(c.decdefault).__name__ != '_Pass':
                raise Unsupported('strict bit enum')
            binds.append((prefix + c.name, self.enum_id(c.decoding, c.name), False))
            return self.bitfield(c.subcon, prefix, binds)
        if t == 'BitIntegerAdapter':
            if c.swapped or c.signed or c.bytesize != 8:
                raise Unsupported('BitField options')
            return c.width, prefix + c.name
        if t == 'PaddingAdapter':
            return c.subcon.length, ''
        raise Unsupported('bit construct %s' % t)

    def layout(self, struct):
        if type(struct).__name__ != 'Struct':
            raise Unsupported('not a Struct: %r' % struct)
        out, binds = [], []
        for sc in struct.subcons:
            self.field(sc, '', out, binds)
        return out, binds


STATIC_STRUCTS = ['Elf_Ehdr', 'Elf_Phdr', 'Elf_Shdr', 'Elf_Chdr', 'Elf_Sym', 'Elf_Rel', 'Elf_Rela', 'Elf_Relr',
                  'Elf_Dyn', 'Elf_Sunw_Syminfo', 'Elf_Verneed', 'Elf_Vernaux', 'Elf_Verdef', 'Elf_Verdaux',
                  'Elf_Versym', 'Elf_abi', 'Elf_Nhdr', 'Elf_Prpsinfo', 'Elf_Stabs', 'Elf_Hash', 'Gnu_Hash']


def coq_layout(fields):
    return lst('(%s, %s)' % (string(n), k) for n, k in fields)


def generate():
    from elftools.elf.structs import ELFStructs
    from elftools.elf import enums as E
    w = Walker()
    out = [HEADER % 'gen_elf_layouts.py', 'From PV Require Import Base.Fmt.\n']

    def mk(le, cls, e_type=None, e_machine=None, osabi=None):
        s = ELFStructs(little_endian=le, elfclass=cls)
        s.create_basic_structs()
        s.create_advanced_structs(e_type, e_machine, osabi)
        return s

    # ---- layouts per (byte order, class), default machine
    all_binds = {}
    for name in STATIC_STRUCTS:
        cases = []
        for le in (True, False):
            for cls in (32, 64):
                fields, binds = w.layout(getattr(mk(le, cls), name))
                cases.append('  | %s, %s => %s' % (boolean(le), boolean(cls == 64), coq_layout(fields)))
                all_binds[(name, cls)] = binds
        out.append('Definition gen_%s (le is64 : bool) : layout :=\n  match le, is64 with\n%s\n  end.\n'
                   % (name, '\n'.join(cases)))
        for cls in (32, 64):
            out.append('Definition gen_binds_%s_%d : list (string * string * bool) := %s.\n' % (
                name, cls, lst('(%s, %s, %s)' % (string(f), string(i), boolean(st)) for f, i, st in all_binds[(name, cls)])))

    # ---- machine-dependent layouts: MIPS64 relocation records, Prpsinfo with 16-bit uid/gid
    for name in ('Elf_Rel', 'Elf_Rela'):
        cases = []
        for le in (True, False):
            fields, _ = w.layout(getattr(mk(le, 64, None, 'EM_MIPS'), name))
            cases.append('  | %s => %s' % (boolean(le), coq_layout(fields)))
        out.append('Definition gen_%s_mips64 (le : bool) : layout :=\n  match le with\n%s\n  end.\n' % (name, '\n'.join(cases)))

    machines = [None] + list(E.ENUM_E_MACHINE.keys()) + [0xfeed]
    machines = [m for m in machines if m != '_default_']

    def mname(m):
        return '<none>' if m is None else (m if isinstance(m, str) else '<raw>')

    # which configurations use the special relocation layout / the half-sized ugid
    rel_special = []
    ugid_half = []
    base_rel64 = w.layout(mk(True, 64).Elf_Rela)[0]
    base_pr32 = w.layout(mk(True, 32).Elf_Prpsinfo)[0]
    half_pr32 = None
    for m in machines:
        for cls in (32, 64):
            s = mk(True, cls, None, m)
            f = w.layout(s.Elf_Rela)[0]
            if cls == 64 and f != base_rel64:
                mips = w.layout(mk(True, 64, None, 'EM_MIPS').Elf_Rela)[0]
                if f != mips:
                    raise Unsupported('unexpected relocation layout for %r' % (m,))
                rel_special.append(mname(m))
            if cls == 32 and f != w.layout(mk(True, 32).Elf_Rela)[0]:
                raise Unsupported('unexpected 32-bit relocation layout for %r' % (m,))
            p = w.layout(s.Elf_Prpsinfo)[0]
            if cls == 32 and p != base_pr32:
                if half_pr32 is None:
                    half_pr32 = p
                if p != half_pr32:
                    raise Unsupported('unexpected prpsinfo layout for %r' % (m,))
                ugid_half.append(mname(m))
            if cls == 64 and p != w.layout(mk(True, 64).Elf_Prpsinfo)[0]:
                raise Unsupported('unexpected 64-bit prpsinfo layout for %r' % (m,))
    out.append('Definition gen_rel_mips64_machines : list string := %s.\n' % lst(map(string, rel_special), 0))
    out.append('Definition gen_ugid_half_machines : list string := %s.\n' % lst(map(string, ugid_half), 6))
    if half_pr32 is not None:
        cases = []
        for le in (True, False):
            fields, _ = w.layout(mk(le, 32, None, ugid_half[0] if ugid_half[0] != '<none>' else None).Elf_Prpsinfo)
            cases.append('  | %s => %s' % (boolean(le), coq_layout(fields)))
        out.append('Definition gen_Elf_Prpsinfo_half32 (le : bool) : layout :=\n  match le with\n%s\n  end.\n' % '\n'.join(cases))

    # ---- enum table selected by machine / OS ABI / file type
    def table_of(s, struct, field):
        _, binds = w.layout(getattr(s, struct))
        for f, i, st in binds:
            if f == field:
                return i
        raise Unsupported('no enum on %s.%s' % (struct, field))

    for struct, field in (('Elf_Shdr', 'sh_type'), ('Elf_Phdr', 'p_type'), ('Elf_Dyn', 'd_tag')):
        rows = []
        for m in machines:
            ids = {table_of(mk(True, cls, None, m), struct, field) for cls in (32, 64)}
            if len(ids) != 1:
                raise Unsupported('class-dependent enum table for %s' % field)
            rows.append('(%s, %s)' % (string(mname(m)), string(ids.pop())))
        out.append('Definition gen_%s_table_of_machine : list (string * string) := %s.\n' % (field, lst(rows, 3)))
    osabis = [None] + [k for k in E.ENUM_EI_OSABI.keys() if k != '_default_'] + [0x77]
    rows = []
    for o in osabis:
        rows.append('(%s, %s)' % (string(mname(o)), string(table_of(mk(True, 64, None, None, o), 'Elf_Dyn', 'd_tag'))))
    out.append('Definition gen_d_tag_table_of_osabi : list (string * string) := %s.\n' % lst(rows, 3))
    # a machine with extra tags takes precedence over the Solaris OS ABI
    rows = []
    for m in machines:
        rows.append('(%s, %s)' % (string(mname(m)), string(table_of(mk(True, 64, None, m, 'ELFOSABI_SOLARIS'), 'Elf_Dyn', 'd_tag'))))
    out.append('Definition gen_d_tag_table_of_machine_solaris : list (string * string) := %s.\n' % lst(rows, 3))
    etypes = [None] + [k for k in E.ENUM_E_TYPE.keys() if k != '_default_'] + [0x1234]
    rows = []
    for t in etypes:
        rows.append('(%s, %s)' % (string(mname(t)), string(table_of(mk(True, 64, t), 'Elf_Nhdr', 'n_type'))))
    out.append('Definition gen_n_type_table_of_etype : list (string * string) := %s.\n' % lst(rows, 3))

    # ---- the decode tables themselves: value -> name, exactly the dict the adapter consults
    rows = []
    for i, d in w.enums.items():
        out.append('Definition %s : list (Z * string) := %s.\n' % (
            i.replace('<', '_').replace('>', '_'), lst(('(%s, %s)' % (z(k), string(v)) for k, v in d.items()), 4)))
        rows.append('(%s, %s)' % (string(i), i))
    out.append('Definition gen_enum_tables : list (string * list (Z * string)) := %s.\n' % lst(rows, 4))
    return {'ElfLayouts.v': '\n'.join(out)}
