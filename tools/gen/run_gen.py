#!/venv/bin/python
"""Regenerate every coq/Gen/*.v from the live /repo modules.  Writes a file only
when its text changed (keeps make incremental).  Exit non-zero = the translator
cannot express the current source (fail closed)."""
import os, sys, importlib, traceback
HERE = os.path.dirname(os.path.abspath(__file__))
VERIF = os.path.dirname(os.path.dirname(HERE))
sys.path.insert(0, VERIF)
sys.path.insert(0, os.environ.get('VERIF_REPO', '/repo'))
GEN_DIR = os.environ.get('VERIF_GEN_DIR') or os.path.join(VERIF, 'coq', 'Gen')
MODULES = sorted(f[:-3] for f in os.listdir(HERE) if f.startswith('gen_') and f.endswith('.py'))

def write_if_changed(name, text):
    p = os.path.join(GEN_DIR, name)
    old = open(p).read() if os.path.exists(p) else None
    if old != text:
        with open(p, 'w') as f:
            f.write(text)
        print('gen: wrote', name)

def main():
    os.makedirs(GEN_DIR, exist_ok=True)
    rc = 0
    only = sys.argv[1:]
    import json
    ownf = os.path.join(GEN_DIR, '.owners.json')
    try:
        owners = json.load(open(ownf))
    except Exception:
        owners = {}
    for modname in MODULES:
        if only and modname not in only:
            continue
        try:
            mod = importlib.import_module('tools.gen.' + modname)
            mod_files = []
            for fname, text in mod.generate().items():
                write_if_changed(fname, text)
                mod_files.append(fname)
        except Exception:
            traceback.print_exc()
            print('gen: FAILED', modname)
            rc = 1
            continue
        owners[modname] = sorted(mod_files)
    # which Gen files each translator module writes (kept from the last run in which it succeeded),
    # so that a translator failure is charged only to the properties that import its output
    old = None
    try:
        old = open(ownf).read()
    except Exception:
        pass
    new = json.dumps(owners, indent=1, sort_keys=True)
    if new != old:
        open(ownf, 'w').write(new)
    return rc

if __name__ == '__main__':
    sys.exit(main())
