"""gen_c06.py — the data of dwarf/callframe.py as Coq terms (coq/Gen/C06Tables.v).

From the LIVE modules (so the `from .constants import *` and the globals() scan that builds
_OPCODE_NAME_MAP are evaluated by Python itself):

  Definition DW_CFA_<x> : Z            one per DW_CFA_* name visible in callframe's globals
  gen_DW_CFA : list (string * Z)       the same, in globals order
  gen_OPCODE_NAME_MAP : list (Z * string)   callframe._OPCODE_NAME_MAP in dict order
  PRIMARY_MASK, PRIMARY_ARG_MASK       callframe._PRIMARY_MASK / _PRIMARY_ARG_MASK
  Definition DW_EH_PE_<x> : Z          one per key of dwarf.enums.DW_EH_encoding_flags
  gen_DW_EH_encoding_flags : list (string * Z)
  gen_eh_encoding_to_field : list (Z * (bool * Z))
        CallFrameInfo._eh_encoding_to_field(structs) evaluated on live DWARFStructs objects:
        basic encoding -> (signed?, width) with width 0 = LEB128 and width -1 = target address
        (the one entry whose constructor changes with address_size).

Fail closed: a non-int constant, a name that is not an identifier, a field constructor that is
not one of construct's fixed ints / ULEB128 / SLEB128, or a mapping that depends on anything but
address_size raises."""
import re
from . import coqfmt as F

IDENT = re.compile(r'^[A-Za-z_][A-Za-z0-9_]*$')


class CannotExpress(Exception):
    pass


def _int(where, v):
    if isinstance(v, bool) or not isinstance(v, int):
        raise CannotExpress('%s is %r, not an int' % (where, v))
    return int(v)


def _field_kind(structs_by_cfg, basic):
    """(signed, width) of the field constructor the mapping gives for `basic`, checked on every
    (little_endian, dwarf_format, address_size) configuration."""
    from elftools.dwarf.callframe import CallFrameInfo
    from elftools.common.construct_utils import ULEB128, SLEB128
    kinds = {}
    for cfg, st in structs_by_cfg.items():
        cons = CallFrameInfo._eh_encoding_to_field(st)[basic]
        if cons is ULEB128:
            k = (False, 0)
        elif cons is SLEB128:
            k = (True, 0)
        else:
            found = None
            for signed, w, nm in [(False, 1, 'Dwarf_uint8'), (False, 2, 'Dwarf_uint16'), (False, 4, 'Dwarf_uint32'),
                                  (False, 8, 'Dwarf_uint64'), (True, 1, 'Dwarf_int8'), (True, 2, 'Dwarf_int16'),
                                  (True, 4, 'Dwarf_int32'), (True, 8, 'Dwarf_int64')]:
                if cons is getattr(st, nm):
                    found = (signed, w)
                    break
            if found is None:
                raise CannotExpress('_eh_encoding_to_field[%#x] is %r: not a fixed int or LEB128' % (basic, cons))
            # byte order must follow the structs' byte order
            import io
            probe = cons('').parse_stream(io.BytesIO(b'\x01' + b'\x00' * 7))
            want = 1 if cfg[0] else 1 << (8 * (found[1] - 1))
            if probe != want:
                raise CannotExpress('_eh_encoding_to_field[%#x]: byte order does not follow little_endian' % basic)
            k = found
        kinds[cfg] = k
    vals = set(kinds.values())
    if len(vals) == 1:
        return vals.pop()
    # allowed dependency: exactly "unsigned, address_size bytes"
    if all(kinds[cfg] == (False, cfg[2]) for cfg in kinds):
        return (False, -1)
    raise CannotExpress('_eh_encoding_to_field[%#x] varies with the configuration in an unmodelled way: %r'
                        % (basic, kinds))


def generate():
    from elftools.dwarf import callframe as cf
    from elftools.dwarf.enums import DW_EH_encoding_flags
    from elftools.dwarf.structs import DWARFStructs

    cfa = []
    for name, v in vars(cf).items():
        if name.startswith('DW_CFA'):
            if not IDENT.match(name):
                raise CannotExpress('name %r' % name)
            cfa.append((name, _int(name, v)))
    if not cfa:
        raise CannotExpress('no DW_CFA_* constant in callframe globals')
    namemap = []
    for k, v in cf._OPCODE_NAME_MAP.items():
        if not isinstance(v, str) or not IDENT.match(v):
            raise CannotExpress('_OPCODE_NAME_MAP[%r] = %r' % (k, v))
        namemap.append((_int('_OPCODE_NAME_MAP key', k), v))
    eh = []
    for name, v in DW_EH_encoding_flags.items():
        if not IDENT.match(name):
            raise CannotExpress('name %r' % name)
        eh.append((name, _int(name, v)))

    structs = {}
    for le in (True, False):
        for fmt in (32, 64):
            for asz in (4, 8):
                structs[(le, fmt, asz)] = DWARFStructs(little_endian=le, dwarf_format=fmt, address_size=asz)
    basics = None
    for cfg, st in structs.items():
        ks = sorted(cf.CallFrameInfo._eh_encoding_to_field(st).keys())
        if basics is None:
            basics = ks
        elif ks != basics:
            raise CannotExpress('_eh_encoding_to_field key set varies with the configuration')
    fields = [(_int('basic encoding', b), _field_kind(structs, b)) for b in basics]

    out = [F.HEADER % 'gen_c06.py']
    out.append('(* ---- dwarf/constants.py DW_CFA_* as seen from callframe.py (from .constants import * ) *)')
    for name, v in cfa:
        out.append('Definition %s : Z := %s.' % (name, F.z(v)))
    out.append('')
    out.append('Definition gen_DW_CFA : list (string * Z) := %s.' %
               F.lst(('(%s, %s)' % (F.string(n), F.z(v)) for n, v in cfa), per_line=3))
    out.append('')
    out.append('(* ---- callframe._OPCODE_NAME_MAP, dict order *)')
    out.append('Definition gen_OPCODE_NAME_MAP : list (Z * string) := %s.' %
               F.lst(('(%s, %s)' % (F.z(k), F.string(n)) for k, n in namemap), per_line=3))
    out.append('')
    out.append('Definition PRIMARY_MASK : Z := %s.' % F.z(_int('_PRIMARY_MASK', cf._PRIMARY_MASK)))
    out.append('Definition PRIMARY_ARG_MASK : Z := %s.' % F.z(_int('_PRIMARY_ARG_MASK', cf._PRIMARY_ARG_MASK)))
    out.append('')
    out.append('(* ---- dwarf/enums.py DW_EH_encoding_flags *)')
    for name, v in eh:
        out.append('Definition %s : Z := %s.' % (name, F.z(v)))
    out.append('')
    out.append('Definition gen_DW_EH_encoding_flags : list (string * Z) := %s.' %
               F.lst(('(%s, %s)' % (F.string(n), F.z(v)) for n, v in eh), per_line=3))
    out.append('')
    out.append('(* ---- CallFrameInfo._eh_encoding_to_field: basic encoding -> (signed, width);')
    out.append('        width 0 = LEB128, width -1 = Dwarf_target_addr (address_size bytes, unsigned) *)')
    out.append('Definition gen_eh_encoding_to_field : list (Z * (bool * Z)) := %s.' %
               F.lst(('(%s, (%s, %s))' % (F.z(b), F.boolean(s), F.z(w)) for b, (s, w) in fields), per_line=3))
    out.append('')
    return {'C06Tables.v': '\n'.join(out)}
