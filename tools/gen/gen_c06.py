"""gen_c06.py — the data of dwarf/callframe.py as Coq terms (coq/Gen/C06Tables.v).

From the LIVE modules (so the `from .constants import *` and the globals() scan that builds
_OPCODE_NAME_MAP are evaluated by Python itself):

  Definition DW_CFA_<x> : Z            one per DW_CFA_* name visible in callframe's globals
  gen_DW_CFA : list (string * Z)       the same, in globals order
  gen_OPCODE_NAME_MAP : list (Z * string)   callframe._OPCODE_NAME_MAP in dict order
  PRIMARY_MASK, PRIMARY_ARG_MASK       callframe._PRIMARY_MASK / _PRIMARY_ARG_MASK
  Definition DW_EH_PE_<x> : Z          one per key of dwarf.enums.DW_EH_encoding_flags
  gen_DW_EH_encoding_flags : list (string * Z)
  gen_eh_encoding_to_field : list (Z * (bool * Z))
        CallFrameInfo._eh_encoding_to_field(structs) evaluated on live DWARFStructs objects:
        basic encoding -> (signed?, width) with width 0 = LEB128 and width -1 = target address
        (the one entry whose constructor changes with address_size).

  hkind, gen_Dwarf_CIE_header, gen_EH_CIE_header, gen_Dwarf_FDE_header : list (string * hkind)
        the construct trees of the three call frame header structs of DWARFStructs, walked on live
        objects for every (little_endian, dwarf_format, address_size): field names in order and
        what each field reads (initial length, offset = 4|8 bytes by dwarf_format, target address =
        address_size bytes, fixed ints, LEB128, C string, If/IfThenElse on ctx.version probed
        for version 0..255 and required to be a threshold).

Fail closed: a non-int constant, a name that is not an identifier, a field constructor that is
not one of construct's fixed ints / ULEB128 / SLEB128, or a mapping that depends on anything but
address_size raises."""
import re
from . import coqfmt as F

IDENT = re.compile(r'^[A-Za-z_][A-Za-z0-9_]*$')


class CannotExpress(Exception):
    pass


def _int(where, v):
    if isinstance(v, bool) or not isinstance(v, int):
        raise CannotExpress('%s is %r, not an int' % (where, v))
    return int(v)


def _field_kind(structs_by_cfg, basic):
    """(signed, width) of the field constructor the mapping gives for `basic`, checked on every
    (little_endian, dwarf_format, address_size) configuration."""
    from elftools.dwarf.callframe import CallFrameInfo
    from elftools.common.construct_utils import ULEB128, SLEB128
    kinds = {}
    for cfg, st in structs_by_cfg.items():
        cons = CallFrameInfo._eh_encoding_to_field(st)[basic]
        if cons is ULEB128:
            k = (False, 0)
        elif cons is SLEB128:
            k = (True, 0)
        else:
            found = None
            for signed, w, nm in [(False, 1, 'Dwarf_uint8'), (False, 2, 'Dwarf_uint16'), (False, 4, 'Dwarf_uint32'),
                                  (False, 8, 'Dwarf_uint64'), (True, 1, 'Dwarf_int8'), (True, 2, 'Dwarf_int16'),
                                  (True, 4, 'Dwarf_int32'), (True, 8, 'Dwarf_int64')]:
                if cons is getattr(st, nm):
                    found = (signed, w)
                    break
            if found is None:
                raise CannotExpress('_eh_encoding_to_field[%#x] is %r: not a fixed int or LEB128' % (basic, cons))
            # byte order must follow the structs' byte order
            import io
            probe = cons('').parse_stream(io.BytesIO(b'\x01' + b'\x00' * 7))
            want = 1 if cfg[0] else 1 << (8 * (found[1] - 1))
            if probe != want:
                raise CannotExpress('_eh_encoding_to_field[%#x]: byte order does not follow little_endian' % basic)
            k = found
        kinds[cfg] = k
    vals = set(kinds.values())
    if len(vals) == 1:
        return vals.pop()
    # allowed dependency: exactly "unsigned, address_size bytes"
    if all(kinds[cfg] == (False, cfg[2]) for cfg in kinds):
        return (False, -1)
    raise CannotExpress('_eh_encoding_to_field[%#x] varies with the configuration in an unmodelled way: %r'
                        % (basic, kinds))



class _Ctx(dict):
    """a construct context that has only `version`; any other access fails the translation"""
    def __getattr__(self, k):
        try:
            return self[k]
        except KeyError:
            raise CannotExpress('header predicate reads ctx.%s (only ctx.version is modelled)' % k)


_FMT = {'B': ('HU', 1), 'H': ('HU', 2), 'L': ('HU', 4), 'Q': ('HU', 8),
        'b': ('HS', 1), 'h': ('HS', 2), 'l': ('HS', 4), 'q': ('HS', 8)}


def _hkind(cfg, c):
    """the kind of one subconstruct on configuration cfg, as a nested tuple"""
    import io
    from elftools.common.construct_utils import ULEB128, SLEB128
    from elftools.construct import Switch, FormatField, Value
    tn = type(c).__name__
    if tn == '_InitialLengthAdapter':
        return ('HInitLen',)
    if isinstance(c, ULEB128):
        return ('HUleb',)
    if isinstance(c, SLEB128):
        return ('HSleb',)
    if isinstance(c, FormatField):
        fmt = c.packer.format
        if isinstance(fmt, bytes):
            fmt = fmt.decode()
        if len(fmt) != 2 or fmt[0] != ('<' if cfg[0] else '>') or fmt[1] not in _FMT:
            raise CannotExpress('field %r has struct format %r' % (c.name, fmt))
        return _FMT[fmt[1]]
    if isinstance(c, Value):
        if c.func(_Ctx(version=0)) is not None:
            raise CannotExpress('Value field %r is not the constant None' % c.name)
        return ('HNone',)
    if isinstance(c, Switch):
        if set(c.cases.keys()) != {True, False}:
            raise CannotExpress('Switch %r is not an If/IfThenElse' % c.name)
        truth = [bool(c.keyfunc(_Ctx(version=v))) for v in range(256)]
        n = truth.index(True) if True in truth else 256
        if truth != [False] * n + [True] * (256 - n):
            raise CannotExpress('predicate of %r is not a threshold on ctx.version' % c.name)
        return ('HIfVer', n, _hkind(cfg, c.cases[True]), _hkind(cfg, c.cases[False]))
    # CString is a macro (Rename over an adapter): recognise it by behaviour
    try:
        s = io.BytesIO(b'ab\x00cd')
        if c.parse_stream(s) == b'ab' and s.tell() == 3:
            return ('HCStr',)
    except Exception:
        pass
    raise CannotExpress('header field %r is a %s: not expressible' % (c.name, tn))


def _hkind_coq(k):
    if k[0] in ('HU', 'HS'):
        return '(%s %d)' % k
    if k[0] == 'HIfVer':
        return '(HIfVer %d %s %s)' % (k[1], _hkind_coq(k[2]), _hkind_coq(k[3]))
    return k[0]


def _header_layout(structs_by_cfg, attr):
    """[(field name, kind)] of structs.<attr>, the same on every configuration except that a field may be
    'offset' (4|8 bytes by dwarf_format) or 'target address' (address_size bytes)"""
    per = {}
    for cfg, st in structs_by_cfg.items():
        s = getattr(st, attr)
        if type(s).__name__ != 'Struct':
            raise CannotExpress('%s is a %s' % (attr, type(s).__name__))
        per[cfg] = [(c.name, _hkind(cfg, c)) for c in s.subcons]
    names = None
    for cfg, l in per.items():
        ns = [n for n, _ in l]
        if names is None:
            names = ns
        elif ns != names:
            raise CannotExpress('%s: field names vary with the configuration' % attr)
    out = []
    for i, n in enumerate(names):
        if not isinstance(n, str) or not IDENT.match(n):
            raise CannotExpress('%s: field name %r' % (attr, n))
        kinds = {cfg: per[cfg][i][1] for cfg in per}
        vals = set(kinds.values())
        if len(vals) == 1:
            k = vals.pop()
        elif all(kinds[cfg] == ('HU', 4 if cfg[1] == 32 else 8) for cfg in kinds):
            k = ('HOffset',)
        elif all(kinds[cfg] == ('HU', cfg[2]) for cfg in kinds):
            k = ('HAddr',)
        else:
            raise CannotExpress('%s.%s varies with the configuration in an unmodelled way' % (attr, n))
        out.append((n, k))
    return out


def generate():
    from elftools.dwarf import callframe as cf
    from elftools.dwarf.enums import DW_EH_encoding_flags
    from elftools.dwarf.structs import DWARFStructs

    cfa = []
    for name, v in vars(cf).items():
        if name.startswith('DW_CFA'):
            if not IDENT.match(name):
                raise CannotExpress('name %r' % name)
            cfa.append((name, _int(name, v)))
    if not cfa:
        raise CannotExpress('no DW_CFA_* constant in callframe globals')
    namemap = []
    for k, v in cf._OPCODE_NAME_MAP.items():
        if not isinstance(v, str) or not IDENT.match(v):
            raise CannotExpress('_OPCODE_NAME_MAP[%r] = %r' % (k, v))
        namemap.append((_int('_OPCODE_NAME_MAP key', k), v))
    eh = []
    for name, v in DW_EH_encoding_flags.items():
        if not IDENT.match(name):
            raise CannotExpress('name %r' % name)
        eh.append((name, _int(name, v)))

    structs = {}
    for le in (True, False):
        for fmt in (32, 64):
            for asz in (4, 8):
                structs[(le, fmt, asz)] = DWARFStructs(little_endian=le, dwarf_format=fmt, address_size=asz)
    basics = None
    for cfg, st in structs.items():
        ks = sorted(cf.CallFrameInfo._eh_encoding_to_field(st).keys())
        if basics is None:
            basics = ks
        elif ks != basics:
            raise CannotExpress('_eh_encoding_to_field key set varies with the configuration')
    fields = [(_int('basic encoding', b), _field_kind(structs, b)) for b in basics]

    out = [F.HEADER % 'gen_c06.py']
    out.append('(* ---- dwarf/constants.py DW_CFA_* as seen from callframe.py (from .constants import * ) *)')
    for name, v in cfa:
        out.append('Definition %s : Z := %s.' % (name, F.z(v)))
    out.append('')
    out.append('Definition gen_DW_CFA : list (string * Z) := %s.' %
               F.lst(('(%s, %s)' % (F.string(n), F.z(v)) for n, v in cfa), per_line=3))
    out.append('')
    out.append('(* ---- callframe._OPCODE_NAME_MAP, dict order *)')
    out.append('Definition gen_OPCODE_NAME_MAP : list (Z * string) := %s.' %
               F.lst(('(%s, %s)' % (F.z(k), F.string(n)) for k, n in namemap), per_line=3))
    out.append('')
    out.append('Definition PRIMARY_MASK : Z := %s.' % F.z(_int('_PRIMARY_MASK', cf._PRIMARY_MASK)))
    out.append('Definition PRIMARY_ARG_MASK : Z := %s.' % F.z(_int('_PRIMARY_ARG_MASK', cf._PRIMARY_ARG_MASK)))
    out.append('')
    out.append('(* ---- dwarf/enums.py DW_EH_encoding_flags *)')
    for name, v in eh:
        out.append('Definition %s : Z := %s.' % (name, F.z(v)))
    out.append('')
    out.append('Definition gen_DW_EH_encoding_flags : list (string * Z) := %s.' %
               F.lst(('(%s, %s)' % (F.string(n), F.z(v)) for n, v in eh), per_line=3))
    out.append('')
    out.append('(* ---- CallFrameInfo._eh_encoding_to_field: basic encoding -> (signed, width);')
    out.append('        width 0 = LEB128, width -1 = Dwarf_target_addr (address_size bytes, unsigned) *)')
    out.append('Definition gen_eh_encoding_to_field : list (Z * (bool * Z)) := %s.' %
               F.lst(('(%s, (%s, %s))' % (F.z(b), F.boolean(s), F.z(w)) for b, (s, w) in fields), per_line=3))
    out.append('')
    out.append('(* ---- dwarf/structs.py _create_callframe_entry_headers: the construct trees, walked *)')
    out.append('Inductive hkind : Type :=')
    out.append('| HInitLen | HOffset | HAddr | HU (n : Z) | HS (n : Z) | HUleb | HSleb | HCStr | HNone')
    out.append('| HIfVer (ge : Z) (then_ else_ : hkind).   (* ctx.version >= ge *)')
    for attr in ('Dwarf_CIE_header', 'EH_CIE_header', 'Dwarf_FDE_header'):
        lay = _header_layout(structs, attr)
        out.append('Definition gen_%s : list (string * hkind) := %s.' %
                   (attr, F.lst(('(%s, %s)' % (F.string(n), _hkind_coq(k)) for n, k in lay), per_line=2)))
    out.append('')
    return {'C06Tables.v': '\n'.join(out)}
