"""gen_c11.py — the DATA of the container code, regenerated from the live modules (coq/Gen/C11Names.v):

* the tuple of section names `get_dwarf_info` asks for (incl. the `+= ('.eh_frame',)`), in order, and for each
  the DWARFInfo keyword it is passed as (read from the function's AST: tuple assignment, tuple unpacking,
  `debug_sections[<name variable>]` keyword arguments);
* the three section names of `has_dwarf_info` and the name of the link section (`has_dwarf_link`,
  `get_dwarf_link`, `get_dwarf_info`);
* the constants of `_decompress_dwarf_section` (magic bytes, struct format of the size, the `size > N` bound,
  chunk size);
* the construct trees of Gnu_debuglink (per byte order; the Padding lambda tabulated for name lengths 0..11),
  Dwarf_debugsup and Dwarf_debugaltlink as shape descriptors.

Fail closed: any shape other than the one Model/C11Dwarf.v mirrors raises Unsupported."""
import ast, inspect
from tools.gen.coqfmt import z, string, lst, HEADER


class Unsupported(Exception):
    pass


def _fn(cls_node, name):
    for n in cls_node.body:
        if isinstance(n, ast.FunctionDef) and n.name == name:
            return n
    raise Unsupported('no method %s' % name)


def _str_tuple(node, what):
    if not isinstance(node, ast.Tuple) or not all(isinstance(e, ast.Constant) and isinstance(e.value, str) for e in node.elts):
        raise Unsupported('%s is not a tuple of string constants' % what)
    return [e.value for e in node.elts]


def _section_names(fn):
    names, targets, kw = None, None, None
    for n in ast.walk(fn):
        if isinstance(n, ast.Assign) and len(n.targets) == 1:
            t = n.targets[0]
            if isinstance(t, ast.Name) and t.id == 'section_names':
                if names is not None:
                    raise Unsupported('section_names assigned twice')
                names = _str_tuple(n.value, 'section_names')
            elif isinstance(t, ast.Tuple) and isinstance(n.value, ast.Name) and n.value.id == 'section_names':
                targets = [e.id for e in t.elts]
        elif isinstance(n, ast.AugAssign) and isinstance(n.target, ast.Name) and n.target.id == 'section_names':
            if not isinstance(n.op, ast.Add) or names is None:
                raise Unsupported('section_names augmented in an unknown way')
            names = names + _str_tuple(n.value, 'section_names +=')
        elif isinstance(n, ast.Call) and isinstance(n.func, ast.Name) and n.func.id == 'DWARFInfo':
            kw = {}
            for k in n.keywords:
                v = k.value
                if k.arg == 'config':
                    continue
                if not (isinstance(v, ast.Subscript) and isinstance(v.value, ast.Name) and v.value.id == 'debug_sections'
                        and isinstance(v.slice, ast.Name)):
                    raise Unsupported('DWARFInfo(%s=...) is not debug_sections[<name>]' % k.arg)
                kw[v.slice.id] = k.arg
    if names is None or targets is None or kw is None or len(targets) != len(names):
        raise Unsupported('get_dwarf_info: section_names / unpacking / DWARFInfo call not found')
    if sorted(kw) != sorted(targets):
        raise Unsupported('DWARFInfo keywords do not use every section name exactly once')
    return [(kw[t], nm) for t, nm in zip(targets, names)]


def _has_section_args(fn):
    out = []
    for n in ast.walk(fn):
        if isinstance(n, ast.Call) and isinstance(n.func, ast.Attribute) and n.func.attr in ('has_section', 'get_section_by_name'):
            if len(n.args) == 1 and isinstance(n.args[0], ast.Constant) and isinstance(n.args[0].value, str):
                out.append((n.lineno, n.col_offset, n.args[0].value))
    return [v for _, _, v in sorted(out)]


def _zdebug_consts(fn):
    magic, fmt, bound, chunk = None, None, None, None
    for n in ast.walk(fn):
        if isinstance(n, ast.Compare) and len(n.ops) == 1 and len(n.comparators) == 1:
            c = n.comparators[0]
            # `x == b'ZLIB'` (asserted) or `x != b'ZLIB'` (raising): the same constant
            if isinstance(n.ops[0], (ast.Eq, ast.NotEq)) and isinstance(c, ast.Constant) and isinstance(c.value, bytes):
                magic = c.value
            # `size > N` (asserted) or `size <= N` (raising): the same bound
            if isinstance(n.ops[0], (ast.Gt, ast.LtE)) and isinstance(n.left, ast.Attribute) and n.left.attr == 'size' \
                    and isinstance(c, ast.Constant) and isinstance(c.value, int):
                bound = c.value
        if isinstance(n, ast.Call) and isinstance(n.func, ast.Attribute) and n.func.attr == 'unpack' \
                and n.args and isinstance(n.args[0], ast.Constant):
            fmt = n.args[0].value
        if isinstance(n, ast.Assign) and isinstance(n.targets[0], ast.Name) and n.targets[0].id == 'chunk':
            v = n.value
            if isinstance(v, ast.Call) and v.args and isinstance(v.args[0], ast.Constant):
                chunk = v.args[0].value
    if None in (magic, fmt, bound, chunk):
        raise Unsupported('_decompress_dwarf_section: constants not found (%r %r %r %r)' % (magic, fmt, bound, chunk))
    return magic, fmt, bound, chunk


class _Ctx:
    def __init__(self, n):
        self.filename = b'x' * n
    def __getitem__(self, k):
        return getattr(self, k)


def _shape(struct):
    """one descriptor per subcon; the Padding length lambda is returned separately"""
    out, padfn = [], None
    for c in struct.subcons:
        t = type(c).__name__
        if t == 'Reconfig' and type(c.subcon).__name__ == 'CStringAdapter':
            a = c.subcon
            r = a.subcon
            if a.terminators != b'\0' or a.encoding is not None or type(r).__name__ != 'RepeatUntil' \
                    or type(r.subcon).__name__ != 'StaticField' or r.subcon.length != 1:
                raise Unsupported('CString of an unknown shape')
            out.append('cstring:%s' % c.name)
        elif t == 'PaddingAdapter':
            if c.pattern != b'\0' or type(c.subcon).__name__ != 'MetaField':
                raise Unsupported('Padding of an unknown shape')
            out.append('padding:strict=%d' % int(bool(c.strict)))
            padfn = c.subcon.lengthfunc
        elif t == 'FormatField':
            out.append('int:%s:%s' % (c.name, c.packer.format))
        elif t == 'StringAdapter' and type(c.subcon).__name__ == 'StaticField':
            out.append('bytes:%s:%d' % (c.name, c.subcon.length))
        else:
            raise Unsupported('subcon %s of %s' % (t, struct.name))
    return out, padfn


def generate():
    import elftools.elf.elffile as EF
    from elftools.elf.structs import ELFStructs
    from elftools.dwarf.structs import DWARFStructs
    tree = ast.parse(inspect.getsource(EF))
    cls = [n for n in tree.body if isinstance(n, ast.ClassDef) and n.name == 'ELFFile']
    if len(cls) != 1:
        raise Unsupported('class ELFFile')
    cls = cls[0]
    slots = _section_names(_fn(cls, 'get_dwarf_info'))
    presence = _has_section_args(_fn(cls, 'has_dwarf_info'))
    links = _has_section_args(_fn(cls, 'has_dwarf_link')) + _has_section_args(_fn(cls, 'get_dwarf_link')) + \
        _has_section_args(_fn(cls, 'get_dwarf_info'))
    magic, fmt, bound, chunk = _zdebug_consts(_fn(cls, '_decompress_dwarf_section'))
    shapes = {}
    pads = {}
    for le in (True, False):
        st = ELFStructs(le, 64)
        st.create_basic_structs()
        st.create_advanced_structs()
        sh, padfn = _shape(st.Gnu_debuglink)
        if padfn is None:
            raise Unsupported('Gnu_debuglink without Padding')
        shapes[('debuglink', le)] = sh
        pads[le] = [padfn(_Ctx(n)) for n in range(12)]
        ds = DWARFStructs(le, 32, 4, 5)
        shapes[('debugsup', le)] = _shape(ds.Dwarf_debugsup)[0]
        shapes[('altlink', le)] = _shape(ds.Dwarf_debugaltlink)[0]
    t = [HEADER % 'gen_c11.py']
    t.append('(* ELFFile.get_dwarf_info: (DWARFInfo keyword, section name) in the order of section_names *)')
    t.append('Definition gen_slots : list (string * string) := %s.\n' %
             lst('(%s, %s)' % (string(a), string(n)) for a, n in slots))
    t.append('(* has_dwarf_info: the names tested, in source order *)')
    t.append('Definition gen_presence_names : list string := %s.\n' % lst([string(x) for x in presence], 0))
    t.append('(* has_dwarf_link, get_dwarf_link, get_dwarf_info: constant names looked up *)')
    t.append('Definition gen_link_names : list string := %s.\n' % lst([string(x) for x in links], 0))
    t.append('(* _decompress_dwarf_section *)')
    t.append('Definition gen_zdebug_magic : list Z := %s.' % lst([z(b) for b in magic], 0))
    t.append('Definition gen_zdebug_size_fmt : string := %s.' % string(fmt))
    t.append('Definition gen_zdebug_min_size : Z := %s.' % z(bound))
    t.append('Definition gen_zdebug_chunk : Z := %s.\n' % z(chunk))
    for (nm, le), sh in sorted(shapes.items()):
        t.append('Definition gen_%s_shape_%s : list string := %s.' % (nm, 'le' if le else 'be', lst([string(x) for x in sh], 0)))
    t.append('')
    for le in (True, False):
        t.append('(* Padding(lambda ctx: ...) of Gnu_debuglink for file names of length 0..11 *)')
        t.append('Definition gen_debuglink_padding_%s : list Z := %s.' % ('le' if le else 'be', lst([z(x) for x in pads[le]], 0)))
    return {'C11Names.v': '\n'.join(t) + '\n'}
