"""pyast.py — a fail-closed translator from (a small fragment of) Python function source to Gallina.

Purpose (DESIGN 2.2.a item 3): small pure functions of the library are not modelled by hand; their
bodies are translated from the LIVE source (inspect.getsource of the function object imported from
/repo) on every run, so the theorems of Props/ are re-checked against what the code says now.

Fragment (anything else raises CannotExpress, which the check reports):
  statements   docstring, pass, `x = e`, `x op= e`, if/elif/else, return, `raise ELFError(...)`
               (and the other library error classes), `for c in bytearray(x)|x:` over a bytes value
               with a body of assignments/ifs (no return/break), `if not isinstance(x, bytes): ...`
               (decided statically from the declared type)
  expressions  int/str/bool constants, names, `obj['field']` on a declared record parameter,
               module globals / attribute chains that evaluate to an int in the function's globals
               (SH_FLAGS.SHF_TLS -> its value), + - * & | ^ ~ unary -, << >> by a non-negative int
               literal, // % by a positive int literal, comparisons (chained), and/or/not,
               `x in (consts)` / `not in`, isinstance(x, int) on an enum-typed value, and calls
               listed in `opaque` (source text -> extra parameter), e.g. self.structs.Elf_Shdr.sizeof()
  types        Z (Python int, unbounded), bool, enum (construct Enum result: a name or a raw int,
               Base/Enum.v enum_val), bytes (list Z)

Python semantics kept: `and`/`or` are only accepted where every operand is a bool or the value is used
as a truth value (so returning the last operand and returning its truth value coincide); an int in a
condition means `!= 0`; ordering comparisons on an enum-typed value are accepted only to the right of
`isinstance(x, int) and` in the same conjunction (otherwise Python could raise TypeError); `==`/`in`
between an enum-typed value and a str compares names (a raw int never equals a str).

Control flow: statements are translated with an explicit continuation.  A branch that ends in
return/raise does not fall through; if at most one path falls through the rest is placed there; if
several do, the rest is bound once (`let k := fun '(v1, ..) => REST in`) and the assigned variables
are passed to it.
"""
import ast, inspect, textwrap


class CannotExpress(Exception):
    pass


ERR_KINDS = {'ELFError': 'EElf', 'ELFParseError': 'EParse', 'ELFRelocationError': 'EReloc',
             'ELFCompressionError': 'ECompress', 'DWARFError': 'EDwarf',
             # construct errors reach the caller through struct_parse, which re-raises them as ELFParseError
             'FieldError': 'EParse', 'ConstructError': 'EParse', 'ArrayError': 'EParse'}


def _z(n):
    return '(%d)' % n if n < 0 else '%d' % n


class Fn:
    """One function being translated."""
    def __init__(self, pyfunc, coq_name, params, records=None, field_types=None, opaque=None,
                 ret='Z', drop_self=True, stream=None, ignore=()):
        """params: ordered {python parameter name: type} for plain parameters;
        records: {python name of a dict-like parameter: coq prefix ('' = bare field names)};
        field_types: {field name: type} (default Z); opaque: {source text: (coq param name, type)}"""
        self.f = pyfunc
        self.coq_name = coq_name
        self.params = dict(params)
        self.records = dict(records or {})
        self.field_types = dict(field_types or {})
        self.opaque = dict(opaque or {})
        self.ret = ret
        self.stream = stream            # name of a file-object parameter read one byte at a time (see stream_loop)
        self.ignore = set(ignore)       # parameters the body must not use (e.g. construct's `context`)
        self.raises = False
        self.fields_used = []       # (record, field) in first-use order
        self.opaque_used = []
        self.globals = pyfunc.__globals__
        src = textwrap.dedent(inspect.getsource(pyfunc))
        tree = ast.parse(src)
        self.node = tree.body[0]
        if not isinstance(self.node, ast.FunctionDef):
            raise CannotExpress('not a function definition')
        self.fresh = 0

    # ------------------------------------------------------------------ helpers
    def bad(self, node, why):
        raise CannotExpress('%s: line %s: %s: %s' % (self.coq_name, getattr(node, 'lineno', '?'), why,
                                                     ast.unparse(node) if isinstance(node, ast.AST) else node))

    def const_eval(self, node):
        """value of a Name/Attribute chain in the function's globals, or None"""
        try:
            code = compile(ast.Expression(node), '<gen>', 'eval')
        except Exception:
            return None
        names = {n.id for n in ast.walk(node) if isinstance(n, ast.Name)}
        if any(n in self.env_types for n in names):
            return None
        try:
            return eval(code, dict(self.globals))
        except Exception:
            return None

    # ------------------------------------------------------------------ expressions
    def expr(self, e):
        """-> (coq text, type)"""
        src = ast.unparse(e)
        if src in self.opaque:
            name, ty = self.opaque[src]
            if (name, ty) not in self.opaque_used:
                self.opaque_used.append((name, ty))
            return name, ty
        if isinstance(e, ast.Constant):
            if isinstance(e.value, bool):
                return ('true' if e.value else 'false'), 'bool'
            if isinstance(e.value, int):
                return _z(e.value), 'Z'
            if isinstance(e.value, str):
                return '"%s"' % e.value.replace('"', '""'), 'str'
            self.bad(e, 'constant of unsupported type')
        if isinstance(e, ast.Name):
            if e.id in self.env_types:
                return self.env_names[e.id], self.env_types[e.id]
            v = self.const_eval(e)
            if isinstance(v, bool):
                return ('true' if v else 'false'), 'bool'
            if isinstance(v, int):
                return _z(v), 'Z'
            self.bad(e, 'unknown name')
        if isinstance(e, ast.Attribute):
            v = self.const_eval(e)
            if isinstance(v, int) and not isinstance(v, bool):
                return _z(v), 'Z'
            self.bad(e, 'attribute that is not an int constant of the module')
        if isinstance(e, ast.Subscript):
            if isinstance(e.value, ast.Name) and e.value.id in self.records and isinstance(e.slice, ast.Constant) \
                    and isinstance(e.slice.value, str):
                rec, fld = e.value.id, e.slice.value
                if (rec, fld) not in self.fields_used:
                    self.fields_used.append((rec, fld))
                return self.records[rec] + fld, self.field_types.get(fld, 'Z')
            self.bad(e, 'subscript')
        if isinstance(e, ast.UnaryOp):
            if isinstance(e.op, ast.Not):
                return 'negb %s' % self.truth(e.operand), 'bool'
            a, ta = self.expr(e.operand)
            if ta != 'Z':
                self.bad(e, 'unary operator on non-int')
            if isinstance(e.op, ast.Invert):
                return '(Z.lnot %s)' % a, 'Z'
            if isinstance(e.op, ast.USub):
                return '(- %s)' % a, 'Z'
            if isinstance(e.op, ast.UAdd):
                return a, 'Z'
            self.bad(e, 'unary operator')
        if isinstance(e, ast.BinOp):
            a, ta = self.expr(e.left)
            b, tb = self.expr(e.right)
            if ta != 'Z' or tb != 'Z':
                self.bad(e, 'binary operator on non-int')
            op = type(e.op)
            simple = {ast.Add: '(%s + %s)', ast.Sub: '(%s - %s)', ast.Mult: '(%s * %s)',
                      ast.BitAnd: '(Z.land %s %s)', ast.BitOr: '(Z.lor %s %s)', ast.BitXor: '(Z.lxor %s %s)'}
            if op in simple:
                return simple[op] % (a, b), 'Z'
            lit = e.right.value if isinstance(e.right, ast.Constant) and isinstance(e.right.value, int) \
                and not isinstance(e.right.value, bool) else None
            if op in (ast.LShift, ast.RShift):
                if (lit is None or lit < 0) and not (isinstance(e.right, ast.Name) and e.right.id in self.nonneg_vars()):
                    self.bad(e, 'shift by something other than a non-negative literal or a counter that provably stays >= 0')
                return ('(Z.shiftl %s %s)' if op is ast.LShift else '(Z.shiftr %s %s)') % (a, b), 'Z'
            if op in (ast.FloorDiv, ast.Mod):
                if lit is None or lit <= 0:
                    self.bad(e, 'division by something other than a positive literal')
                return ('(%s / %s)' if op is ast.FloorDiv else '(%s mod %s)') % (a, b), 'Z'
            self.bad(e, 'binary operator')
        if isinstance(e, ast.BoolOp):
            parts = self.boolop_parts(e)
            sep = ' && ' if isinstance(e.op, ast.And) else ' || '
            return '(' + sep.join(parts) + ')', 'bool'
        if isinstance(e, ast.IfExp):
            c = self.truth(e.test)
            a, ta = self.expr(e.body)
            b, tb = self.expr(e.orelse)
            if ta != tb or ta == 'str':
                self.bad(e, 'conditional expression with branches of types %s / %s' % (ta, tb))
            return '(if %s then %s else %s)' % (c, a, b), ta
        if isinstance(e, ast.Compare):
            return self.compare(e, guarded=set()), 'bool'
        if isinstance(e, ast.Call):
            if isinstance(e.func, ast.Name) and e.func.id == 'isinstance' and len(e.args) == 2:
                x, tx = self.expr(e.args[0])
                cls = ast.unparse(e.args[1])
                if tx == 'enum' and cls == 'int':
                    return '(enum_is_raw %s)' % x, 'bool'
                if tx == 'bytes' and cls == 'bytes':
                    return 'true', 'bool'
                if tx == 'Z' and cls == 'int':
                    return 'true', 'bool'
                self.bad(e, 'isinstance that the declared types do not decide')
            if isinstance(e.func, ast.Name) and e.func.id == 'bytearray' and len(e.args) == 1:
                x, tx = self.expr(e.args[0])
                if tx == 'bytes':
                    return x, 'bytes'
            self.bad(e, 'call')
        self.bad(e, 'expression')

    def boolop_parts(self, e):
        """operands of an and/or as truth values; tracks `isinstance(x, int) and ...` guards"""
        parts = []
        guarded = set()
        for v in e.values:
            if isinstance(e.op, ast.And) and isinstance(v, ast.Compare):
                parts.append(self.compare(v, guarded=guarded))
            else:
                parts.append(self.truth(v))
            if isinstance(e.op, ast.And) and isinstance(v, ast.Call) and isinstance(v.func, ast.Name) \
                    and v.func.id == 'isinstance' and len(v.args) == 2 and ast.unparse(v.args[1]) == 'int' \
                    and isinstance(v.args[0], ast.Name):
                guarded.add(v.args[0].id)
        return parts

    def truth(self, e):
        """coq bool text for `e` used as a truth value"""
        if isinstance(e, ast.BoolOp):
            parts = self.boolop_parts(e)
            return '(' + (' && ' if isinstance(e.op, ast.And) else ' || ').join(parts) + ')'
        t, ty = self.expr(e)
        if ty == 'bool':
            return t
        if ty == 'Z':
            return '(negb (%s =? 0))' % t
        self.bad(e, 'truth value of a %s' % ty)

    def compare(self, e, guarded):
        out = []
        left = e.left
        for op, right in zip(e.ops, e.comparators):
            out.append(self.compare1(e, left, op, right, guarded))
            left = right
        return out[0] if len(out) == 1 else '(' + ' && '.join(out) + ')'

    def compare1(self, whole, l, op, r, guarded):
        if isinstance(op, (ast.In, ast.NotIn)):
            x, tx = self.expr(l)
            if not isinstance(r, (ast.Tuple, ast.List)):
                self.bad(whole, '`in` over something other than a literal tuple')
            alts = []
            for c in r.elts:
                ct, cty = self.expr(c)
                alts.append(self.equal(whole, x, tx, ct, cty))
            t = '(' + ' || '.join(alts) + ')' if alts else 'false'
            return t if isinstance(op, ast.In) else '(negb %s)' % t
        a, ta = self.expr(l)
        b, tb = self.expr(r)
        if isinstance(op, ast.Eq):
            return self.equal(whole, a, ta, b, tb)
        if isinstance(op, ast.NotEq):
            return '(negb %s)' % self.equal(whole, a, ta, b, tb)
        sym = {ast.Lt: '<?', ast.LtE: '<=?', ast.Gt: '>?', ast.GtE: '>=?'}.get(type(op))
        if sym is None:
            self.bad(whole, 'comparison operator')
        for node, t in ((l, ta), (r, tb)):
            if t == 'enum':
                if not (isinstance(node, ast.Name) and node.id in guarded):
                    self.bad(whole, 'ordering comparison on an enum-typed value without an isinstance(x, int) guard')
        if ta == 'enum':
            a = '(enum_raw %s)' % a
            ta = 'Z'
        if tb == 'enum':
            b = '(enum_raw %s)' % b
            tb = 'Z'
        if ta != 'Z' or tb != 'Z':
            self.bad(whole, 'ordering comparison on non-int')
        return '(%s %s %s)' % (a, sym, b)

    def equal(self, whole, a, ta, b, tb):
        if ta == 'Z' and tb == 'Z':
            return '(%s =? %s)' % (a, b)
        if ta == 'enum' and tb == 'str':
            return '(enum_is_name %s %s)' % (a, b)
        if ta == 'str' and tb == 'enum':
            return '(enum_is_name %s %s)' % (b, a)
        if ta == 'enum' and tb == 'Z':
            return '(enum_is_int %s %s)' % (a, b)
        if ta == 'Z' and tb == 'enum':
            return '(enum_is_int %s %s)' % (b, a)
        if ta == 'bool' and tb == 'bool':
            return '(Bool.eqb %s %s)' % (a, b)
        self.bad(whole, 'equality between %s and %s' % (ta, tb))

    # ------------------------------------------------------------------ statements
    def terminates(self, stmts):
        """does every path through stmts end in return/raise?"""
        for s in stmts:
            if isinstance(s, (ast.Return, ast.Raise)):
                return True
            if isinstance(s, ast.If) and s.orelse and self.terminates(s.body) and self.terminates(s.orelse):
                return True
        return False

    def has_exit(self, stmts):
        for s in stmts:
            for n in ast.walk(s):
                if isinstance(n, (ast.Return, ast.Raise)):
                    return True
        return False

    def assigned(self, stmts):
        out = []
        for s in stmts:
            for n in ast.walk(s):
                t = None
                if isinstance(n, ast.Assign) and len(n.targets) == 1 and isinstance(n.targets[0], ast.Name):
                    t = n.targets[0].id
                elif isinstance(n, ast.AugAssign) and isinstance(n.target, ast.Name):
                    t = n.target.id
                if t and t not in out:
                    out.append(t)
        return out

    def live_assigned(self, s, rest):
        """variables assigned in the branches of `s` that were bound before it; a variable first bound
        inside a branch is local to it and must not be read afterwards (fail closed otherwise)"""
        vs = []
        for v in self.assigned(s.body + s.orelse):
            if v in self.env_types:
                vs.append(v)
            else:
                for r in rest:
                    for n in ast.walk(r):
                        if isinstance(n, ast.Name) and n.id == v and isinstance(n.ctx, ast.Load):
                            self.bad(s, 'variable %s is first assigned inside a branch and read after it' % v)
        return vs

    def wrap_ret(self, text):
        if self.stream:
            if not getattr(self, 'in_stream_loop', False):
                self.bad(self.node, 'return outside the stream loop of a stream function')
            return 'Ok (%s, v_%s)' % (text, self.stream)
        return 'Ok %s' % text if self.raises else text

    def block(self, stmts, k):
        """translate stmts followed by continuation k (a thunk -> coq text, or None at function end)"""
        if not stmts:
            if k is None:
                self.bad(self.node, 'function may fall off its end (returns None)')
            return k()
        s, rest = stmts[0], stmts[1:]
        nxt = lambda: self.block(rest, k)
        if isinstance(s, ast.Expr) and isinstance(s.value, ast.Constant) and isinstance(s.value.value, str):
            return nxt()
        if isinstance(s, ast.Pass):
            return nxt()
        if isinstance(s, ast.Return):
            if s.value is None:
                self.bad(s, 'bare return')
            if self.ret == 'bool':
                t = self.truth_strict(s.value)
            else:
                t, ty = self.expr(s.value)
                if ty != self.ret:
                    self.bad(s, 'returns %s where %s was declared' % (ty, self.ret))
            return self.wrap_ret(t)
        if isinstance(s, ast.Raise):
            exc = s.exc
            name = exc.func.id if isinstance(exc, ast.Call) and isinstance(exc.func, ast.Name) else \
                (exc.id if isinstance(exc, ast.Name) else None)
            if name not in ERR_KINDS or not self.raises:
                self.bad(s, 'raise of an exception the translation does not declare')
            return 'Err %s' % ERR_KINDS[name]
        if isinstance(s, (ast.Assign, ast.AugAssign)):
            if isinstance(s, ast.Assign):
                if len(s.targets) != 1 or not isinstance(s.targets[0], ast.Name):
                    self.bad(s, 'assignment target')
                tgt = s.targets[0].id
                t, ty = self.expr(s.value)
            else:
                if not isinstance(s.target, ast.Name):
                    self.bad(s, 'assignment target')
                tgt = s.target.id
                t, ty = self.expr(ast.BinOp(left=ast.Name(id=tgt, ctx=ast.Load()), op=s.op, right=s.value,
                                            lineno=s.lineno, col_offset=0))
            if ty == 'str':
                self.bad(s, 'string-valued variable')
            self.bind(tgt, ty)
            return 'let %s := %s in\n%s' % (self.env_names[tgt], t, nxt())
        if isinstance(s, ast.If):
            # statically decided tests (isinstance on declared types)
            c = self.truth(s.test)
            if c in ('true', '(negb true)', 'negb true', 'false', '(negb false)', 'negb false'):
                taken = s.body if c in ('true', '(negb false)', 'negb false') else s.orelse
                return self.block(list(taken) + rest, k)
            tb, te = self.terminates(s.body), self.terminates(s.orelse) if s.orelse else False
            falls = (0 if tb else 1) + (0 if te else 1)
            if falls <= 1:
                saved = self.snapshot()
                a = self.block(s.body, None if tb else nxt)
                self.restore(saved)
                b = self.block(s.orelse, None if te else nxt) if s.orelse else nxt()
                self.restore(saved)
                return 'if %s\nthen %s\nelse %s' % (c, a, b)
            vs = self.live_assigned(s, rest)
            if not self.has_exit(s.body) and not self.has_exit(s.orelse):
                # pure merge: let '(v1, ..) := if c then (..) else (..) in REST
                saved = self.snapshot()
                tup = lambda: self.tuple_of(vs)
                a = self.block(s.body, tup)
                self.restore(saved)
                b = self.block(s.orelse, tup) if s.orelse else tup()
                self.restore(saved)
                if not vs:
                    return nxt()
                pat = self.tuple_pat(vs)
                return "let %s := (if %s\nthen %s\nelse %s) in\n%s" % (pat, c, a, b, nxt())
            # general case: bind the rest once
            self.fresh += 1
            kname = 'k%d' % self.fresh
            saved = self.snapshot()
            call = lambda: '%s %s' % (kname, self.tuple_of(vs) if vs else 'tt')
            a = self.block(s.body, None if tb else call)
            self.restore(saved)
            b = self.block(s.orelse, None if te else call) if s.orelse else call()
            self.restore(saved)
            body = nxt()
            arg = ("'%s" % self.tuple_pat(vs)) if len(vs) > 1 else (self.env_names[vs[0]] if vs else '(_ : unit)')
            return 'let %s := fun %s =>\n%s in\nif %s\nthen %s\nelse %s' % (kname, arg, body, c, a, b)
        if isinstance(s, ast.While):
            if not self.stream:
                self.bad(s, 'while loop in a function without a declared stream parameter')
            return self.stream_loop(s, rest)
        if isinstance(s, ast.For):
            if s.orelse or not isinstance(s.target, ast.Name):
                self.bad(s, 'for loop shape')
            it, ity = self.expr(s.iter)
            if ity != 'bytes':
                self.bad(s, 'for loop over something other than a bytes value')
            if self.has_exit(s.body) or any(isinstance(n, (ast.Break, ast.Continue, ast.For, ast.While))
                                            for b in s.body for n in ast.walk(b)):
                self.bad(s, 'for loop body with return/break/continue/nested loop')
            vs = self.assigned(s.body)
            for v in vs:
                if v not in self.env_types:
                    self.bad(s, 'loop variable %s not initialised before the loop' % v)
            init = self.tuple_of(vs)
            saved = self.snapshot()
            self.bind(s.target.id, 'Z')
            cname = self.env_names[s.target.id]
            body = self.block(s.body, lambda: self.tuple_of(vs))
            self.restore(saved)
            st = ("'%s" % self.tuple_pat(vs)) if len(vs) > 1 else self.env_names[vs[0]]
            pat = self.tuple_pat(vs) if len(vs) > 1 else self.env_names[vs[0]]
            return "let %s := fold_left (fun %s %s =>\n%s) %s %s in\n%s" % (
                ("'" + pat) if len(vs) > 1 else pat, st, cname, body, it, init, nxt())
        self.bad(s, 'statement')

    def truth_strict(self, e):
        """a returned value declared bool: every leaf must be bool-typed (and/or then return a bool)"""
        if isinstance(e, ast.BoolOp):
            parts = []
            guarded = set()
            for v in e.values:
                if isinstance(e.op, ast.And) and isinstance(v, ast.Compare):
                    parts.append(self.compare(v, guarded))
                else:
                    parts.append(self.truth_strict(v))
            return '(' + (' && ' if isinstance(e.op, ast.And) else ' || ').join(parts) + ')'
        t, ty = self.expr(e)
        if ty != 'bool':
            self.bad(e, 'returned value is %s, declared bool' % ty)
        return t

    def tuple_of(self, vs):
        return '(' + ', '.join(self.env_names[v] for v in vs) + ')' if len(vs) != 1 else self.env_names[vs[0]]

    def tuple_pat(self, vs):
        return '(' + ', '.join(self.env_names[v] for v in vs) + ')' if len(vs) != 1 else self.env_names[vs[0]]

    def bind(self, name, ty):
        self.env_types[name] = ty
        self.env_names[name] = 'v_' + name

    def snapshot(self):
        return dict(self.env_types), dict(self.env_names)

    def restore(self, snap):
        self.env_types, self.env_names = dict(snap[0]), dict(snap[1])

    def nonneg_vars(self):
        """names whose every assignment in the function is `= <non-negative int literal>` or
        `+= <non-negative int literal>`: such a counter can never be negative (sound, syntactic)"""
        ok, bad = set(), set()
        def lit(v):
            return isinstance(v, ast.Constant) and isinstance(v.value, int) and not isinstance(v.value, bool) and v.value >= 0
        for n in ast.walk(self.node):
            if isinstance(n, ast.Assign):
                for t in n.targets:
                    for m in ast.walk(t):
                        if isinstance(m, ast.Name):
                            (ok if lit(n.value) and isinstance(t, ast.Name) else bad).add(m.id)
            elif isinstance(n, ast.AugAssign) and isinstance(n.target, ast.Name):
                (ok if isinstance(n.op, ast.Add) and lit(n.value) else bad).add(n.target.id)
            elif isinstance(n, (ast.For, ast.comprehension)):
                for m in ast.walk(n.target):
                    if isinstance(m, ast.Name):
                        bad.add(m.id)
        for a in self.node.args.args:
            bad.add(a.arg)
        return ok - bad

    def stream_loop(self, s, rest):
        """`while True:` whose body starts with
               d = stream.read(1)
               if len(d) != 1: raise E(...)
               b = d[0]
        and whose remaining statements either return or fall off the end (= next iteration).
        Becomes a Fixpoint by structural recursion on the unread bytes; returns (value, unread bytes)."""
        if rest:
            self.bad(s, 'statements after the stream loop')
        if not (isinstance(s.test, ast.Constant) and s.test.value is True) or s.orelse or len(s.body) < 3:
            self.bad(s, 'while loop shape')
        st = self.stream
        a0, a1, a2 = s.body[0], s.body[1], s.body[2]
        ok = (isinstance(a0, ast.Assign) and len(a0.targets) == 1 and isinstance(a0.targets[0], ast.Name)
              and ast.unparse(a0.value) == '%s.read(1)' % st)
        d = a0.targets[0].id if ok else None
        ok = ok and isinstance(a1, ast.If) and not a1.orelse and ast.unparse(a1.test) == 'len(%s) != 1' % d \
            and len(a1.body) == 1 and isinstance(a1.body[0], ast.Raise)
        ok = ok and isinstance(a2, ast.Assign) and len(a2.targets) == 1 and isinstance(a2.targets[0], ast.Name) \
            and ast.unparse(a2.value) == '%s[0]' % d
        if not ok:
            self.bad(s, 'stream loop must start with  d = %s.read(1); if len(d) != 1: raise ...; b = d[0]' % st)
        exc = a1.body[0].exc
        ename = exc.func.id if isinstance(exc, ast.Call) and isinstance(exc.func, ast.Name) else \
            (exc.id if isinstance(exc, ast.Name) else None)
        if ename not in ERR_KINDS:
            self.bad(a1, 'unknown exception class')
        body = s.body[3:]
        for n in ast.walk(ast.Module(body=body, type_ignores=[])):
            if isinstance(n, ast.Name) and n.id in (d, st):
                self.bad(s, 'the loop body uses the raw read buffer or the stream beyond the read pattern')
            if isinstance(n, (ast.Break, ast.Continue, ast.While, ast.For)):
                self.bad(s, 'break/continue/nested loop in the stream loop')
        carried = [v for v in self.assigned(body) if v in self.env_types]
        for v in self.assigned(body):
            if v not in self.env_types:
                # a variable first bound inside the body is local to one iteration: it must be assigned
                # before any use in the body (checked by expr(): unknown name otherwise)
                pass
        for v in carried:
            if self.env_types[v] != 'Z':
                self.bad(s, 'loop-carried variable %s is not an int' % v)
        loop = self.coq_name + '_loop'
        saved = self.snapshot()
        self.bind(a2.targets[0].id, 'Z')
        bname = self.env_names[a2.targets[0].id]
        self.in_stream_loop = True
        call = lambda: '%s v_%s %s' % (loop, st, ' '.join(self.env_names[v] for v in carried))
        text = self.block(body, call)
        self.in_stream_loop = False
        self.restore(saved)
        fix = ('Fixpoint %s (v_%s : list Z) %s {struct v_%s} : res (Z * list Z) :=\n'
               'match v_%s with\n| [] => Err %s\n| %s :: v_%s =>\n%s\nend.\n' %
               (loop, st, ' '.join('(%s : Z)' % self.env_names[v] for v in carried), st,
                st, ERR_KINDS[ename], bname, st, text))
        self.prelude_defs.append(fix)
        return '%s v_%s %s' % (loop, st, ' '.join(self.env_names[v] for v in carried))

    # ------------------------------------------------------------------ top
    def translate(self):
        self.env_types, self.env_names = {}, {}
        args = [a.arg for a in self.node.args.args]
        if self.node.args.vararg or self.node.args.kwarg or self.node.args.kwonlyargs:
            self.bad(self.node, 'signature')
        plain = []
        self.prelude_defs = []
        self.in_stream_loop = False
        for a in args:
            if a in self.records:
                continue
            if a == self.stream or a in self.ignore:
                continue
            if a == 'self' and a not in self.params:
                continue
            if a not in self.params:
                self.bad(self.node, 'parameter %s has no declared type' % a)
            self.bind(a, self.params[a])
            plain.append(a)
        self.raises = any(isinstance(n, ast.Raise) for n in ast.walk(self.node))
        for n in ast.walk(self.node):
            if isinstance(n, ast.Name) and n.id in self.ignore:
                self.bad(n, 'use of a parameter declared unused')
        body = self.block(self.node.body, None)
        coqty = {'Z': 'Z', 'bool': 'bool', 'enum': 'enum_val', 'bytes': 'list Z'}
        binders = []
        # canonical parameter order (by field name): a reordering of the statements does not change the signature
        self.fields_used.sort(key=lambda rf: rf[1])
        self.opaque_used.sort()
        for rec, fld in self.fields_used:
            binders.append('(%s%s : %s)' % (self.records[rec], fld, coqty[self.field_types.get(fld, 'Z')]))
        for name, ty in self.opaque_used:
            binders.append('(%s : %s)' % (name, coqty[ty]))
        for a in plain:
            binders.append('(v_%s : %s)' % (a, coqty[self.params[a]]))
        rty = coqty[self.ret]
        if self.stream:
            binders.insert(0, '(v_%s : list Z)' % self.stream)
            rty = 'res (%s * list Z)' % rty
        elif self.raises:
            rty = 'res %s' % (rty if ' ' not in rty else '(%s)' % rty)
        sig = '(* parameters, in order: %s *)' % ', '.join(
            ['%s[%r]' % (r, f) for r, f in self.fields_used] + [n for n, _ in self.opaque_used] + plain)
        return '%s\n%sDefinition %s %s : %s :=\n%s.\n' % (sig, ''.join(d + '\n' for d in self.prelude_defs),
                                                           self.coq_name, ' '.join(binders), rty, body)


PRELUDE = '''From PV Require Import Base.Enum Base.Outcome.

(* what the translated code may ask of a construct Enum result (a name or a raw int) *)
Definition enum_is_name (e : enum_val) (n : string) : bool :=
  match e with Name m => String.eqb m n | _ => false end.
Definition enum_is_int (e : enum_val) (v : Z) : bool :=
  match e with Raw w => Z.eqb w v | _ => false end.
Definition enum_is_raw (e : enum_val) : bool :=
  match e with Raw _ => true | _ => false end.
(* only ever emitted under an `isinstance(x, int) and` guard *)
Definition enum_raw (e : enum_val) : Z :=
  match e with Raw w => w | _ => 0 end.
'''
