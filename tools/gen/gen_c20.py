"""Gen for C20: build-attribute tag tables, attribute/EHABI struct layouts and the EHABI
byte-code dispatch `ring`, all read from the LIVE modules under /repo (nothing is parsed
from source text).  Fails closed (raises) on any construct it cannot describe."""
from tools.gen import coqfmt as F


def _field_kind(c):
    """Describe one construct as a short kind string; raise on anything unknown."""
    from elftools.construct import core, adapters
    from elftools.common.construct_utils import ULEB128
    if isinstance(c, core.FormatField):
        fmt = c.packer.format
        if fmt not in ('<L', '>L', '<B', '>B'):
            raise ValueError('unexpected format field %r %r' % (c.name, fmt))
        return {'<L': 'u32le', '>L': 'u32be', '<B': 'u8', '>B': 'u8'}[fmt]
    if isinstance(c, ULEB128):
        return 'uleb128'
    if isinstance(c, core.Reconfig) and isinstance(c.subcon, adapters.CStringAdapter):
        a = c.subcon
        if a.terminators != b'\x00' or not isinstance(a.subcon, core.RepeatUntil):
            raise ValueError('unexpected CString shape for %r' % c.name)
        if a.encoding not in ('utf-8', 'utf8'):
            raise ValueError('unexpected CString encoding %r' % (a.encoding,))
        return 'ntbs'
    raise ValueError('cannot express construct %r (%s)' % (getattr(c, 'name', None), type(c).__name__))


def _struct_layout(s):
    from elftools.construct import core
    if type(s) is not core.Struct:
        raise ValueError('not a plain Struct: %r' % (s,))
    return [(c.name, _field_kind(c)) for c in s.subcons]


def _enum_table(struct_with_enum):
    """Struct(name, Enum(ULEB128('tag'), **tbl)) -> [(name, value)] in the order of the decoding dict."""
    from elftools.construct import core, adapters
    from elftools.common.construct_utils import ULEB128
    if type(struct_with_enum) is not core.Struct or len(struct_with_enum.subcons) != 1:
        raise ValueError('attribute tag struct is not Struct(Enum(...))')
    m = struct_with_enum.subcons[0]
    if type(m) is not adapters.MappingAdapter or not isinstance(m.subcon, ULEB128) or m.subcon.name != 'tag':
        raise ValueError('attribute tag is not Enum(ULEB128("tag"))')
    if m.decdefault is not NotImplemented:
        raise ValueError('attribute tag Enum has a default: model assumes MappingError on unknown tags')
    out = []
    for value, name in m.decoding.items():
        if not isinstance(value, int) or not isinstance(name, str):
            raise ValueError('non int->str enum entry %r' % ((value, name),))
        out.append((name, value))
    return out


def _pairs(items):
    return F.lst(('(%s, %s)' % (F.string(a), F.string(b)) for a, b in items), per_line=0)


def generate():
    from elftools.elf.structs import ELFStructs
    from elftools.elf import enums
    from elftools.ehabi.structs import EHABIStructs
    from elftools.ehabi.decoder import EHABIBytecodeDecoder
    from elftools.ehabi import constants as ehc

    per = {}
    for le in (True, False):
        st = ELFStructs(little_endian=le, elfclass=32)
        st.create_basic_structs()
        st.create_advanced_structs(e_machine='EM_ARM')
        eh = EHABIStructs(le)
        per[le] = dict(
            arm=_enum_table(st.Elf_Arm_Attribute_Tag),
            riscv=_enum_table(st.Elf_RiscV_Attribute_Tag),
            hdr=_struct_layout(st.Elf_Attr_Subsection_Header),
            word=_field_kind(st.Elf_word('value')),
            byte=_field_kind(st.Elf_byte('nul')),
            uleb=_field_kind(st.Elf_uleb128('value')),
            ntbs=_field_kind(st.Elf_ntbs('value', encoding='utf-8')),
            ehidx=_struct_layout(eh.EH_index_struct),
            ehtab=_struct_layout(eh.EH_table_struct),
        )
    # the tag tables do not depend on the byte order; the 64-bit class uses the same constructors
    if per[True]['arm'] != per[False]['arm'] or per[True]['riscv'] != per[False]['riscv']:
        raise ValueError('tag tables differ between byte orders')
    st64 = ELFStructs(little_endian=True, elfclass=64)
    st64.create_basic_structs()
    st64.create_advanced_structs(e_machine='EM_RISCV')
    if _enum_table(st64.Elf_RiscV_Attribute_Tag) != per[True]['riscv'] or \
            _struct_layout(st64.Elf_Attr_Subsection_Header) != per[True]['hdr'] or \
            _field_kind(st64.Elf_word('value')) != per[True]['word']:
        raise ValueError('attribute structs differ between ELF classes')
    # the struct tables must be the enum dicts (this is what ties elf/enums.py to the parser)
    if dict(per[True]['arm']) != dict(enums.ENUM_ATTR_TAG_ARM) or dict(per[True]['riscv']) != dict(enums.ENUM_ATTR_TAG_RISCV):
        raise ValueError('Elf_*_Attribute_Tag decoding tables are not ENUM_ATTR_TAG_*')

    ring = []
    for r in EHABIBytecodeDecoder.ring:
        mask, value, handler = r.mask, r.value, r.handler
        if not (isinstance(mask, int) and isinstance(value, int) and 0 <= mask < 256 and 0 <= value < 256):
            raise ValueError('ring entry out of byte range: %r' % (r,))
        ring.append('(%s, %s, %s)' % (F.z(mask), F.z(value), F.string(handler.__name__)))

    out = [F.HEADER % 'gen_c20.py']
    out.append('(* elf/structs.py Elf_Arm_Attribute_Tag / Elf_RiscV_Attribute_Tag: Enum(ULEB128) decoding tables\n'
               '   (= elf/enums.py ENUM_ATTR_TAG_ARM / ENUM_ATTR_TAG_RISCV), no default *)')
    out.append('Definition gen_attr_tag_arm : list (string * Z) := %s.\n' % F.assoc(dict(per[True]['arm'])))
    out.append('Definition gen_attr_tag_riscv : list (string * Z) := %s.\n' % F.assoc(dict(per[True]['riscv'])))
    out.append('(* field layouts, per byte order (true = little endian) *)')
    for key, name in (('hdr', 'gen_attr_subsection_header'), ('ehidx', 'gen_eh_index_struct'),
                      ('ehtab', 'gen_eh_table_struct')):
        out.append('Definition %s (le : bool) : list (string * string) :=\n  if le then %s else %s.' %
                   (name, _pairs(per[True][key]), _pairs(per[False][key])))
    for key, name in (('word', 'gen_elf_word'), ('byte', 'gen_elf_byte'), ('uleb', 'gen_elf_uleb128'),
                      ('ntbs', 'gen_elf_ntbs')):
        out.append('Definition %s (le : bool) : string := if le then %s else %s.' %
                   (name, F.string(per[True][key]), F.string(per[False][key])))
    out.append('\n(* ehabi/constants.py *)')
    out.append('Definition gen_ehabi_index_entry_size : Z := %s.' % F.z(ehc.EHABI_INDEX_ENTRY_SIZE))
    out.append('\n(* ehabi/decoder.py EHABIBytecodeDecoder.ring: (mask, value, handler.__name__), first match wins *)')
    out.append('Definition gen_ehabi_ring : list (Z * Z * string) := %s.' % F.lst(ring))
    return {'C20Tables.v': '\n'.join(out) + '\n'}
