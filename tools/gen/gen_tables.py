"""gen_tables.py — every name<->number table of the LIVE /repo modules as Coq association lists.

Output: coq/Gen/Tables.v with one  Definition tbl_<NAME> : list (string * Z)  per table, in
dict order (the order is observable: construct's Enum reverses the dict by overwrite, so the
LAST name with a given value is the one reported), plus

  all_tables      : list (string * list (string * Z))     every table under its name
  table_default   : list (string * bool)                  true = the dict carries _default_=Pass
  map_ENUMMAP_EXTRA_D_TAG_MACHINE : list (string * string) e_machine name -> table name

Stable names (other properties import them):
  elf/enums.py        ENUM_X                      -> tbl_ENUM_X        (e.g. tbl_ENUM_SH_TYPE_BASE)
  elf/constants.py    class X                     -> tbl_X             (tbl_SH_FLAGS, tbl_P_FLAGS, ...)
  dwarf/enums.py      ENUM_DW_X                   -> tbl_ENUM_DW_X
                      DW_EH_encoding_flags        -> tbl_DW_EH_encoding_flags
                      DW_FORM_raw2name (int->name)-> tbl_DW_FORM_raw2name   (pairs (name, int), dict order)
  dwarf/constants.py  DW_<G>_* module constants   -> tbl_CONST_DW_<G>  (tbl_CONST_DW_LNS, tbl_CONST_DW_CFA ...)
  dwarf/dwarf_expr.py DW_OP_name2opcode           -> tbl_DW_OP_name2opcode
                      DW_OP_opcode2name (int->name)-> tbl_DW_OP_opcode2name
  dwarf/callframe.py  DW_CFA_* in module globals  -> tbl_callframe_DW_CFA
                      _OPCODE_NAME_MAP (int->name)-> tbl_callframe_OPCODE_NAME_MAP
  ehabi/constants.py  module ints                 -> tbl_EHABI_constants

The modules are imported and the live objects walked, so merge_dicts, dict.update,
_generate_dynamic_values and the globals() scan of callframe.py are evaluated by Python itself.
`_default_` keys are not table entries; they are recorded in table_default.
Fail closed: any value that is not a plain int, any key that is not an ASCII identifier, any
`_default_` other than construct's Pass, raises."""
import importlib, re
from . import coqfmt as F

IDENT = re.compile(r'^[A-Za-z_][A-Za-z0-9_]*$')


class CannotExpress(Exception):
    pass


def _check_pairs(where, pairs):
    out = []
    for k, v in pairs:
        if not isinstance(k, str) or not IDENT.match(k):
            raise CannotExpress('%s: key %r is not an identifier' % (where, k))
        if isinstance(v, bool) or not isinstance(v, int):
            raise CannotExpress('%s: value of %s is %r, not an int' % (where, k, v))
        out.append((k, int(v)))
    return out


def collect():
    """-> (tables: list of (name, [(key, int)...]), defaults: {name: bool}, extra_d_tag: [(machine, table)])"""
    from elftools.construct import Pass
    tables, defaults = [], {}

    def add(name, pairs, default=False):
        if not IDENT.match(name):
            raise CannotExpress('table name %r' % name)
        if any(name == t for t, _ in tables):
            raise CannotExpress('duplicate table name ' + name)
        tables.append((name, _check_pairs(name, pairs)))
        defaults[name] = default

    def add_enum_dict(name, d):
        has_default = False
        pairs = []
        for k, v in d.items():
            if k == '_default_':
                if v is not Pass:
                    raise CannotExpress('%s: _default_ is %r, only Pass is modelled' % (name, v))
                has_default = True
            else:
                pairs.append((k, v))
        add(name, pairs, has_default)

    def add_inverse(name, d):
        """int -> name dict, emitted as (name, int) in dict order"""
        pairs = []
        for v, k in d.items():
            if k == '_default_' and v is Pass:
                continue        # the inverse of the `_default_=Pass` entry of the forward dict
            pairs.append((k, v))
        add(name, pairs)

    # ---- elf/enums.py
    ee = importlib.import_module('elftools.elf.enums')
    by_id = {}
    for name, d in vars(ee).items():
        if name.startswith('ENUM_'):
            if not isinstance(d, dict):
                raise CannotExpress('elf.enums.%s is not a dict' % name)
            add_enum_dict(name, d)
            by_id[id(d)] = name
    extra = []
    for mach, d in ee.ENUMMAP_EXTRA_D_TAG_MACHINE.items():
        if id(d) not in by_id:
            raise CannotExpress('ENUMMAP_EXTRA_D_TAG_MACHINE[%s] is not one of the ENUM_ tables' % mach)
        extra.append((mach, by_id[id(d)]))
    unknown = [n for n, d in vars(ee).items()
               if not n.startswith('_') and isinstance(d, dict) and not n.startswith('ENUM_')
               and n != 'ENUMMAP_EXTRA_D_TAG_MACHINE']
    if unknown:
        raise CannotExpress('elf.enums has dict-valued names this generator does not know: %s' % unknown)

    # ---- elf/constants.py: flag classes
    ec = importlib.import_module('elftools.elf.constants')
    for cname, cls in vars(ec).items():
        if cname.startswith('_'):
            continue
        if not isinstance(cls, type):
            raise CannotExpress('elf.constants.%s is not a class' % cname)
        add(cname, [(k, v) for k, v in vars(cls).items() if not k.startswith('_')])

    # ---- dwarf/enums.py
    de = importlib.import_module('elftools.dwarf.enums')
    for name, d in vars(de).items():
        if name.startswith('_') or name == 'Pass':
            continue
        if name.startswith('ENUM_') or name == 'DW_EH_encoding_flags':
            if not isinstance(d, dict):
                raise CannotExpress('dwarf.enums.%s is not a dict' % name)
            add_enum_dict(name, d)
        elif name == 'DW_FORM_raw2name':
            add_inverse(name, d)
        else:
            raise CannotExpress('dwarf.enums.%s: unknown kind of object' % name)

    # ---- dwarf/constants.py: module-level ints grouped by DW_<G>_ prefix (order of first appearance)
    dc = importlib.import_module('elftools.dwarf.constants')
    groups = {}
    for name, v in vars(dc).items():
        if name.startswith('_'):
            continue
        m = re.match(r'^(DW_[A-Za-z]+)_', name)
        if not m:
            raise CannotExpress('dwarf.constants.%s: not a DW_<group>_ name' % name)
        groups.setdefault(m.group(1), []).append((name, v))
    for g, pairs in groups.items():
        add('CONST_' + g, pairs)

    # ---- dwarf/dwarf_expr.py
    dx = importlib.import_module('elftools.dwarf.dwarf_expr')
    add('DW_OP_name2opcode', list(dx.DW_OP_name2opcode.items()))
    add_inverse('DW_OP_opcode2name', dx.DW_OP_opcode2name)

    # ---- dwarf/callframe.py
    cf = importlib.import_module('elftools.dwarf.callframe')
    add('callframe_DW_CFA', [(k, v) for k, v in vars(cf).items() if k.startswith('DW_CFA')])
    add_inverse('callframe_OPCODE_NAME_MAP', cf._OPCODE_NAME_MAP)

    # ---- ehabi/constants.py
    eh = importlib.import_module('elftools.ehabi.constants')
    add('EHABI_constants', [(k, v) for k, v in vars(eh).items() if not k.startswith('_')])

    return tables, defaults, extra


def generate():
    tables, defaults, extra = collect()
    out = [F.HEADER % 'gen_tables.py',
           '(* %d tables, %d (name, value) pairs. *)\n' % (len(tables), sum(len(p) for _, p in tables))]
    for name, pairs in tables:
        out.append('Definition tbl_%s : list (string * Z) := %s.\n' % (
            name, F.lst(('(%s, %s)' % (F.string(k), F.z(v)) for k, v in pairs), per_line=3)))
    out.append('Definition all_tables : list (string * list (string * Z)) := %s.\n' % F.lst(
        ('(%s, tbl_%s)' % (F.string(n), n) for n, _ in tables), per_line=2))
    out.append('Definition table_default : list (string * bool) := %s.\n' % F.lst(
        ('(%s, %s)' % (F.string(n), F.boolean(defaults[n])) for n, _ in tables), per_line=3))
    out.append('Definition map_ENUMMAP_EXTRA_D_TAG_MACHINE : list (string * string) := %s.\n' % F.lst(
        ('(%s, %s)' % (F.string(m), F.string(t)) for m, t in extra), per_line=2))
    return {'Tables.v': '\n'.join(out)}


if __name__ == '__main__':
    ts, ds, ex = collect()
    for n, p in ts:
        print('%-40s %5d %s' % (n, len(p), 'Pass' if ds[n] else ''))
    print(sum(len(p) for _, p in ts), 'pairs')
