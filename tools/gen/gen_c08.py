"""gen_c08.py -> coq/Gen/C08Recipes.v : the DATA of elftools/elf/relocation.py, read from the live module.

  gen_calc_<name> (V S P A : Z) : Z     every calc function referenced by a recipe, translated by SYMBOLIC
                                        EVALUATION of the live function object: it is called exactly the way
                                        _do_apply_relocation calls it (keywords value/sym_value/offset/addend)
                                        with objects that overload the arithmetic operators and build a Coq
                                        expression over V S P A.  A branch, comparison, conversion or any
                                        operator outside + - * // (by a positive constant) unary- raises.
                                        The emitted expression is then re-evaluated in Python on random
                                        integers and compared with the live function (guards the overloads).
  gen_calc : string -> option (Z->Z->Z->Z->Z)
  gen_recipes_<FAMILY> : list (Z * (Z * bool * string))
                                        every RelocationHandler._RELOCATION_RECIPES_<FAMILY> dict in dict order:
                                        type number -> (bytesize, has_addend, calc function name)
  gen_recipe_families : list (string * list ...)
  gen_machine_arch : list (string * string)
                                        ELFFile.get_machine_arch evaluated for every name of ENUM_E_MACHINE
                                        (and an unknown number -> gen_machine_arch_default)
  gen_dispatch : list (string * bool * string)
                                        for every architecture string x {REL, RELA}: what _do_apply_relocation
                                        does before it consults a recipe, found by RUNNING the live method on
                                        fakes whose recipe dicts are shadowed by probes on the instance:
                                        "use:<FAMILY>" | "flavour-error" (ELFRelocationError 'Unexpected ...')
                                        | "no-family" (falls through to 'Unsupported relocation type')
  gen_R_MIPS_64, gen_value_widths       constants the hand model needs
Fail closed: anything unexpected raises Unsupported."""
import random
from tools.gen.coqfmt import z, string, boolean, lst, HEADER


class Unsupported(Exception):
    pass


# ----------------------------------------------------------------- symbolic integers
class SymZ:
    """an integer expression over V S P A; .coq is Coq text, .py evaluates it on an environment"""
    def __init__(self, coq, py):
        self.coq = coq
        self.py = py

    @staticmethod
    def lift(o):
        if isinstance(o, SymZ):
            return o
        if isinstance(o, bool) or not isinstance(o, int):
            raise Unsupported('non-integer operand %r' % (o,))
        return SymZ(z(o), lambda env, o=o: o)

    def _bin(self, sym, f, other, swap=False):
        o = SymZ.lift(other)
        a, b = (o, self) if swap else (self, o)
        return SymZ('(%s %s %s)' % (a.coq, sym, b.coq), lambda env: f(a.py(env), b.py(env)))

    def __add__(s, o): return s._bin('+', lambda x, y: x + y, o)
    def __radd__(s, o): return s._bin('+', lambda x, y: x + y, o, True)
    def __sub__(s, o): return s._bin('-', lambda x, y: x - y, o)
    def __rsub__(s, o): return s._bin('-', lambda x, y: x - y, o, True)
    def __mul__(s, o): return s._bin('*', lambda x, y: x * y, o)
    def __rmul__(s, o): return s._bin('*', lambda x, y: x * y, o, True)
    def __neg__(s): return SymZ('(- %s)' % s.coq, lambda env: -s.py(env))
    def __pos__(s): return s

    def __floordiv__(s, o):
        # Python // is floor division; Coq Z.div is floor division for a positive divisor
        if isinstance(o, bool) or not isinstance(o, int) or o <= 0:
            raise Unsupported('// by something that is not a positive integer constant: %r' % (o,))
        return s._bin('/', lambda x, y: x // y, o)

    def __mod__(s, o):
        if isinstance(o, bool) or not isinstance(o, int) or o <= 0:
            raise Unsupported('%% by something that is not a positive integer constant: %r' % (o,))
        return s._bin('mod', lambda x, y: x % y, o)

    def _no(s, *a, **k):
        raise Unsupported('operation on a symbolic value that the translator does not express')
    __rfloordiv__ = __rmod__ = __pow__ = __rpow__ = __truediv__ = __rtruediv__ = _no
    __lshift__ = __rlshift__ = __rshift__ = __rrshift__ = __and__ = __rand__ = __or__ = __ror__ = _no
    __xor__ = __rxor__ = __invert__ = __abs__ = __divmod__ = __rdivmod__ = _no
    __bool__ = __index__ = __int__ = __float__ = __len__ = __iter__ = __call__ = _no
    __eq__ = __ne__ = __lt__ = __le__ = __gt__ = __ge__ = _no
    __hash__ = None


def translate_calc(func):
    """Coq body of func(value=V, sym_value=S, offset=P, addend=A), checked against the live function."""
    env_syms = {k: SymZ(k, (lambda env, k=k: env[k])) for k in 'VSPA'}
    try:
        r = func(value=env_syms['V'], sym_value=env_syms['S'], offset=env_syms['P'], addend=env_syms['A'])
    except Unsupported:
        raise
    except Exception as e:
        raise Unsupported('calc function %s cannot be evaluated symbolically: %r' % (func.__name__, e))
    r = SymZ.lift(r)
    rng = random.Random(func.__name__)
    probes = [(0, 0, 0, 0), (1, 2, 3, 4), (-1, -2, -3, -4), (2**64 + 5, -2**63, 7, -9)]
    probes += [tuple(rng.randrange(-2**70, 2**70) for _ in range(4)) for _ in range(60)]
    for V, S, P, A in probes:
        want = func(value=V, sym_value=S, offset=P, addend=A)
        got = r.py({'V': V, 'S': S, 'P': P, 'A': A})
        if isinstance(want, bool) or not isinstance(want, int) or want != got:
            raise Unsupported('symbolic translation of %s disagrees with the live function on %r' %
                              (func.__name__, (V, S, P, A)))
    return r.coq


# ----------------------------------------------------------------- dispatch probing
class _ProbeHit(Exception):
    def __init__(self, family):
        self.family = family


class _ProbeDict:
    def __init__(self, family):
        self.family = family
    def get(self, *a, **k):
        raise _ProbeHit(self.family)
    def __getitem__(self, k):
        raise _ProbeHit(self.family)
    def __contains__(self, k):
        raise _ProbeHit(self.family)


def probe_dispatch(arch, is_rela, families):
    import io
    from elftools.elf.relocation import RelocationHandler, Relocation
    from elftools.common.exceptions import ELFRelocationError
    from elftools.construct import Container

    class FakeElf:
        elfclass = 64
        def get_machine_arch(self):
            return arch

    class FakeSymtab:
        def num_symbols(self):
            return 1
        def get_symbol(self, n):
            return {'st_value': 0}

    outcomes = set()
    for t in (0, 1, 2, 0x7ffffff1):
        entry = Container(r_offset=0, r_info=t, r_info_sym=0, r_info_type=t,
                          r_sym=0, r_ssym=0, r_type3=0, r_type2=0, r_type=t & 0xff)
        if is_rela:
            entry['r_addend'] = 0
        h = RelocationHandler(FakeElf())
        for fam in families:
            setattr(h, '_RELOCATION_RECIPES_' + fam, _ProbeDict(fam))   # instance attributes shadow the class dicts
        try:
            h._do_apply_relocation(io.BytesIO(b'\0' * 16), Relocation(entry, None), FakeSymtab())
            raise Unsupported('relocation applied without consulting a recipe dict (arch %r)' % arch)
        except _ProbeHit as hit:
            outcomes.add('use:' + hit.family)
        except ELFRelocationError as e:
            msg = str(e)
            if msg.startswith('Unexpected REL') and 'relocation for' in msg:
                outcomes.add('flavour-error')
            elif msg.startswith('Unsupported relocation type'):
                outcomes.add('no-family')
            else:
                raise Unsupported('unrecognised relocation error %r for arch %r' % (msg, arch))
        except Exception as e:
            raise Unsupported('dispatch probe for arch %r raised %r' % (arch, e))
    if len(outcomes) != 1:
        raise Unsupported('dispatch for arch %r, is_rela=%r depends on the relocation type: %r' % (arch, is_rela, outcomes))
    return outcomes.pop()


def ident(name):
    s = ''.join(c if c.isalnum() or c == '_' else '_' for c in name)
    return s


def generate():
    from elftools.elf import relocation as R
    from elftools.elf import enums as E
    from elftools.elf.elffile import ELFFile
    H = R.RelocationHandler
    out = [HEADER % 'gen_c08.py', 'From Coq Require Import Bool.\n']

    # ---- recipe dicts
    fam_names = [k[len('_RELOCATION_RECIPES_'):] for k in vars(H) if k.startswith('_RELOCATION_RECIPES_')]
    funcs = {}
    fam_rows = {}
    for fam in fam_names:
        d = getattr(H, '_RELOCATION_RECIPES_' + fam)
        if not isinstance(d, dict):
            raise Unsupported('recipe table %s is not a dict' % fam)
        rows = []
        for t, rec in d.items():
            if isinstance(t, bool) or not isinstance(t, int):
                raise Unsupported('recipe key %r in %s' % (t, fam))
            if tuple(type(rec)._fields) != ('bytesize', 'has_addend', 'calc_func'):
                raise Unsupported('recipe shape %r' % (type(rec)._fields,))
            if isinstance(rec.bytesize, bool) or not isinstance(rec.bytesize, int) or not isinstance(rec.has_addend, bool):
                raise Unsupported('recipe %r' % (rec,))
            f = rec.calc_func
            name = getattr(f, '__name__', None)
            if not name or not callable(f):
                raise Unsupported('calc function %r' % (f,))
            if funcs.setdefault(name, f) is not f:
                raise Unsupported('two different calc functions are both named %s' % name)
            rows.append((t, rec.bytesize, rec.has_addend, name))
        fam_rows[fam] = rows

    # ---- calc functions
    for name in sorted(funcs):
        body = translate_calc(funcs[name])
        out.append('Definition gen_calc_%s (V S P A : Z) : Z := %s.\n' % (ident(name), body))
    chain = 'None'
    for name in reversed(sorted(funcs)):
        chain = 'if id =? %s then Some gen_calc_%s\n  else %s' % (string(name), ident(name), chain)
    out.append('Definition gen_calc (id : string) : option (Z -> Z -> Z -> Z -> Z) :=\n  %s.\n' % chain)
    out.append('Definition gen_calc_ids : list string := %s.\n' % lst(map(string, sorted(funcs)), 0))

    for fam in fam_names:
        out.append('Definition gen_recipes_%s : list (Z * (Z * bool * string)) := %s.\n' % (
            ident(fam), lst('(%s, (%s, %s, %s))' % (z(t), z(n), boolean(ha), string(fn)) for t, n, ha, fn in fam_rows[fam])))
    out.append('Definition gen_recipe_families : list (string * list (Z * (Z * bool * string))) := %s.\n' % lst(
        ('(%s, gen_recipes_%s)' % (string(fam), ident(fam)) for fam in fam_names), 0))

    # ---- get_machine_arch for every machine name
    class FakeSelf:
        def __init__(self, m):
            self.m = m
        def __getitem__(self, k):
            if k != 'e_machine':
                raise Unsupported('get_machine_arch reads %r' % (k,))
            return self.m
    rows = []
    archs = []
    for m in E.ENUM_E_MACHINE:
        if m == '_default_':
            continue
        a = ELFFile.get_machine_arch(FakeSelf(m))
        if not isinstance(a, str):
            raise Unsupported('get_machine_arch(%r) = %r' % (m, a))
        rows.append('(%s, %s)' % (string(m), string(a)))
        if a not in archs:
            archs.append(a)
    default = ELFFile.get_machine_arch(FakeSelf(0xfeed))
    if not isinstance(default, str) or ELFFile.get_machine_arch(FakeSelf('EM_no_such_machine')) != default:
        raise Unsupported('get_machine_arch default')
    # names that map to the default are not rows of the dict: drop them so that the table is the dict
    rows = [r for r in rows if not r.endswith(', %s)' % string(default))]
    if default not in archs:
        archs.append(default)
    out.append('Definition gen_machine_arch : list (string * string) := %s.\n' % lst(rows, 2))
    out.append('Definition gen_machine_arch_default : string := %s.\n' % string(default))

    # ---- dispatch in _do_apply_relocation
    drows = []
    for a in archs:
        for is_rela in (False, True):
            o = probe_dispatch(a, is_rela, fam_names)
            if o != 'no-family':      # every architecture not listed falls through to 'Unsupported relocation type'
                drows.append('(%s, %s, %s)' % (string(a), boolean(is_rela), string(o)))
    out.append('Definition gen_dispatch : list (string * bool * string) := %s.\n' % lst(drows, 2))
    out.append('Definition gen_dispatch_default : string := "no-family".\n')

    # ---- constants read by the hand model
    out.append('Definition gen_R_MIPS_64 : Z := %s.\n' % z(E.ENUM_RELOC_TYPE_MIPS['R_MIPS_64']))
    out.append('Definition gen_DT_RELA : Z := %s.\n' % z(E.ENUM_D_TAG['DT_RELA']))
    return {'C08Recipes.v': '\n'.join(out)}
