"""gen_c02.py — the module-level data of elftools/elf/segments.py as Coq terms (coq/Gen/C02Consts.v).

  gen_PT_GNU_SFRAME, gen_PT_GNU_MBIND_HI : Z    the raw p_type bounds Segment.section_in_segment tests
                                                 for segment types ENUM_P_TYPE does not name

Read from the LIVE module.  Fail closed: a missing or non-int constant raises.
(SH_FLAGS, the enum decode tables and the Elf_Chdr / Elf_Phdr layouts C02 uses come from
gen_tables.py and gen_elf_layouts.py.)"""
from . import coqfmt as F


class CannotExpress(Exception):
    pass


def generate():
    import elftools.elf.segments as seg
    out = [F.HEADER % 'gen_c02.py']
    for name in ('PT_GNU_SFRAME', 'PT_GNU_MBIND_HI'):
        v = getattr(seg, name, None)
        if isinstance(v, bool) or not isinstance(v, int):
            raise CannotExpress('elftools.elf.segments.%s is %r, not an int' % (name, v))
        out.append('Definition gen_%s : Z := %s.\n' % (name, F.z(v)))
    return {'C02Consts.v': '\n'.join(out)}
