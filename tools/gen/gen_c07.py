"""gen_c07.py — the data the location/range list code (C07) reads, from the LIVE /repo modules
(coq/Gen/C07Tables.v; vocabulary in coq/Model/C07Kinds.v):

  gen_ENUM_DW_LLE, gen_ENUM_DW_RLE : list (string * Z)       dwarf/enums.py, dict order
  gen_lle_switch, gen_rle_switch   : list (string * operands)
        the Switch inside DWARFStructs.Dwarf_loclists_entries / Dwarf_rnglists_entries rendered as
        entry kind -> [(field name, operand kind)], by walking the construct objects of every
        (byte order, DWARF format, address size, version) configuration.  The frame around the
        switch (StreamOffset entry_offset, Enum(uint8) entry_type over exactly the ENUM table and
        without a default, Embed(Switch keyed by entry_type, no default), StreamOffset
        entry_end_offset, Value entry_length) is checked, not rendered: any other shape fails closed.
  gen_lle_entry_length, gen_rle_entry_length : texpr          the Value('entry_length') lambda
  gen_lle_terminators, gen_rle_terminators : list string      names on which the RepeatUntilExcluding
                                                              predicate is true
  gen_loclists_CU_header, gen_rnglists_CU_header : hlayout    the unit-block header structs
  gen_locview_pair : list (string * opkind)                   Dwarf_locview_pair after its StreamOffset
  gen_lle_translate, gen_rle_translate : list (string * trule)
        locationlists.entry_translate / ranges.entry_translate: every lambda is RUN on a symbolic
        entry (fields are symbols, cu.dwarfinfo.get_addr(cu, i) is a symbol) and the namedtuple it
        returns is rendered as (class name, positional argument expressions).
  gen_loc_tuple_fields : list (string * list string)          _fields of the namedtuples involved
  gen_DW_AT_names, gen_DW_FORM_names : list string            keys of ENUM_DW_AT / ENUM_DW_FORM
  gen_loc_classification : list ((Z * string * string) * Z)
        LocationParser.attribute_has_location/_attribute_has_loc_expr/_attribute_has_loc_list evaluated
        on every (version 2..5, attribute name, form): the triples with attribute_has_location true,
        with 1 = expression (parse_from_attribute returns LocationExpr), 2 = list.

Fail closed: anything not expressible in this vocabulary raises."""
import io, re, struct
from . import coqfmt as F

IDENT = re.compile(r'^[A-Za-z_][A-Za-z0-9_]*$')
VERSIONS = (2, 3, 4, 5)


class CannotExpress(Exception):
    pass


# ------------------------------------------------------------------ symbolic values
class Sym:
    def __init__(self, coq):
        self.coq = coq
    def _bin(self, ctor, other, swap=False):
        o = lift(other)
        a, b = (o, self) if swap else (self, o)
        return Sym('(%s %s %s)' % (ctor, a.coq, b.coq))
    def __add__(self, o): return self._bin('TAdd', o)
    def __radd__(self, o): return self._bin('TAdd', o, True)
    def __sub__(self, o): return self._bin('TSub', o)
    def __rsub__(self, o): return self._bin('TSub', o, True)
    def _no(self, *a, **k):
        raise CannotExpress('the code inspects a symbolic value (comparison, truth test, other arithmetic)')
    __bool__ = __eq__ = __ne__ = __lt__ = __le__ = __gt__ = __ge__ = __mul__ = __rmul__ = __hash__ = _no
    __and__ = __or__ = __lshift__ = __rshift__ = __floordiv__ = __mod__ = __neg__ = __index__ = __int__ = _no
    __len__ = __iter__ = __getitem__ = _no


def lift(v):
    if isinstance(v, Sym):
        return v
    if isinstance(v, bool):
        return Sym('(TBool %s)' % F.boolean(v))
    if isinstance(v, int):
        return Sym('(TInt %s)' % F.z(v))
    raise CannotExpress('value %r in a translated entry' % (v,))


class SymEntry:
    def __init__(self, fields):
        object.__setattr__(self, '_f', list(fields))
    def __getattr__(self, n):
        if n in self._f:
            return Sym('(TField %s)' % F.string(n))
        raise CannotExpress('entry_translate reads field %r which this entry kind does not have' % n)
    def __getitem__(self, n):
        return self.__getattr__(n)


class SymDwarfInfo:
    def __init__(self, cu):
        self._cu = cu
    def get_addr(self, cu, idx):
        if cu is not self._cu:
            raise CannotExpress('get_addr called with a different cu')
        return Sym('(TAddr %s)' % lift(idx).coq)


class SymCU:
    def __init__(self):
        self.dwarfinfo = SymDwarfInfo(self)
    def __getattr__(self, n):
        raise CannotExpress('entry_translate reads cu.%s' % n)


FRAME_FIELDS = ['entry_offset', 'entry_type', 'entry_end_offset', 'entry_length']


def translate_table(table, switch):
    out = []
    for kind, fn in table.items():
        if kind not in switch:
            raise CannotExpress('entry_translate key %r is not a Switch case' % kind)
        e = SymEntry(FRAME_FIELDS + [n for n, _ in switch[kind]])
        r = fn(e, SymCU())
        if not (isinstance(r, tuple) and hasattr(r, '_fields')):
            raise CannotExpress('entry_translate[%r] returns %r, not a namedtuple' % (kind, r))
        out.append((kind, type(r).__name__, list(r._fields), [lift(v).coq for v in r]))
    return out


# ------------------------------------------------------------------ construct walkers
def _uint(con, little):
    from elftools.construct import core as C
    if type(con) is not C.FormatField:
        return None
    fmt = con.packer.format
    if isinstance(fmt, bytes):
        fmt = fmt.decode()
    if len(fmt) != 2 or fmt[0] != ('<' if little else '>') or fmt[1] not in 'BHLQ':
        raise CannotExpress('FormatField format %r (little_endian=%r)' % (fmt, little))
    return struct.calcsize('<' + fmt[1])


def _operand(con, little, asz):
    from elftools.construct import core as C, adapters as A
    from elftools.common import construct_utils as U
    t = type(con)
    if t is U.ULEB128:
        return 'OUleb'
    if t is C.FormatField:
        n = _uint(con, little)
        if n != asz:
            raise CannotExpress('operand %r is a %d-byte integer, address_size is %d' % (con.name, n, asz))
        return 'OAddr'
    if t is A.LengthValueAdapter:
        seq = con.subcon
        if type(seq) is not C.Sequence or len(seq.subcons) != 2:
            raise CannotExpress('LengthValueAdapter over %r' % (seq,))
        lenf, arr = seq.subcons
        if type(lenf) is not U.ULEB128 or type(arr) is not C.MetaArray or _uint(arr.subcon, little) != 1:
            raise CannotExpress('counted location description is not PrefixedArray(uint8, ULEB128)')
        if arr.countfunc({lenf.name: 7}) != 7:
            raise CannotExpress('PrefixedArray count is not its length field')
        return 'OCounted'
    raise CannotExpress('unrecognised operand parser %r' % (con,))


def _entries(rep, enum, little, asz):
    """-> (switch: {kind: [(name, opkind)]} in dict order, terminators, entry_length expr)"""
    from elftools.construct import core as C, adapters as A
    from elftools.construct.lib import Container
    from elftools.common import construct_utils as U
    if type(rep) is not U.RepeatUntilExcluding or type(rep.subcon) is not C.Struct:
        raise CannotExpress('entries parser is %r' % (rep,))
    subs = rep.subcon.subcons
    if len(subs) != 5:
        raise CannotExpress('entry struct has %d members' % len(subs))
    off, typ, emb, end, val = subs
    if type(off) is not U.StreamOffset or off.name != 'entry_offset':
        raise CannotExpress('entry struct member 0 is %r' % (off,))
    if type(end) is not U.StreamOffset or end.name != 'entry_end_offset':
        raise CannotExpress('entry struct member 3 is %r' % (end,))
    names = {k: v for k, v in enum.items() if k != '_default_'}
    if '_default_' in enum:
        raise CannotExpress('entry kind enum has a _default_')
    if not (type(typ) is A.MappingAdapter and typ.name == 'entry_type' and _uint(typ.subcon, little) == 1
            and typ.decdefault is NotImplemented and typ.decoding == {v: k for k, v in names.items()}):
        raise CannotExpress('entry_type is not Enum(uint8, **ENUM) without default')
    if type(emb) is not C.Reconfig or not (emb.conflags & C.Construct.FLAG_EMBED) or type(emb.subcon) is not C.Switch:
        raise CannotExpress('entry struct member 2 is not Embed(Switch)')
    sw = emb.subcon
    if sw.default is not C.Switch.NoDefault or sw.include_key:
        raise CannotExpress('Switch has a default or include_key')
    sentinel = object()
    if sw.keyfunc(Container(entry_type=sentinel)) is not sentinel:
        raise CannotExpress('Switch key is not ctx.entry_type')
    switch = {}
    for kind, st in sw.cases.items():
        if not isinstance(kind, str) or not IDENT.match(kind) or kind not in names:
            raise CannotExpress('Switch case key %r' % (kind,))
        if type(st) is not C.Struct:
            raise CannotExpress('Switch case %r is %r' % (kind, st))
        ops = []
        for c in st.subcons:
            if not c.name or not IDENT.match(c.name) or c.name in FRAME_FIELDS or c.name in [n for n, _ in ops]:
                raise CannotExpress('operand name %r in %s' % (c.name, kind))
            ops.append((c.name, _operand(c, little, asz)))
        switch[kind] = ops
    if type(val) is not C.Value or val.name != 'entry_length':
        raise CannotExpress('entry struct member 4 is %r' % (val,))
    length = val.func(SymEntry(['entry_offset', 'entry_type', 'entry_end_offset']))
    terms = []
    for k in names:
        r = rep.predicate(Container(entry_type=k), Container())
        if r is True:
            terms.append(k)
        elif r is not False:
            raise CannotExpress('terminator predicate returns %r' % (r,))
    if rep.predicate(Container(entry_type=255), Container()) is not False:
        raise CannotExpress('terminator predicate accepts a raw integer kind')
    return switch, terms, lift(length).coq


def _header(st_obj, little):
    from elftools.construct import core as C
    from elftools.construct.lib import Container
    from elftools.common import construct_utils as U
    from elftools.dwarf.structs import _InitialLengthAdapter
    if type(st_obj) is not C.Struct:
        raise CannotExpress('header is %r' % (st_obj,))
    out = []
    for c in st_obj.subcons:
        if not c.name or not IDENT.match(c.name):
            raise CannotExpress('header field name %r' % (c.name,))
        t = type(c)
        if t is U.StreamOffset:
            k = 'HStreamOffset'
        elif t is _InitialLengthAdapter:
            # behavioural probe of the adapter (its exact decoding is C16's subject)
            bo = 'little' if little else 'big'
            for data, want in [((5).to_bytes(4, bo), (5, False)),
                               (b'\xff' * 4 + (0x0102030405060708).to_bytes(8, bo), (0x0102030405060708, True))]:
                ctx = Container()
                v = c._parse(io.BytesIO(data + b'\x99'), ctx)
                if (v, ctx.get('is64')) != want:
                    raise CannotExpress('initial length field decodes %r as %r' % (data, (v, ctx.get('is64'))))
            k = 'HInitialLength'
        elif t is C.Value:
            s = object()
            if c.func(Container(is64=s)) is not s:
                raise CannotExpress('Value(%r) is not ctx.is64' % c.name)
            k = 'HIs64'
        elif t is C.FormatField:
            k = '(HUInt %d)' % _uint(c, little)
        else:
            raise CannotExpress('header member %r' % (c,))
        out.append((c.name, k))
    return out


def _locview(st_obj, little, asz):
    from elftools.construct import core as C
    from elftools.common import construct_utils as U
    if type(st_obj) is not C.Struct or not st_obj.subcons or type(st_obj.subcons[0]) is not U.StreamOffset \
            or st_obj.subcons[0].name != 'entry_offset':
        raise CannotExpress('Dwarf_locview_pair is %r' % (st_obj,))
    return [(c.name, _operand(c, little, asz)) for c in st_obj.subcons[1:]]


def _same(what, vals):
    first = vals[0]
    for v in vals[1:]:
        if v != first:
            raise CannotExpress('%s differs between struct configurations' % what)
    return first


def classification():
    from elftools.dwarf.enums import ENUM_DW_AT, ENUM_DW_FORM
    from elftools.dwarf.die import AttributeValue
    from elftools.dwarf.locationlists import LocationParser, LocationExpr
    names = [k for k in ENUM_DW_AT if k != '_default_']
    forms = [k for k in ENUM_DW_FORM if k != '_default_']
    for n in names + forms:
        if not IDENT.match(n):
            raise CannotExpress('name %r' % n)

    class Probe:
        def get_location_list_at_offset(self, offset, die=None):
            return ['LIST', offset]
    parser = LocationParser(Probe())
    rows = []
    for v in VERSIONS:
        for n in names:
            for f in forms:
                attr = AttributeValue(name=n, form=f, value=77, raw_value=77, offset=0, indirection_length=0)
                has = LocationParser.attribute_has_location(attr, v)
                ex = LocationParser._attribute_has_loc_expr(attr, v)
                ls = LocationParser._attribute_has_loc_list(attr, v)
                if not all(isinstance(x, bool) for x in (has, ex, ls)):
                    raise CannotExpress('classification predicates are not booleans')
                try:
                    r = parser.parse_from_attribute(attr, v, None)
                    cls = 1 if isinstance(r, LocationExpr) and r.loc_expr == 77 else 2 if r == ['LIST', 77] else None
                except ValueError:
                    cls = 0
                if cls is None or (cls != 0) != has or (has and cls != (1 if ex else 2 if ls else None)):
                    raise CannotExpress('parse_from_attribute is not determined by the three predicates on %r' % ((v, n, f),))
                if has:
                    rows.append((v, n, f, cls))
    return names, forms, rows


def generate():
    from elftools.dwarf.structs import DWARFStructs
    from elftools.dwarf.enums import ENUM_DW_LLE, ENUM_DW_RLE
    from elftools.dwarf import locationlists as LL, ranges as RR

    for tbl in (ENUM_DW_LLE, ENUM_DW_RLE):
        for k, v in tbl.items():
            if not IDENT.match(k) or isinstance(v, bool) or not isinstance(v, int):
                raise CannotExpress('enum entry %r = %r' % (k, v))
    per = []
    for le in (True, False):
        for fmt in (32, 64):
            for asz in (4, 8):
                for ver in (2, 4, 5):
                    st = DWARFStructs(little_endian=le, dwarf_format=fmt, address_size=asz, dwarf_version=ver)
                    per.append(dict(
                        lle=_entries(st.Dwarf_loclists_entries, ENUM_DW_LLE, le, asz),
                        rle=_entries(st.Dwarf_rnglists_entries, ENUM_DW_RLE, le, asz),
                        lh=_header(st.Dwarf_loclists_CU_header, le),
                        rh=_header(st.Dwarf_rnglists_CU_header, le),
                        lv=_locview(st.Dwarf_locview_pair, le, asz)))
    lle_sw, lle_terms, lle_len = _same('Dwarf_loclists_entries', [p['lle'] for p in per])
    rle_sw, rle_terms, rle_len = _same('Dwarf_rnglists_entries', [p['rle'] for p in per])
    # dict order of the Switch cases must be the same too
    _same('loclists Switch order', [list(p['lle'][0]) for p in per])
    _same('rnglists Switch order', [list(p['rle'][0]) for p in per])
    lh = _same('Dwarf_loclists_CU_header', [p['lh'] for p in per])
    rh = _same('Dwarf_rnglists_CU_header', [p['rh'] for p in per])
    lv = _same('Dwarf_locview_pair', [p['lv'] for p in per])

    ltr = translate_table(LL.entry_translate, lle_sw)
    rtr = translate_table(RR.entry_translate, rle_sw)
    tuples = {}
    for mod, rows in (('loc', ltr), ('rng', rtr)):
        for kind, cls, fields, args in rows:
            key = (mod, cls)
            if tuples.setdefault(key, fields) != fields:
                raise CannotExpress('namedtuple %s has two shapes' % cls)
    vp = LL.LocationViewPair._fields
    names, forms, rows = classification()

    def ops(o):
        return F.lst(('(%s, %s)' % (F.string(n), k) for n, k in o), per_line=0)
    def switch(sw):
        return F.lst(('(%s, %s)' % (F.string(k), ops(o)) for k, o in sw.items()))
    def strs(l, per_line=4):
        return F.lst((F.string(s) for s in l), per_line=per_line)
    def trans(rows_):
        return F.lst(('(%s, (%s, %s))' % (F.string(k), F.string(c), F.lst(a, per_line=0)) for k, c, f, a in rows_))

    out = [F.HEADER % 'gen_c07.py', 'From PV Require Import Model.C07Kinds.', '']
    out.append('(* ---- dwarf/enums.py *)')
    out.append('Definition gen_ENUM_DW_LLE : list (string * Z) := %s.' % F.assoc(ENUM_DW_LLE))
    out.append('Definition gen_ENUM_DW_RLE : list (string * Z) := %s.' % F.assoc(ENUM_DW_RLE))
    out.append('')
    out.append('(* ---- dwarf/structs.py Dwarf_loclists_entries / Dwarf_rnglists_entries *)')
    out.append('Definition gen_lle_switch : list (string * operands) := %s.' % switch(lle_sw))
    out.append('Definition gen_rle_switch : list (string * operands) := %s.' % switch(rle_sw))
    out.append('Definition gen_lle_entry_length : texpr := %s.' % lle_len)
    out.append('Definition gen_rle_entry_length : texpr := %s.' % rle_len)
    out.append('Definition gen_lle_terminators : list string := %s.' % strs(lle_terms))
    out.append('Definition gen_rle_terminators : list string := %s.' % strs(rle_terms))
    out.append('')
    out.append('(* ---- unit-block headers and the location view pair *)')
    out.append('Definition gen_loclists_CU_header : hlayout := %s.' %
               F.lst(('(%s, %s)' % (F.string(n), k) for n, k in lh)))
    out.append('Definition gen_rnglists_CU_header : hlayout := %s.' %
               F.lst(('(%s, %s)' % (F.string(n), k) for n, k in rh)))
    out.append('Definition gen_locview_pair : operands := %s.' % ops(lv))
    out.append('Definition gen_locview_tuple_fields : list string := %s.' % strs(vp))
    out.append('')
    out.append('(* ---- locationlists.entry_translate / ranges.entry_translate, run on symbolic entries *)')
    out.append('Definition gen_lle_translate : list (string * trule) := %s.' % trans(ltr))
    out.append('Definition gen_rle_translate : list (string * trule) := %s.' % trans(rtr))
    out.append('Definition gen_tuple_fields : list ((string * string) * list string) := %s.' %
               F.lst(('((%s, %s), %s)' % (F.string(m), F.string(c), strs(f, per_line=0)) for (m, c), f in tuples.items())))
    out.append('')
    out.append('(* ---- LocationParser evaluated on every (version, attribute name, form) *)')
    out.append('Definition gen_DW_AT_names : list string := %s.' % strs(names))
    out.append('Definition gen_DW_FORM_names : list string := %s.' % strs(forms))
    out.append('Definition gen_loc_classification : list ((Z * string * string) * Z) := %s.' %
               F.lst(('((%s, %s, %s), %s)' % (F.z(v), F.string(n), F.string(f), F.z(c)) for v, n, f, c in rows), per_line=2))
    out.append('')
    return {'C07Tables.v': '\n'.join(out)}
