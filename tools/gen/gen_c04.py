"""gen_c04.py -> coq/Gen/C04Forms.v : the DATA of elftools/dwarf/structs.py and dwarf/enums.py that the
debugging-information-entry parser (property C04) consults, read from the LIVE objects.

  gen_dw_form le is64 asz8 ver : list (string * fdesc)
        DWARFStructs(le, 32|64, 4|8, ver).Dwarf_dw_form in dict order, every value rendered as an
        operand-encoding descriptor by walking the construct object (FormatField struct format, ULEB128,
        SLEB128, ULInt24/UBInt24, CString, PrefixedArray(length kind), Array(const), StaticField, None).
        All 32 configurations {LE,BE} x {32,64} x {4,8} x {2,3,4,5} are instantiated.
  gen_dec_tag / gen_dec_at / gen_dec_form / gen_dec_children / gen_dec_ut : list (Z * string)
        the `decoding` dicts of the MappingAdapters actually sitting in Dwarf_abbrev_declaration and
        Dwarf_CU_header (value -> name, i.e. after SymmetricMapping reversed the enum), + their defaults
  gen_form_raw2name : list (Z * string)        DW_FORM_raw2name (int keys)
  gen_abbrev_*                                 shape of Dwarf_abbrev_declaration
  gen_cu_* / gen_tu_header / gen_initlen_*     unit header layouts (v2-4, the six v5 kinds, v4 type unit)
  gen_cu_sibling_* / gen_tu_sibling_* / gen_die_ref_* / gen_translate_*
        the tuples of form names written inline in iter_DIE_children (compileunit.py, typeunit.py),
        DIE.get_DIE_from_attribute and DIE._translate_attr_value, read from the source of the live functions with
        `ast` (comparisons `x.form in (...)`, `x.form == '...'`, `form in (...)`); any other shape raises

Lambdas (If / IfThenElse / Switch key functions, PrefixedArray counts, RepeatUntil predicates) are
identified by probing them on concrete contexts.  Fail closed: any construct or shape that is not
recognised raises, which ./check reports as "translator cannot express the current source"."""
from . import coqfmt
from .coqfmt import z, string, boolean, lst

FMT = {'B': (1, False), 'H': (2, False), 'L': (4, False), 'Q': (8, False),
       'b': (1, True), 'h': (2, True), 'l': (4, True), 'q': (8, True)}
CONFIGS = [(le, fmt, asz, ver) for le in (True, False) for fmt in (32, 64) for asz in (4, 8) for ver in (2, 3, 4, 5)]


class Unsupported(Exception):
    pass


def _need(cond, what):
    if not cond:
        raise Unsupported(what)


def desc(c):
    """construct object -> Coq term of type fdesc"""
    from elftools.construct import core, adapters
    from elftools.common import construct_utils as cu
    if c is None:
        return 'DNone'
    t = type(c)
    if t is core.FormatField:
        fmt = c.packer.format
        _need(len(fmt) == 2 and fmt[0] in '<>' and fmt[1] in FMT, 'format %r' % (fmt,))
        n, signed = FMT[fmt[1]]
        _need(c.length == n, 'FormatField length')
        # a one-byte field has no byte order: normalised to little endian
        le = True if n == 1 else fmt[0] == '<'
        return '(DInt %s %d %s)' % (boolean(le), n, boolean(signed))
    if t is cu.ULInt24 or t is cu.UBInt24:
        _need(c.length == 3, '24-bit field length')
        return '(DU24 %s)' % boolean(t is cu.ULInt24)
    if t is cu.ULEB128:
        return 'DUleb'
    if t is cu.SLEB128:
        return 'DSleb'
    if t is core.Reconfig:            # Rename(name, subcon)
        return desc(c.subcon)          # flags only matter inside a Struct (Embed), not for a standalone parse
    if t is adapters.CStringAdapter:
        _need(c.terminators == b'\x00' and c.encoding is None, 'CString terminators/encoding')
        ru = c.subcon
        _need(type(ru) is core.RepeatUntil and type(ru.subcon) is core.StaticField and ru.subcon.length == 1,
              'CString body')
        _need(ru.predicate(b'\x00', None) is True and not any(ru.predicate(bytes([b]), None) for b in range(1, 256)),
              'CString terminator predicate')
        return 'DCStr'
    if t is adapters.LengthValueAdapter:   # PrefixedArray
        seq = c.subcon
        _need(type(seq) is core.Sequence and len(seq.subcons) == 2 and not seq.nested, 'PrefixedArray shape')
        lf, arr = seq.subcons
        _need(type(arr) is core.MetaArray, 'PrefixedArray array')
        for probe in (0, 1, 7, 300, 2 ** 40):
            _need(arr.countfunc({lf.name: probe}) == probe, 'PrefixedArray count is not the length field')
        _need(desc(arr.subcon) == '(DInt true 1 false)', 'PrefixedArray element is not one unsigned byte')
        return '(DBlock %s)' % desc(lf)
    if t is core.MetaArray:               # Array(constant, subcon)
        from elftools.construct.lib.container import Container
        n = c.countfunc(Container())
        _need(isinstance(n, int) and not isinstance(n, bool) and 0 <= n < 4096, 'Array count')
        _need(c.countfunc(Container(x=5)) == n, 'Array count not constant')
        return '(DArr %d %s)' % (n, desc(c.subcon))
    if t is core.StaticField:
        _need(isinstance(c.length, int), 'StaticField length')
        return '(DStatic %d)' % c.length
    raise Unsupported('construct %s' % t.__name__)


def fields(struct):
    """Struct of plain integer fields -> [(name, fdesc)]"""
    from elftools.construct import core
    _need(type(struct) is core.Struct, 'expected Struct, got %s' % type(struct).__name__)
    out = []
    for sc in struct.subcons:
        _need(type(sc) is core.FormatField and sc.name, 'header field %r' % (sc,))
        out.append((sc.name, desc(sc)))
    return out


def fields_coq(fl):
    return lst(['(%s, %s)' % (string(n), d) for n, d in fl], per_line=0)


def enum_dec(adapter, strict_expected=None):
    """MappingAdapter -> (decoding pairs [(int, name)], default 'pass'|'raise', subcon)"""
    from elftools.construct import adapters
    _need(type(adapter) is adapters.MappingAdapter, 'expected MappingAdapter')
    if adapter.decdefault is NotImplemented:
        default = 'raise'
    elif type(adapter.decdefault).__name__ == '_Pass':
        default = 'pass'
    else:
        raise Unsupported('enum default %r' % (adapter.decdefault,))
    pairs = []
    for k, v in adapter.decoding.items():
        if not isinstance(k, int) or isinstance(k, bool):
            # the `_default_ = Pass` item of the enum dict survives SymmetricMapping as a Pass key; no parsed
            # integer can be equal to it
            _need(type(k).__name__ == '_Pass', 'enum key %r' % (k,))
            continue
        _need(isinstance(v, str), 'enum name %r' % (v,))
        pairs.append((k, v))
    return pairs, default, adapter.subcon


def dec_coq(pairs):
    return lst(['(%s, %s)' % (z(k), string(v)) for k, v in pairs], per_line=3)


def unwrap_embed(c):
    from elftools.construct import core
    _need(type(c) is core.Reconfig and c.conflags & c.FLAG_EMBED, 'expected Embed(...)')
    while type(c) is core.Reconfig:
        c = c.subcon
    return c


def initlen(c, le):
    """_InitialLengthAdapter(Struct(first: uint32, If(first == escape, uint64 second)))"""
    from elftools.construct import core
    from elftools.construct.lib.container import Container
    from elftools.dwarf.structs import _InitialLengthAdapter
    _need(type(c) is _InitialLengthAdapter, 'initial length adapter')
    st = c.subcon
    _need(type(st) is core.Struct and len(st.subcons) == 2, 'initial length struct')
    first, second = st.subcons
    _need(desc(first) == '(DInt %s 4 false)' % boolean(le) and first.name == 'first', 'initial length first word')
    _need(type(second) is core.Switch and set(second.cases) == {True, False}, 'initial length If')
    _need(desc(second.cases[True]) == '(DInt %s 8 false)' % boolean(le), 'initial length second word')
    _need(type(second.cases[False]) is core.Value and second.cases[False].func(None) is None, 'initial length else')
    esc = [v for v in (0, 1, 0xfffffff0, 0xfffffffe, 0xffffffff, 0xffffff00) if second.keyfunc(Container(first=v))]
    _need(esc == [0xffffffff], 'initial length escape predicate')
    # the adapter: smallest rejected 32-bit value, by bisection over the monotone accept/reject boundary
    def accepted(v):
        ctx = Container()
        try:
            r = c._decode(Container(first=v, second=None), ctx)
        except Exception:
            return False
        return r == v and ctx.get('is64') is False
    _need(accepted(0) and not accepted(0xfffffffe), 'initial length adapter behaviour')
    lo, hi = 0, 0xfffffffe
    while hi - lo > 1:
        mid = (lo + hi) // 2
        if accepted(mid):
            lo = mid
        else:
            hi = mid
    ctx = Container()
    _need(c._decode(Container(first=0xffffffff, second=12345), ctx) == 12345 and ctx['is64'] is True,
          'initial length 64-bit escape')
    return hi, 0xffffffff


def cu_header(s, le):
    """-> dict with the pieces of Dwarf_CU_header"""
    from elftools.construct import core
    from elftools.construct.lib.container import Container
    h = s.Dwarf_CU_header
    _need(type(h) is core.Struct and len(h.subcons) == 3, 'CU header shape')
    il, ver, sw = h.subcons
    _need(il.name == 'unit_length', 'CU header first field')
    lo, esc = initlen(il, le)
    _need(ver.name == 'version' and desc(ver) == '(DInt %s 2 false)' % boolean(le), 'CU header version field')
    _need(type(sw) is core.Switch and set(sw.cases) == {True, False}, 'CU header IfThenElse')
    truth = [bool(sw.keyfunc(Container(version=v))) for v in range(0, 12)]
    _need(truth == sorted(truth) and True in truth and False in truth, 'CU header version predicate')
    v5_from = truth.index(True)
    lt5 = fields(unwrap_embed(sw.cases[False]))
    v5 = unwrap_embed(sw.cases[True])
    _need(type(v5) is core.Struct and len(v5.subcons) == 2, 'v5 CU header shape')
    ut, inner = v5.subcons
    ut_pairs, ut_default, ut_sub = enum_dec(ut)
    _need(ut.name == 'unit_type' and desc(ut_sub) == '(DInt true 1 false)', 'unit_type field')
    inner = unwrap_embed(inner)
    _need(type(inner) is core.Switch, 'v5 CU header switch')
    _need(inner.keyfunc(Container(unit_type='probe')) == 'probe', 'v5 switch key is not unit_type')
    _need(inner.default is core.Switch.NoDefault, 'v5 switch default')
    cases = []
    for k, v in inner.cases.items():
        _need(isinstance(k, str), 'v5 switch key %r' % (k,))
        cases.append((k, fields(v)))
    return dict(initlen=(lo, esc), v5_from=v5_from, lt5=lt5, ut=(ut_pairs, ut_default), cases=cases)


def tu_header(s, le):
    from elftools.construct import core
    h = s.Dwarf_TU_header
    _need(type(h) is core.Struct and len(h.subcons) >= 2, 'TU header shape')
    il = h.subcons[0]
    _need(il.name == 'unit_length', 'TU header first field')
    lo, esc = initlen(il, le)
    out = []
    for sc in h.subcons[1:]:
        _need(type(sc) is core.FormatField and sc.name, 'TU header field')
        out.append((sc.name, desc(sc)))
    return (lo, esc), out


def abbrev_decl(s):
    from elftools.construct import core
    from elftools.construct.lib.container import Container
    from elftools.common.construct_utils import RepeatUntilExcluding
    h = s.Dwarf_abbrev_declaration
    _need(type(h) is core.Struct and len(h.subcons) == 3, 'abbrev declaration shape')
    tag, ch, rep = h.subcons
    tag_pairs, tag_def, tag_sub = enum_dec(tag)
    ch_pairs, ch_def, ch_sub = enum_dec(ch)
    _need(tag.name == 'tag' and ch.name == 'children_flag' and rep.name == 'attr_spec', 'abbrev field names')
    _need(type(rep) is RepeatUntilExcluding, 'attr_spec repeater')
    spec = rep.subcon
    _need(type(spec) is core.Struct and len(spec.subcons) == 3, 'attr_spec shape')
    nm, fm, val = spec.subcons
    at_pairs, at_def, at_sub = enum_dec(nm)
    form_pairs, form_def, form_sub = enum_dec(fm)
    _need(nm.name == 'name' and fm.name == 'form' and val.name == 'value', 'attr_spec field names')
    _need(type(val) is core.Switch and set(val.cases) == {True, False}, 'attr_spec value If')
    _need(type(val.cases[False]) is core.Value and val.cases[False].func(None) is None, 'attr_spec value else')
    names = [v for _, v in form_pairs] + [0x7777]
    value_forms = [f for f in names if val.keyfunc(Container(name='DW_AT_name', form=f))]
    _need(all(isinstance(f, str) for f in value_forms), 'attr_spec value predicate')
    # terminator predicate: probed over all (name, form) pairs of a small grid
    at_probe = ['DW_AT_null', 'DW_AT_sibling', 0x7777, 0] + [v for _, v in at_pairs[1:3]]
    fm_probe = ['DW_FORM_null', 'DW_FORM_addr', 'DW_FORM_implicit_const', 0x7777]
    stops = [(a, f) for a in at_probe for f in fm_probe
             if rep.predicate(Container(name=a, form=f, value=None), Container())]
    _need(stops == [('DW_AT_null', 'DW_FORM_null')], 'attr_spec terminator predicate: %r' % (stops,))
    return dict(tag=(tag_pairs, tag_def, desc(tag_sub)), children=(ch_pairs, ch_def, desc(ch_sub)),
                at=(at_pairs, at_def, desc(at_sub)), form=(form_pairs, form_def, desc(form_sub)),
                value=desc(val.cases[True]), value_forms=value_forms, stop=stops[0])



# ------------------------------------------------------------------ form-name sets written inline in the code (AST)
def _src_function(module, qualname):
    """the ast.FunctionDef of Class.method in a live module (source read through inspect)"""
    import ast, inspect, textwrap
    obj = module
    for part in qualname.split('.'):
        obj = getattr(obj, part)
    tree = ast.parse(textwrap.dedent(inspect.getsource(obj)))
    _need(len(tree.body) == 1 and isinstance(tree.body[0], ast.FunctionDef), 'source of %s' % qualname)
    return tree.body[0]


def _str_const(n):
    import ast
    _need(isinstance(n, ast.Constant) and isinstance(n.value, str), 'string constant expected in a form test')
    return n.value


def _form_tests(fn, is_left):
    """all comparisons `<left> in (names...)`, `<left> in 'name'`, `<left> == 'name'` of a function, in source order:
    [('in', [names]) | ('substr', name) | ('eq', name)]"""
    import ast
    found = []
    for node in ast.walk(fn):
        if isinstance(node, ast.Compare) and is_left(node.left):
            _need(len(node.ops) == 1 and len(node.comparators) == 1, 'chained comparison in a form test')
            op, rhs = node.ops[0], node.comparators[0]
            if isinstance(op, ast.In) and isinstance(rhs, ast.Tuple):
                found.append((node.lineno, node.col_offset, ('in', [_str_const(e) for e in rhs.elts])))
            elif isinstance(op, ast.In):
                found.append((node.lineno, node.col_offset, ('substr', _str_const(rhs))))
            elif isinstance(op, ast.Eq):
                found.append((node.lineno, node.col_offset, ('eq', _str_const(rhs))))
            else:
                raise Unsupported('form test with operator %s' % type(op).__name__)
    return [t for _, _, t in sorted(found)]


def form_name_sets():
    """the tuples of form names tested by iter_DIE_children (CU and TU copies), get_DIE_from_attribute and
    _translate_attr_value"""
    import ast
    from elftools.dwarf import compileunit, typeunit, die
    res = {}
    is_attr = lambda var: (lambda n: isinstance(n, ast.Attribute) and n.attr == 'form'
                           and isinstance(n.value, ast.Name) and n.value.id == var)
    for key, mod, qn in (('cu', compileunit, 'CompileUnit.iter_DIE_children'), ('tu', typeunit, 'TypeUnit.iter_DIE_children')):
        tests = _form_tests(_src_function(mod, qn), is_attr('sibling'))
        _need([k for k, _ in tests] == ['in', 'eq'], '%s: shape of the DW_AT_sibling form tests %r' % (qn, tests))
        res[key + '_sibling_unit'] = tests[0][1]
        res[key + '_sibling_addr'] = tests[1][1]
    tests = _form_tests(_src_function(die, 'DIE.get_DIE_from_attribute'), is_attr('attr'))
    _need([k for k, _ in tests] == ['in', 'substr', 'substr', 'in'], 'get_DIE_from_attribute: shape of the form tests %r' % (tests,))
    res['die_ref_unit'], res['die_ref_addr'], res['die_ref_sig8'], res['die_ref_sup'] = [t[1] for t in tests]
    tests = _form_tests(_src_function(die, 'DIE._translate_attr_value'),
                        lambda n: isinstance(n, ast.Name) and n.id == 'form')
    chain = [[v] if k == 'eq' else v for k, v in tests]
    _need(all(k in ('eq', 'in') for k, _ in tests), '_translate_attr_value: substring form test')
    addrx = [c for c in chain if 'DW_FORM_addrx' in c]
    strx = [c for c in chain if 'DW_FORM_strx' in c]
    _need(len(addrx) == 1 and len(strx) == 1, '_translate_attr_value: addrx/strx tuples')
    res['translate_chain'] = chain
    res['translate_addrx'] = addrx[0]
    res['translate_strx'] = strx[0]
    return res


def cfgname(le, fmt, asz, ver):
    return '%s_%d_%d_v%d' % ('LE' if le else 'BE', fmt, asz, ver)


def generate():
    from elftools.dwarf.structs import DWARFStructs
    from elftools.dwarf import enums
    DWARFStructs._structs_cache.clear()
    out = [coqfmt.HEADER % 'gen_c04.py', 'From PV Require Import Spec.C04Desc.\n']
    tables = {}
    hdrs = {}
    abb = None
    for cfg in CONFIGS:
        le, fmt, asz, ver = cfg
        s = DWARFStructs(little_endian=le, dwarf_format=fmt, address_size=asz, dwarf_version=ver)
        _need(isinstance(s.Dwarf_dw_form, dict), 'Dwarf_dw_form is not a dict')
        tbl = []
        for k, v in s.Dwarf_dw_form.items():
            _need(isinstance(k, str), 'form key %r' % (k,))
            tbl.append((k, desc(v)))
        tables[cfg] = tbl
        h = cu_header(s, le)
        t = tu_header(s, le)
        key = (le, fmt)
        if key in hdrs:
            _need(hdrs[key] == (h, t), 'unit header layout depends on address size or version')
        hdrs[key] = (h, t)
        a = abbrev_decl(s)
        if abb is not None:
            _need(abb == a, 'abbreviation declaration depends on the configuration')
        abb = a
        _need(s.initial_length_field_size() == (4 if fmt == 32 else 12), 'initial_length_field_size')
    # ---- form tables, deduplicated
    distinct = {}
    for cfg in CONFIGS:
        key = tuple(tables[cfg])
        if key not in distinct:
            distinct[key] = 'gen_forms_%s' % cfgname(*cfg)
            out.append('Definition %s : list (string * fdesc) := %s.\n' % (
                distinct[key], lst(['(%s, %s)' % (string(k), d) for k, d in key], per_line=2)))
    out.append('(* Dwarf_dw_form of DWARFStructs(le, 64 if is64 else 32, 8 if asz8 else 4, ver) *)')
    out.append('Definition gen_dw_form (le is64 asz8 : bool) (ver : Z) : list (string * fdesc) :=')
    out.append('  match le, is64, asz8 with')
    for le in (True, False):
        for fmt in (32, 64):
            for asz in (4, 8):
                chain = ''
                for ver in (2, 3, 4, 5):
                    chain += 'if ver =? %d then %s else ' % (ver, distinct[tuple(tables[(le, fmt, asz, ver)])])
                out.append('  | %s, %s, %s => %s[]' % (boolean(le), boolean(fmt == 64), boolean(asz == 8), chain))
    out.append('  end.\n')
    # ---- enum decoding dicts
    for nm, (pairs, default, d) in [('tag', abb['tag']), ('at', abb['at']), ('form', abb['form']),
                                    ('children', abb['children'])]:
        out.append('Definition gen_dec_%s : list (Z * string) := %s.' % (nm, dec_coq(pairs)))
        out.append('Definition gen_dec_%s_pass : bool := %s.' % (nm, boolean(default == 'pass')))
        out.append('Definition gen_abbrev_%s_field : fdesc := %s.\n' % (nm, d))
    out.append('Definition gen_abbrev_value_field : fdesc := %s.' % abb['value'])
    out.append('Definition gen_abbrev_value_forms : list string := %s.' % lst([string(f) for f in abb['value_forms']], per_line=0))
    out.append('Definition gen_abbrev_stop : string * string := (%s, %s).\n' % (string(abb['stop'][0]), string(abb['stop'][1])))
    r2n = []
    for k, v in enums.DW_FORM_raw2name.items():
        if isinstance(k, int) and not isinstance(k, bool):
            _need(isinstance(v, str), 'DW_FORM_raw2name value')
            r2n.append((k, v))
        else:
            _need(type(k).__name__ == '_Pass', 'DW_FORM_raw2name key %r' % (k,))
    out.append('Definition gen_form_raw2name : list (Z * string) := %s.\n' % dec_coq(r2n))
    # ---- unit headers
    h0 = hdrs[(True, 32)][0]
    for key, (h, t) in hdrs.items():
        _need(h['initlen'] == h0['initlen'] and t[0] == h0['initlen'] and h['v5_from'] == h0['v5_from']
              and h['ut'] == h0['ut'], 'header parameters depend on the configuration')
    out.append('Definition gen_initlen_reserved_lo : Z := %s.' % z(h0['initlen'][0]))
    out.append('Definition gen_initlen_escape : Z := %s.' % z(h0['initlen'][1]))
    out.append('Definition gen_cu_v5_from : Z := %s.' % z(h0['v5_from']))
    out.append('Definition gen_dec_ut : list (Z * string) := %s.' % dec_coq(h0['ut'][0]))
    out.append('Definition gen_dec_ut_pass : bool := %s.\n' % boolean(h0['ut'][1] == 'pass'))

    def by_cfg(name, ty, f):
        out.append('Definition %s (le is64 : bool) : %s :=' % (name, ty))
        out.append('  match le, is64 with')
        for le in (True, False):
            for fmt in (32, 64):
                out.append('  | %s, %s => %s' % (boolean(le), boolean(fmt == 64), f(hdrs[(le, fmt)])))
        out.append('  end.\n')
    by_cfg('gen_cu_header_lt5', 'list (string * fdesc)', lambda ht: fields_coq(ht[0]['lt5']))
    by_cfg('gen_cu_header_ge5', 'list (string * list (string * fdesc))',
           lambda ht: lst(['(%s, %s)' % (string(k), fields_coq(fl)) for k, fl in ht[0]['cases']], per_line=1, indent='      '))
    by_cfg('gen_tu_header', 'list (string * fdesc)', lambda ht: fields_coq(ht[1][1]))
    # ---- form-name sets tested inline by the tree walk, reference resolution and value translation
    ns = form_name_sets()
    sl = lambda names: lst([string(n) for n in names], per_line=0)
    out.append('(* `sibling.form in (...)` / `sibling.form == ...` of CompileUnit.iter_DIE_children and TypeUnit.iter_DIE_children *)')
    out.append('Definition gen_cu_sibling_unit_forms : list string := %s.' % sl(ns['cu_sibling_unit']))
    out.append('Definition gen_cu_sibling_addr_form : string := %s.' % string(ns['cu_sibling_addr']))
    out.append('Definition gen_tu_sibling_unit_forms : list string := %s.' % sl(ns['tu_sibling_unit']))
    out.append('Definition gen_tu_sibling_addr_form : string := %s.' % string(ns['tu_sibling_addr']))
    out.append('(* `attr.form in ...` tests of DIE.get_DIE_from_attribute, in order (the 2nd and 3rd are `in` on a plain string) *)')
    out.append('Definition gen_die_ref_unit_forms : list string := %s.' % sl(ns['die_ref_unit']))
    out.append('Definition gen_die_ref_addr_pattern : string := %s.' % string(ns['die_ref_addr']))
    out.append('Definition gen_die_ref_sig8_pattern : string := %s.' % string(ns['die_ref_sig8']))
    out.append('Definition gen_die_ref_sup_forms : list string := %s.' % sl(ns['die_ref_sup']))
    out.append('(* `form == ...` / `form in (...)` tests of DIE._translate_attr_value, in order *)')
    out.append('Definition gen_translate_chain : list (list string) := %s.' % lst([sl(c) for c in ns['translate_chain']], per_line=1))
    out.append('Definition gen_translate_addrx_forms : list string := %s.' % sl(ns['translate_addrx']))
    out.append('Definition gen_translate_strx_forms : list string := %s.\n' % sl(ns['translate_strx']))
    return {'C04Forms.v': '\n'.join(out) + '\n'}
