"""gen_registry.py — the independent registries (vendored headers under /verif/registry) as ONE
Coq association list  registry : list (string * Z)  in coq/Gen/Registry.v.

Sources (byte-identical copies, see registry/README):
  glibc   registry/glibc/elf.h                       object-like  #define NAME <constant expression>
  llvm    registry/llvm-14/ELF.h  (+ ELFRelocs/*.def, DynamicTags.def through its #include lines)
          registry/llvm-14/Dwarf.h (+ Dwarf.def through its #include lines)
          enumerators of every  enum { ... }  after preprocessing

How the headers are read
  * A small C preprocessor (class PP): comments removed; backslash continuations joined;
    #define / #undef of object-like and function-like macros (with ## pasting), #ifdef / #ifndef /
    #if defined(...) && || ! / #else / #elif / #endif, #include "file" of vendored files
    (system includes <...> and non-vendored LLVM ADT/Support headers are skipped, which is sound
    because no constant is taken from them), #error in an active region raises.  Macro invocations
    in ordinary text are expanded with the macro table in force at that point, recursively
    (ELF_RELOC(name, value), HANDLE_DW_*(value, name, ...), DYNAMIC_TAG and the per-machine
    *_DYNAMIC_TAG wrappers that expand to it, ...), so the .def files mean what the including
    header makes them mean.
  * llvm: every `enum [class] [Name] [: type] { body }` of the preprocessed text; enumerators get
    their explicit constant expression, or previous + 1.  Expressions may use integer literals
    (any C suffix), earlier enumerators, + - * / % << >> & | ^ and parentheses.  Anything else
    (~, casts, sizeof) makes THAT enumerator and its implicit successors unknown: they are left
    out (listed in `skipped`), never guessed.  `enum class` enumerators are scoped in C++ and are
    left out.
  * glibc: every object-like macro whose fully macro-expanded replacement list is such a constant
    expression.  Character/string valued macros and function-like macros are not codes.

Name normalisation: none is needed — pyelftools uses the C identifiers themselves
(SHT_RELR, R_X86_64_PC32, DW_TAG_subprogram, DW_OP_addr ...), so a registry name is the C
identifier exactly as spelled in the header after macro expansion / ## pasting
(DW_TAG_##NAME, DT_##name).  Comparison is case sensitive.

Inclusion rule: a name is in `registry` only if EVERY source that defines it gives the same
value, and (within one source) every definition of it gives the same value.  Names on which the
sources disagree are listed in `registry_conflicts` (name, glibc value, llvm value) and are NOT in
`registry`, so an inconsistency between registries can never be reported as a library defect.

Exclusions (EXCLUDE below): names that are not codes assigned by a registry:
  * `*_NUM` counts (DT_NUM, R_X86_64_NUM ...) and ELFCLASSNUM, ELFDATANUM, DT_VALNUM, DT_ADDRNUM,
    DT_VERSIONTAGNUM, DT_EXTRANUM, DT_PROCNUM (= DT_MIPS_NUM, a per-machine count).  PN_XNUM,
    DT_VERDEFNUM and DT_VERNEEDNUM ARE codes and are kept.
  * LLVM-internal helpers (DWARF_VERSION, DWARF_VENDOR_*, DW_*_invalid, DW_*_max ...)
The generic LOOS/HIOS/LOPROC/HIPROC range markers are kept: both registries define them once and
agree; per-machine range values would surface as an intra-source conflict and be dropped by the
inclusion rule.

Fails closed: an unterminated conditional, an unknown directive, a macro invocation it cannot
parse, an #include of a vendored-looking file that is missing all raise."""
import ast, os, re
from . import coqfmt as F

VERIF = os.path.dirname(os.path.dirname(os.path.dirname(os.path.abspath(__file__))))
REG = os.path.join(VERIF, 'registry')

EXCLUDE = [
    (re.compile(r'.*_NUM$'), 'count of defined codes, not a code'),
    (re.compile(r'^(ELFCLASSNUM|ELFDATANUM|DT_VALNUM|DT_ADDRNUM|DT_VERSIONTAGNUM|DT_EXTRANUM|DT_PROCNUM)$'),
     'count of defined codes, not a code'),
    (re.compile(r'^DWARF_'), 'LLVM-internal constant'),
    (re.compile(r'^DW_\w+_(invalid|max)$'), 'LLVM-internal sentinel'),
    (re.compile(r'^DW_(PUBTYPES|PUBNAMES|ARANGES)_VERSION$'), 'LLVM-internal constant'),
    (re.compile(r'^DW_LENGTH_'), 'LLVM-internal constant'),
    (re.compile(r'^(DWARF32|DWARF64)$'), 'LLVM-internal enum'),
]


class RegistryError(Exception):
    pass


# ------------------------------------------------------------------ lexical helpers
def strip_comments(text):
    out = []
    i, n = 0, len(text)
    while i < n:
        c = text[i]
        if text.startswith('/*', i):
            j = text.find('*/', i + 2)
            if j < 0:
                raise RegistryError('unterminated comment')
            out.append(' ' + '\n' * text.count('\n', i, j + 2))
            i = j + 2
        elif text.startswith('//', i):
            j = text.find('\n', i)
            j = n if j < 0 else j
            # a // comment ending in a backslash continues; none of the vendored files does that
            i = j
        elif c == '"' or c == "'":
            j = i + 1
            while j < n and text[j] != c:
                j += 2 if text[j] == '\\' else 1
            out.append(text[i:j + 1])
            i = j + 1
        else:
            out.append(c)
            i += 1
    return ''.join(out)


TOKEN = re.compile(r'''
    (?P<id>[A-Za-z_][A-Za-z_0-9]*)
  | (?P<num>(?:0[xX][0-9a-fA-F]+|\d+)[uUlL]*)
  | (?P<str>"(?:[^"\\]|\\.)*")
  | (?P<chr>'(?:[^'\\]|\\.)*')
  | (?P<ws>\s+)
  | (?P<op>\#\#|<<|>>|&&|\|\||==|!=|<=|>=|::|->|.)
''', re.X | re.S)


def tokenize(s):
    toks = []
    for m in TOKEN.finditer(s):
        k = m.lastgroup
        if k == 'ws':
            if toks and toks[-1][0] != 'ws':
                toks.append(('ws', ' '))
        else:
            toks.append((k, m.group()))
    return toks


def untokenize(toks):
    return ''.join(t for _, t in toks)


# ------------------------------------------------------------------ constant expressions
_ALLOWED_BIN = (ast.Add, ast.Sub, ast.Mult, ast.FloorDiv, ast.Mod, ast.LShift, ast.RShift,
                ast.BitAnd, ast.BitOr, ast.BitXor)


def eval_const(expr, env):
    """Evaluate a C integer constant expression over `env` (name -> int).  Returns int or None
    (None = not a constant expression of the supported shape; never a guess)."""
    toks = [t for t in tokenize(expr) if t[0] != 'ws']
    if not toks:
        return None
    py = []
    for k, t in toks:
        if k == 'num':
            py.append(str(int(re.sub(r'[uUlL]+$', '', t), 0) if not re.match(r'^0\d', t)
                          else int(re.sub(r'[uUlL]+$', '', t), 8)))
        elif k == 'id':
            if t not in env or env[t] is None:
                return None
            py.append('(%d)' % env[t])
        elif k == 'op' and t in ('+', '-', '*', '%', '<<', '>>', '&', '|', '^', '(', ')'):
            py.append(t)
        elif k == 'op' and t == '/':
            py.append('//')
        else:
            return None
    try:
        tree = ast.parse(' '.join(py), mode='eval')
    except SyntaxError:
        return None

    def ev(n):
        if isinstance(n, ast.Expression):
            return ev(n.body)
        if isinstance(n, ast.Constant) and isinstance(n.value, int):
            return n.value
        if isinstance(n, ast.BinOp) and isinstance(n.op, _ALLOWED_BIN):
            a, b = ev(n.left), ev(n.right)
            if isinstance(n.op, (ast.FloorDiv, ast.Mod)) and (b == 0 or a < 0 or b < 0):
                raise ValueError('division outside the non-negative range')
            if isinstance(n.op, (ast.LShift, ast.RShift)) and not 0 <= b < 64:
                raise ValueError('shift count')
            return {ast.Add: lambda: a + b, ast.Sub: lambda: a - b, ast.Mult: lambda: a * b,
                    ast.FloorDiv: lambda: a // b, ast.Mod: lambda: a % b, ast.LShift: lambda: a << b,
                    ast.RShift: lambda: a >> b, ast.BitAnd: lambda: a & b, ast.BitOr: lambda: a | b,
                    ast.BitXor: lambda: a ^ b}[type(n.op)]()
        if isinstance(n, ast.UnaryOp) and isinstance(n.op, (ast.USub, ast.UAdd)):
            v = ev(n.operand)
            return -v if isinstance(n.op, ast.USub) else v
        raise ValueError('unsupported node %s' % type(n).__name__)
    try:
        return ev(tree)
    except ValueError:
        return None


# ------------------------------------------------------------------ the preprocessor
class PP:
    def __init__(self, resolve_include):
        self.macros = {}          # name -> (params or None, [tokens])
        self.order = []           # every #define seen: (name, params, body tokens) in order
        self.resolve_include = resolve_include
        self.out = []

    # -- conditionals
    def _cond(self, expr):
        toks = [t for t in tokenize(expr) if t[0] != 'ws']
        py = []
        i = 0
        while i < len(toks):
            k, t = toks[i]
            if k == 'id' and t == 'defined':
                if toks[i + 1][1] == '(':
                    name = toks[i + 2][1]
                    if toks[i + 3][1] != ')':
                        raise RegistryError('bad defined(): ' + expr)
                    i += 4
                else:
                    name = toks[i + 1][1]
                    i += 2
                py.append('True' if name in self.macros else 'False')
                continue
            if k == 'op' and t in ('(', ')'):
                py.append(t)
            elif k == 'op' and t == '&&':
                py.append(' and ')
            elif k == 'op' and t == '||':
                py.append(' or ')
            elif k == 'op' and t == '!':
                py.append(' not ')
            elif k == 'num':
                py.append('bool(%d)' % int(re.sub(r'[uUlL]+$', '', t), 0))
            elif k == 'id':
                if t in self.macros and self.macros[t][0] is None:
                    v = eval_const(untokenize(self.macros[t][1]), {})
                    if v is None:
                        raise RegistryError('#if over non-constant macro: ' + expr)
                    py.append('bool(%d)' % v)
                else:
                    py.append('False')     # C: an undefined identifier in #if is 0
            else:
                raise RegistryError('#if expression not supported: ' + expr)
            i += 1
        return bool(eval(''.join(py), {'__builtins__': {}}, {}))

    # -- macro expansion of ordinary text
    def expand(self, toks, hide=frozenset()):
        out = []
        i, n = 0, len(toks)
        while i < n:
            k, t = toks[i]
            if k == 'id' and t in self.macros and t not in hide:
                params, body = self.macros[t]
                if params is None:
                    out.extend(self.expand(self._paste(list(body)), hide | {t}))
                    i += 1
                    continue
                j = i + 1
                while j < n and toks[j][0] == 'ws':
                    j += 1
                if j < n and toks[j][1] == '(':
                    args, j = self._args(toks, j)
                    if len(args) == 1 and not [a for a in args[0] if a[0] != 'ws'] and not params:
                        args = []
                    if len(args) != len(params):
                        raise RegistryError('macro %s: %d arguments for %d parameters' % (t, len(args), len(params)))
                    out.extend(self.expand(self._subst(params, body, args, hide), hide | {t}))
                    i = j
                    continue
            out.append(toks[i])
            i += 1
        return out

    def _args(self, toks, j):
        """toks[j] is '('; returns (list of token lists, index after the matching ')')"""
        depth, args, cur = 0, [], []
        n = len(toks)
        while j < n:
            k, t = toks[j]
            if t == '(' and k == 'op':
                depth += 1
                if depth > 1:
                    cur.append(toks[j])
            elif t == ')' and k == 'op':
                depth -= 1
                if depth == 0:
                    args.append(cur)
                    return args, j + 1
                cur.append(toks[j])
            elif t == ',' and k == 'op' and depth == 1:
                args.append(cur)
                cur = []
            else:
                cur.append(toks[j])
            j += 1
        raise RegistryError('unterminated macro invocation')

    @staticmethod
    def _trim(ts):
        ts = list(ts)
        while ts and ts[0][0] == 'ws':
            ts.pop(0)
        while ts and ts[-1][0] == 'ws':
            ts.pop()
        return ts

    def _subst(self, params, body, args, hide):
        body = [t for t in body]
        res = []
        for idx, (k, t) in enumerate(body):
            if k == 'op' and t == '#':
                raise RegistryError('stringification (#) is not supported')
            if k == 'id' and t in params:
                a = self._trim(args[params.index(t)])
                # operands of ## are substituted unexpanded, others fully expanded first
                nb = [x for x in body[idx + 1:] if x[0] != 'ws'][:1]
                pb = [x for x in body[:idx] if x[0] != 'ws'][-1:]
                if (nb and nb[0][1] == '##') or (pb and pb[0][1] == '##'):
                    res.extend(a)
                else:
                    res.extend(self.expand(a, hide))
            else:
                res.append((k, t))
        return self._paste(res)

    @staticmethod
    def _paste(toks):
        toks = list(toks)
        while True:
            idx = next((i for i, (k, t) in enumerate(toks) if t == '##' and k == 'op'), None)
            if idx is None:
                return toks
            l = idx - 1
            while l >= 0 and toks[l][0] == 'ws':
                l -= 1
            r = idx + 1
            while r < len(toks) and toks[r][0] == 'ws':
                r += 1
            if l < 0 or r >= len(toks):
                raise RegistryError('## at the edge of a macro body')
            glued = toks[l][1] + toks[r][1]
            new = [x for x in tokenize(glued) if x[0] != 'ws']
            if len(new) != 1:
                raise RegistryError('## does not give one token: ' + glued)
            toks[l:r + 1] = new

    # -- driver
    def process(self, path):
        text = strip_comments(open(path, encoding='latin-1').read())
        text = re.sub(r'\\\n', ' ', text)
        stack = []      # entries: [active_before, taken_already, active_now]
        pending = []

        def active():
            return all(s[2] for s in stack)

        def flush():
            if pending:
                self.out.append(untokenize(self.expand(tokenize('\n'.join(pending)))))
                self.out.append('\n')
                del pending[:]

        for line in text.split('\n'):
            m = re.match(r'^\s*#\s*(\w+)\s*(.*)$', line)
            if not m:
                if active():
                    pending.append(line)
                continue
            flush()
            d, rest = m.group(1), m.group(2).strip()
            if d in ('ifdef', 'ifndef', 'if'):
                if not active():
                    stack.append([False, True, False])
                else:
                    v = (rest in self.macros) if d == 'ifdef' else (rest not in self.macros) if d == 'ifndef' \
                        else self._cond(rest)
                    stack.append([True, v, v])
            elif d == 'elif':
                s = stack[-1]
                if s[0] and not s[1] and self._cond(rest):
                    s[1] = s[2] = True
                else:
                    s[2] = False
            elif d == 'else':
                s = stack[-1]
                s[2] = s[0] and not s[1]
                s[1] = True
            elif d == 'endif':
                stack.pop()
            elif not active():
                continue
            elif d == 'define':
                mm = re.match(r'^([A-Za-z_]\w*)(\(([^)]*)\))?\s*(.*)$', rest)
                if not mm:
                    raise RegistryError('bad #define: ' + line)
                name = mm.group(1)
                params = None
                if mm.group(2) is not None:
                    params = [p.strip() for p in mm.group(3).split(',')] if mm.group(3).strip() else []
                body = self._trim(tokenize(mm.group(4)))
                self.macros[name] = (params, body)
                self.order.append((name, params, body))
            elif d == 'undef':
                self.macros.pop(rest.split()[0], None)
            elif d == 'include':
                p = self.resolve_include(rest, path)
                if p is not None:
                    self.process(p)
            elif d == 'error':
                raise RegistryError('%s: #error %s' % (path, rest))
            elif d in ('pragma', 'line'):
                pass
            else:
                raise RegistryError('%s: unknown directive #%s' % (path, d))
        flush()
        if stack:
            raise RegistryError('%s: unterminated conditional' % path)


# ------------------------------------------------------------------ sources
def _llvm_resolver(spec, cur):
    base = os.path.join(REG, 'llvm-14')
    m = re.match(r'^"([^"]+)"$', spec)
    if not m:
        return None                                   # <system> include
    name = m.group(1)
    if name.startswith('llvm/BinaryFormat/'):
        name = name[len('llvm/BinaryFormat/'):]
    elif name.startswith('llvm/'):
        return None                                   # ADT/Support headers: not vendored, no constants taken
    p = os.path.join(base, name)
    if not os.path.exists(p):
        raise RegistryError('vendored include missing: %s (from %s)' % (name, cur))
    return p


ENUM_RX = re.compile(r'\benum\b\s*(class\s+|struct\s+)?([A-Za-z_]\w*)?\s*(?::\s*[\w:\s]+?)?\s*\{([^{}]*)\}', re.S)


def scrape_llvm(header):
    """-> (defs: list of (name, value) in order (a name may repeat), skipped: list of (name, why))"""
    pp = PP(_llvm_resolver)
    pp.process(os.path.join(REG, 'llvm-14', header))
    text = ''.join(pp.out)
    env, defs, skipped = {}, [], []
    for m in ENUM_RX.finditer(text):
        scoped = bool(m.group(1))
        prev = -1
        depth, cur, items = 0, '', []
        for ch in m.group(3):
            if ch == '(':
                depth += 1
            elif ch == ')':
                depth -= 1
            if ch == ',' and depth == 0:
                items.append(cur)
                cur = ''
            else:
                cur += ch
        items.append(cur)
        for it in items:
            it = it.strip()
            if not it:
                continue
            mm = re.match(r'^([A-Za-z_]\w*)\s*(?:=\s*(.*))?$', it, re.S)
            if not mm:
                raise RegistryError('%s: cannot read enumerator %r' % (header, it))
            name, expr = mm.group(1), mm.group(2)
            if expr is None:
                val = None if prev is None else prev + 1
                why = 'follows an enumerator whose value is not known'
            else:
                val = eval_const(expr, env)
                why = 'value expression not supported: ' + ' '.join(expr.split())
            prev = val
            if scoped:
                skipped.append((name, 'enumerator of a scoped enum (%s)' % (m.group(2) or '?')))
                continue
            if val is None:
                skipped.append((name, why))
                env[name] = None
                continue
            env[name] = val
            defs.append((name, val))
    return defs, skipped


def scrape_glibc():
    pp = PP(lambda spec, cur: None)
    pp.process(os.path.join(REG, 'glibc', 'elf.h'))
    defs, skipped = [], []
    # C expands macros where they are USED, so a replacement list may mention a macro defined
    # further down (DT_PROCNUM -> DT_MIPS_NUM).  References are resolved through the final macro
    # table; a referenced name with two different definitions is ambiguous and makes the value unknown.
    bodies = {}
    for name, params, body in pp.order:
        if params is None:
            bodies.setdefault(name, [])
            if untokenize(body) not in [untokenize(b) for b in bodies[name]]:
                bodies[name].append(body)
    memo = {}

    def value_of(name, busy=()):
        if name in memo:
            return memo[name]
        if name in busy or name not in bodies or len(bodies[name]) != 1:
            return None
        memo[name] = v = fold(bodies[name][0], busy + (name,))
        return v

    def fold(body, busy):
        if not body or any(k in ('str', 'chr') for k, _ in body):
            return None
        env = {}
        for k, t in body:
            if k == 'id':
                env[t] = value_of(t, busy)
        return eval_const(untokenize(body), env)

    for name, params, body in pp.order:
        if params is not None:
            skipped.append((name, 'function-like macro'))
        elif not body:
            skipped.append((name, 'empty macro'))
        elif any(k in ('str', 'chr') for k, _ in body):
            skipped.append((name, 'string/character valued'))
        else:
            val = fold(body, (name,))
            if val is None:
                skipped.append((name, 'not a constant expression: ' + untokenize(body)))
            else:
                defs.append((name, val))
    return defs, skipped


def excluded(name):
    for rx, why in EXCLUDE:
        if rx.match(name):
            return why
    return None


def build():
    """-> dict(registry=[(name, value)], conflicts=[(name, {source: [values]})], sources={src: n},
              excluded=[(name, why)], skipped={src: [(name, why)]}, per_source={src: {name: set(values)}})"""
    srcs = {}
    skipped = {}
    g, sk = scrape_glibc()
    srcs['glibc/elf.h'] = g
    skipped['glibc/elf.h'] = sk
    for h in ('ELF.h', 'Dwarf.h'):
        d, sk = scrape_llvm(h)
        srcs['llvm-14/' + h] = d
        skipped['llvm-14/' + h] = sk
    per = {}
    order = []
    for src, defs in srcs.items():
        ps = per.setdefault(src, {})
        for n, v in defs:
            if n not in ps:
                ps[n] = []
            if v not in ps[n]:
                ps[n].append(v)
            if n not in order:
                order.append(n)
    seen = set()
    registry, conflicts, excl = [], [], []
    for n in order:
        if n in seen:
            continue
        seen.add(n)
        why = excluded(n)
        if why:
            excl.append((n, why))
            continue
        vals = {src: per[src][n] for src in per if n in per[src]}
        allv = sorted({v for vs in vals.values() for v in vs})
        if len(allv) == 1:
            registry.append((n, allv[0]))
        else:
            conflicts.append((n, vals))
    return dict(registry=registry, conflicts=conflicts, excluded=excl, skipped=skipped,
                sources={s: len(d) for s, d in srcs.items()}, per_source=per)


def generate():
    b = build()
    reg = b['registry']
    if len(reg) < 3000:
        raise RegistryError('registry scrape found only %d names: the scraper is broken' % len(reg))
    out = [F.HEADER % 'gen_registry.py (from the vendored headers under /verif/registry)',
           '(* %d names on which every defining source agrees; sources: %s.\n'
           '   %d names excluded as non-codes, %d names dropped because definitions disagree. *)\n' % (
               len(reg), ', '.join('%s (%d definitions)' % kv for kv in b['sources'].items()),
               len(b['excluded']), len(b['conflicts']))]
    CH = 400
    chunks = [reg[i:i + CH] for i in range(0, len(reg), CH)]
    for i, ch in enumerate(chunks):
        out.append('Definition registry_%d : list (string * Z) := %s.\n' % (
            i, F.lst(('(%s, %s)' % (F.string(k), F.z(v)) for k, v in ch), per_line=3)))
    out.append('Definition registry : list (string * Z) :=\n  %s.\n' % ' ++ '.join(
        'registry_%d' % i for i in range(len(chunks))))
    # names on which the registries disagree (with each other or with themselves): documented, not used
    conf = []
    for n, vals in b['conflicts']:
        for src, vs in vals.items():
            for v in vs:
                conf.append('(%s, (%s, %s))' % (F.string(n), F.string(src), F.z(v)))
    out.append('Definition registry_conflicts : list (string * (string * Z)) := %s.\n' % F.lst(conf, per_line=2))
    return {'Registry.v': '\n'.join(out)}


if __name__ == '__main__':
    b = build()
    print('sources', b['sources'])
    print('registry names', len(b['registry']))
    print('excluded', len(b['excluded']), b['excluded'][:400])
    print('conflicts', len(b['conflicts']))
    for n, vals in b['conflicts']:
        print('   ', n, vals)
    for s, sk in b['skipped'].items():
        print('skipped in', s, len(sk))
        for n, why in sk:
            if 'function-like' in why or 'string/char' in why:
                continue
            print('   ', n, '--', why)
