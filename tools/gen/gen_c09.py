"""gen_c09.py — the machine/class dependence of the SysV hash table layout (structs.py
_create_elf_hash), regenerated from the live ELFStructs into coq/Gen/C09Hash.v.

gen_elf_layouts.py emits Elf_Hash for the default machine only; here ELFStructs is instantiated
for EVERY name of ENUM_E_MACHINE (plus none and an unknown number) x both classes x both byte
orders and the Elf_Hash construct is walked:
  gen_hash_wide : list (string * bool)   the (machine, is64) pairs whose hash words are 8 bytes;
  gen_Elf_Hash_wide (le : bool) : layout  that layout.
Fail closed: a layout that is neither the default one nor the single wide one, or one whose
width depends on the byte order, raises Unsupported."""
from tools.gen.coqfmt import string, boolean, lst, HEADER
from tools.gen.gen_elf_layouts import Walker, Unsupported, coq_layout


def generate():
    from elftools.elf.structs import ELFStructs
    from elftools.elf import enums as E
    w = Walker()

    def mk(le, cls, m):
        s = ELFStructs(little_endian=le, elfclass=cls)
        s.create_basic_structs()
        s.create_advanced_structs(None, m, None)
        return s

    def mname(m):
        return '<none>' if m is None else (m if isinstance(m, str) else '<raw>')

    machines = [None] + [m for m in E.ENUM_E_MACHINE.keys() if m != '_default_'] + [0xfeed]
    base = {(le, cls): w.layout(mk(le, cls, None).Elf_Hash)[0] for le in (True, False) for cls in (32, 64)}
    if base[(True, 32)] != base[(True, 64)] or base[(False, 32)] != base[(False, 64)]:
        raise Unsupported('Elf_Hash of the default machine depends on the class')
    wide = {}
    rows = []
    for m in machines:
        for cls in (32, 64):
            differs = [w.layout(mk(le, cls, m).Elf_Hash)[0] != base[(le, cls)] for le in (True, False)]
            if differs[0] != differs[1]:
                raise Unsupported('Elf_Hash width of %r depends on the byte order' % (m,))
            if differs[0]:
                for le in (True, False):
                    f = w.layout(mk(le, cls, m).Elf_Hash)[0]
                    if wide.setdefault(le, f) != f:
                        raise Unsupported('a third Elf_Hash layout for %r' % (m,))
                rows.append('(%s, %s)' % (string(mname(m)), boolean(cls == 64)))
    out = [HEADER % 'gen_c09.py', 'From PV Require Import Base.Fmt.\n']
    out.append('Definition gen_hash_wide : list (string * bool) := %s.\n' % lst(rows, 3))
    if wide:
        cases = ['  | %s => %s' % (boolean(le), coq_layout(wide[le])) for le in (True, False)]
        out.append('Definition gen_Elf_Hash_wide (le : bool) : layout :=\n  match le with\n%s\n  end.\n' % '\n'.join(cases))
    else:
        out.append('Definition gen_Elf_Hash_wide (le : bool) : layout := [].\n')
    return {'C09Hash.v': '\n'.join(out)}
