"""C10 helper: assembles the three small ELF files with DWARF the bounded-exhaustive exploration
runs on (2-3 units, <= 12 entries per unit, one shared line program, one CIE + two FDEs that name different registers, a symbol
table with a duplicated name, a dynamic table with entries after DT_NULL).  Pure Python, no
compiler, deterministic.  Nothing here is used as a specification: the bytes are just inputs;
what they mean is tabulated from a freshly opened object (see c10.py)."""
import struct

# ---- DWARF constants used below
DW_TAG_compile_unit, DW_TAG_subprogram, DW_TAG_base_type, DW_TAG_structure_type = 0x11, 0x2e, 0x24, 0x13
DW_TAG_member, DW_TAG_variable, DW_TAG_formal_parameter, DW_TAG_lexical_block = 0x0d, 0x34, 0x05, 0x0b
DW_TAG_namespace, DW_TAG_pointer_type = 0x39, 0x0f
DW_AT_sibling, DW_AT_name, DW_AT_stmt_list, DW_AT_low_pc, DW_AT_byte_size = 0x01, 0x03, 0x10, 0x11, 0x0b
DW_AT_type, DW_AT_decl_line, DW_AT_external, DW_AT_producer, DW_AT_specification = 0x49, 0x3b, 0x3f, 0x25, 0x47
DW_AT_abstract_origin, DW_AT_const_value, DW_AT_comp_dir = 0x31, 0x1c, 0x1b
F_addr, F_data2, F_data4, F_data8, F_string, F_data1, F_flag, F_strp = 0x01, 0x05, 0x06, 0x07, 0x08, 0x0b, 0x0c, 0x0e
F_udata, F_ref_addr, F_ref1, F_ref2, F_ref4, F_ref_udata, F_sec_offset, F_flag_present = 0x0f, 0x10, 0x11, 0x12, 0x13, 0x15, 0x17, 0x19
F_line_strp, F_implicit_const, F_sdata = 0x1f, 0x21, 0x0d


def uleb(v):
    out = bytearray()
    while True:
        b = v & 0x7f
        v >>= 7
        if v:
            out.append(b | 0x80)
        else:
            out.append(b)
            return bytes(out)


def sleb(v):
    out = bytearray()
    while True:
        b = v & 0x7f
        v >>= 7
        if (v == 0 and not b & 0x40) or (v == -1 and b & 0x40):
            out.append(b)
            return bytes(out)
        out.append(b | 0x80)


class Die:
    """attrs: list of (at, form, value); value may be ('ref', label) for reference forms,
    ('sib',) for DW_AT_sibling (= end of this entry's subtree), ('str', bytes) for strp/line_strp.
    children: None = DW_CHILDREN_no, list = DW_CHILDREN_yes (possibly empty)."""
    def __init__(self, tag, attrs, children=None, label=None):
        self.tag, self.attrs, self.children, self.label = tag, attrs, children, label


class Unit:
    def __init__(self, version, top, dwarf64=False, addr_size=8, unit_type=1, share_abbrev_with=None):
        self.version, self.top, self.dwarf64, self.addr_size = version, top, dwarf64, addr_size
        self.unit_type, self.share_abbrev_with = unit_type, share_abbrev_with


class Builder:
    def __init__(self, le=True):
        self.le = le
        self.e = '<' if le else '>'
        self.strtab = bytearray(b'\0')
        self.line_str = bytearray(b'\0')

    def u(self, n, v):
        return struct.pack(self.e + {1: 'B', 2: 'H', 4: 'I', 8: 'Q'}[n], v)

    def _str(self, tab, s):
        i = tab.find(s + b'\0')
        if i < 0:
            i = len(tab)
            tab += s + b'\0'
        return i

    # ---- .debug_info / .debug_abbrev
    def form_size(self, unit, form, val):
        offsz = 8 if unit.dwarf64 else 4
        if form in (F_data1, F_flag, F_ref1):
            return 1
        if form in (F_data2, F_ref2):
            return 2
        if form in (F_data4, F_ref4):
            return 4
        if form == F_data8:
            return 8
        if form == F_addr:
            return unit.addr_size
        if form in (F_strp, F_sec_offset, F_line_strp):
            return offsz
        if form == F_ref_addr:
            return unit.addr_size if unit.version == 2 else offsz
        if form == F_string:
            return len(val) + 1
        if form == F_udata:
            return len(uleb(val))
        if form == F_sdata:
            return len(sleb(val))
        if form == F_ref_udata:
            return 2                     # always emitted as a padded 2-byte ULEB128
        if form in (F_flag_present, F_implicit_const):
            return 0
        raise ValueError(form)

    def build_info(self, units):
        # abbreviation tables: one per unit unless shared
        abbrev = bytearray()
        tables = []
        for ui, unit in enumerate(units):
            if unit.share_abbrev_with is not None:
                tables.append(tables[unit.share_abbrev_with])
                continue
            codes = {}
            def scan(d):
                key = (d.tag, d.children is not None,
                       tuple((at, form, val if form == F_implicit_const else None) for at, form, val in d.attrs))
                if key not in codes:
                    codes[key] = len(codes) + 1
                d.code = codes[key]
                for c in d.children or []:
                    scan(c)
            scan(unit.top)
            off = len(abbrev)
            for key, code in codes.items():
                tag, hc, attrs = key
                abbrev += uleb(code) + uleb(tag) + bytes([1 if hc else 0])
                for at, form, cval in attrs:
                    abbrev += uleb(at) + uleb(form)
                    if form == F_implicit_const:
                        abbrev += sleb(cval)
                abbrev += b'\0\0'
            abbrev += b'\0'
            abbrev += b'\xee' * 3            # garbage between tables
            tables.append((off, codes))
        # shared tables: codes must be assigned with the owner's table
        for ui, unit in enumerate(units):
            if unit.share_abbrev_with is not None:
                codes = tables[ui][1]
                def scan2(d):
                    key = (d.tag, d.children is not None,
                           tuple((at, form, val if form == F_implicit_const else None) for at, form, val in d.attrs))
                    d.code = codes[key]
                    for c in d.children or []:
                        scan2(c)
                scan2(unit.top)
        # layout
        labels = {}
        pos = 0
        for ui, unit in enumerate(units):
            unit.off = pos
            offsz = 8 if unit.dwarf64 else 4
            hdr = (12 if unit.dwarf64 else 4) + 2 + offsz + 1 + (1 if unit.version >= 5 else 0)
            unit.die_off = pos + hdr
            def lay(d, p):
                d.off = p
                if d.label:
                    labels[d.label] = (ui, p)
                p += len(uleb(d.code))
                for at, form, val in d.attrs:
                    p += self.form_size(unit, form, val)
                d.size = p - d.off
                if d.children is not None:
                    for c in d.children:
                        p = lay(c, p)
                    d.term = p
                    p += 1
                d.end = p
                return p
            pos = lay(unit.top, unit.die_off)
            unit.end = pos
        # emit
        info = bytearray()
        for ui, unit in enumerate(units):
            offsz = 8 if unit.dwarf64 else 4
            body = bytearray()
            body += self.u(2, unit.version)
            if unit.version >= 5:
                body += self.u(1, unit.unit_type) + self.u(1, unit.addr_size) + self.u(offsz, tables[ui][0])
            else:
                body += self.u(offsz, tables[ui][0]) + self.u(1, unit.addr_size)
            def emit(d):
                out = bytearray(uleb(d.code))
                for at, form, val in d.attrs:
                    if isinstance(val, tuple) and val[0] == 'sib':
                        val = ('abs', d.end)
                    if isinstance(val, tuple) and val[0] == 'ref':
                        val = ('abs', labels[val[1]][1])
                    if isinstance(val, tuple) and val[0] == 'abs':
                        target = val[1]
                        val = target if form == F_ref_addr else target - unit.off
                    if isinstance(val, tuple) and val[0] == 'str':
                        val = self._str(self.strtab if form == F_strp else self.line_str, val[1])
                    n = self.form_size(unit, form, val)
                    if form == F_string:
                        out += val + b'\0'
                    elif form == F_udata:
                        out += uleb(val)
                    elif form == F_sdata:
                        out += sleb(val)
                    elif form == F_ref_udata:
                        assert val < 1 << 14
                        out += bytes([0x80 | (val & 0x7f), val >> 7])
                    elif n:
                        out += self.u(n, val)
                for c in d.children or []:
                    out += emit(c)
                if d.children is not None:
                    out += b'\0'
                return out
            body += emit(unit.top)
            if unit.dwarf64:
                info += self.u(4, 0xffffffff) + self.u(8, len(body))
            else:
                info += self.u(4, len(body))
            info += body
            assert len(info) == unit.end, (len(info), unit.end)
        return bytes(info), bytes(abbrev), labels

    # ---- .debug_line
    def line_v4(self, version, files, program, addr_size=8, dirs=()):
        hdr_rest = bytearray()
        hdr_rest += self.u(1, 1)                 # minimum_instruction_length
        if version >= 4:
            hdr_rest += self.u(1, 1)             # maximum_operations_per_instruction
        hdr_rest += self.u(1, 1) + struct.pack('b', -5) + self.u(1, 14) + self.u(1, 13)
        hdr_rest += bytes([0, 1, 1, 1, 1, 0, 0, 0, 1, 0, 0, 1])
        for d in dirs:
            hdr_rest += d + b'\0'
        hdr_rest += b'\0'
        for name, di in files:
            hdr_rest += name + b'\0' + uleb(di) + uleb(0) + uleb(0)
        hdr_rest += b'\0'
        body = self.u(2, version) + self.u(4, len(hdr_rest)) + bytes(hdr_rest) + program
        return self.u(4, len(body)) + body

    def line_v5(self, dirs, files, program, addr_size=8):
        h = bytearray()
        h += self.u(1, 1) + self.u(1, 1) + self.u(1, 1) + struct.pack('b', -5) + self.u(1, 14) + self.u(1, 13)
        h += bytes([0, 1, 1, 1, 1, 0, 0, 0, 1, 0, 0, 1])
        h += self.u(1, 1) + uleb(1) + uleb(F_line_strp)          # directory_entry_format: path, line_strp
        h += uleb(len(dirs))
        for d in dirs:
            h += self.u(4, self._str(self.line_str, d))
        h += self.u(1, 2) + uleb(1) + uleb(F_line_strp) + uleb(2) + uleb(F_udata)
        h += uleb(len(files))
        for name, di in files:
            h += self.u(4, self._str(self.line_str, name)) + uleb(di)
        body = self.u(2, 5) + self.u(1, addr_size) + self.u(1, 0) + self.u(4, len(h)) + bytes(h) + program
        return self.u(4, len(body)) + body

    def lp_set_address(self, a, addr_size=8):
        return b'\0' + uleb(1 + addr_size) + b'\x02' + self.u(addr_size, a)

    @staticmethod
    def lp_define_file(name):
        body = b'\x03' + name + b'\0' + uleb(0) + uleb(0) + uleb(0)
        return b'\0' + uleb(len(body)) + body

    lp_end_sequence = b'\0\x01\x01'

    # ---- .debug_frame: one CIE + FDEs
    def frame(self, fdes, addr_size=8, version=1):
        def pad(b, n):
            return b + b'\0' * (-len(b) % n)
        cie_body = self.u(4, 0xffffffff) + self.u(1, version) + b'\0' + uleb(1) + sleb(-8)
        cie_body += (self.u(1, 16) if version == 1 else uleb(16))
        cie_body += bytes([0x0c, 7, 8, 0x90, 1])                 # def_cfa r7,8 ; offset r16,1
        cie_body = pad(cie_body, addr_size)
        out = self.u(4, len(cie_body)) + cie_body
        for loc, rng, instrs in fdes:
            b = self.u(4, 0) + self.u(addr_size, loc) + self.u(addr_size, rng) + instrs
            b = pad(b, addr_size)
            out += self.u(4, len(b)) + b
        return out


def eh_frame(b, fdes):
    """.eh_frame: one CIE with augmentation "zR" (FDE pointers pcrel|sdata4) and the given FDEs (loc, range, instrs),
    closed by a zero terminator"""
    def pad(x, n=8):
        return x + b'\0' * (-(len(x) + 4) % n)
    cie_body = pad(b.u(4, 0) + b.u(1, 1) + b'zR\0' + uleb(1) + sleb(-8) + b.u(1, 16) + uleb(1) + bytes([0x1b]) +
                   bytes([0x0c, 7, 8, 0x90, 1]))
    out = b.u(4, len(cie_body)) + cie_body
    for loc, rng, instrs in fdes:
        p = len(out)
        body = pad(b.u(4, p + 4) + b.u(4, loc & 0xffffffff) + b.u(4, rng) + uleb(0) + instrs)
        out += b.u(4, len(body)) + body
    return out + b.u(4, 0)


def elf_image(le, is64, sections, symbols, dyn_tags, dynstr, machine):
    """sections: list of (name, sh_type, data, flags).  Adds the null section, .symtab/.strtab,
    .dynamic/.dynstr, .shstrtab, one PT_LOAD and one PT_DYNAMIC."""
    e = '<' if le else '>'
    W = 'Q' if is64 else 'I'
    SHT_PROGBITS, SHT_SYMTAB, SHT_STRTAB, SHT_DYNAMIC = 1, 2, 3, 6
    # string tables
    strtab = bytearray(b'\0')
    def st(tab, s):
        i = tab.find(s + b'\0')
        if i < 0:
            i = len(tab)
            tab += s + b'\0'
        return i
    symdata = bytearray()
    for name, value, size, info, shndx in symbols:
        ni = st(strtab, name) if name else 0
        if is64:
            symdata += struct.pack(e + 'IBBHQQ', ni, info, 0, shndx, value, size)
        else:
            symdata += struct.pack(e + 'IIIBBH', ni, value, size, info, 0, shndx)
    dyndata = bytearray()
    for tag, val in dyn_tags:
        dyndata += struct.pack(e + W + W, tag, val)
    secs = [(b'', 0, b'', 0, 0, 0, 0)]
    for name, typ, data, flags in sections:
        secs.append((name, typ, data, flags, 0, 0, 0))
    symtab_idx = len(secs)
    secs.append((b'.symtab', SHT_SYMTAB, bytes(symdata), 0, symtab_idx + 1, 1, 24 if is64 else 16))
    secs.append((b'.strtab', SHT_STRTAB, bytes(strtab), 0, 0, 0, 0))
    dyn_idx = len(secs)
    secs.append((b'.dynamic', SHT_DYNAMIC, bytes(dyndata), 3, dyn_idx + 1, 0, 16 if is64 else 8))
    secs.append((b'.dynstr', SHT_STRTAB, dynstr, 2, 0, 0, 0))
    shstr = bytearray(b'\0')
    shstr_idx = len(secs)
    names = [st(shstr, s[0]) if s[0] else 0 for s in secs] + [st(shstr, b'.shstrtab')]
    secs.append((b'.shstrtab', SHT_STRTAB, bytes(shstr), 0, 0, 0, 0))
    ehsize = 64 if is64 else 52
    phentsize = 56 if is64 else 32
    shentsize = 64 if is64 else 40
    phnum = 2
    pos = ehsize + phnum * phentsize
    blob = bytearray()
    offs = []
    for s in secs:
        pad = -pos % 8
        blob += b'\xcc' * pad
        pos += pad
        offs.append(pos)
        blob += s[2]
        pos += len(s[2])
    pad = -pos % 8
    blob += b'\xcc' * pad
    pos += pad
    shoff = pos
    ident = b'\x7fELF' + bytes([2 if is64 else 1, 1 if le else 2, 1, 0]) + b'\0' * 8
    if is64:
        eh = ident + struct.pack(e + 'HHIQQQIHHHHHH', 3, machine, 1, 0, ehsize, shoff, 0, ehsize, phentsize, phnum,
                                 shentsize, len(secs), shstr_idx)
    else:
        eh = ident + struct.pack(e + 'HHIIIIIHHHHHH', 3, machine, 1, 0, ehsize, shoff, 0, ehsize, phentsize, phnum,
                                 shentsize, len(secs), shstr_idx)
    def ph(typ, flags, off, vaddr, filesz):
        if is64:
            return struct.pack(e + 'IIQQQQQQ', typ, flags, off, vaddr, vaddr, filesz, filesz, 8)
        return struct.pack(e + 'IIIIIIII', typ, off, vaddr, vaddr, filesz, filesz, flags, 8)
    phs = ph(1, 5, 0, 0, shoff) + ph(2, 6, offs[dyn_idx], offs[dyn_idx], len(dyndata))
    sh = bytearray()
    for i, s in enumerate(secs):
        name, typ, data, flags, link, info, entsize = s
        addr = offs[i] if flags & 2 else 0
        if is64:
            sh += struct.pack(e + 'IIQQQQIIQQ', names[i], typ, flags, addr, offs[i], len(data), link, info, 1, entsize)
        else:
            sh += struct.pack(e + 'IIIIIIIIII', names[i], typ, flags, addr, offs[i], len(data), link, info, 1, entsize)
    return eh + phs + bytes(blob) + bytes(sh)


def _sym(name, value, info=0x12, shndx=1, size=4):
    return (name, value, size, info, shndx)


def file_a(le=True):
    """ELF64 LE; two DWARF 4 units; unit 0 has a subtree without DW_AT_sibling, one with it (ref4),
    a local (ref4) and a global (ref_addr) reference; both units share line program 0."""
    b = Builder(le)
    u0 = Unit(4, Die(DW_TAG_compile_unit,
                     [(DW_AT_producer, F_strp, ('str', b'verif-cc 1.0')), (DW_AT_name, F_strp, ('str', b'a.c')),
                      (DW_AT_stmt_list, F_sec_offset, 0), (DW_AT_low_pc, F_addr, 0x1000)],
                     [Die(DW_TAG_subprogram, [(DW_AT_name, F_string, b'f'), (DW_AT_external, F_flag_present, 0)],
                          [Die(DW_TAG_formal_parameter, [(DW_AT_name, F_string, b'x'), (DW_AT_type, F_ref4, ('ref', 'int'))], label='param'),
                           Die(DW_TAG_variable, [(DW_AT_name, F_string, b'v'), (DW_AT_type, F_ref4, ('ref', 'int'))])],
                          label='sub'),
                      Die(DW_TAG_base_type, [(DW_AT_name, F_strp, ('str', b'int')), (DW_AT_byte_size, F_data1, 4)], label='int'),
                      Die(DW_TAG_structure_type, [(DW_AT_name, F_string, b'S'), (DW_AT_sibling, F_ref4, ('sib',))],
                          [Die(DW_TAG_member, [(DW_AT_name, F_string, b'm0'), (DW_AT_type, F_ref4, ('ref', 'int'))]),
                           Die(DW_TAG_member, [(DW_AT_name, F_string, b'm1'), (DW_AT_type, F_ref4, ('ref', 'int'))], label='member')],
                          label='struct'),
                      Die(DW_TAG_variable, [(DW_AT_name, F_string, b'g'), (DW_AT_type, F_ref_addr, ('ref', 'long'))], label='gvar')]))
    u1 = Unit(4, Die(DW_TAG_compile_unit,
                     [(DW_AT_name, F_strp, ('str', b'b.c')), (DW_AT_stmt_list, F_sec_offset, 0)],
                     [Die(DW_TAG_base_type, [(DW_AT_name, F_strp, ('str', b'long int')), (DW_AT_byte_size, F_data1, 8)], label='long'),
                      Die(DW_TAG_subprogram, [(DW_AT_name, F_string, b'empty')], [], label='emptysub')]))
    info, abbrev, labels = b.build_info([u0, u1])
    prog = b.lp_set_address(0x1000) + bytes([0x14, 0x21, 0x02, 0x04]) + b.lp_end_sequence
    line = b.line_v4(4, [(b'a.c', 0), (b'b.c', 0)], prog)
    frame = b.frame([(0x1000, 0x20, bytes([0x41, 0x0e, 16, 0x83, 3])), (0x1020, 0x10, bytes([0x42, 0x0e, 24, 0x86, 2]))])
    dynstr = b'\0libc.so.6\0liba.so\0'
    eh = eh_frame(b, [(0x100, 0x20, bytes([0x41, 0x0e, 16, 0x83, 3])), (0x200, 0x10, bytes([0x42, 0x0e, 24, 0x86, 2]))])
    img = elf_image(le, True,
                    [(b'.text', 1, b'\x90' * 32, 6), (b'.debug_info', 1, info, 0), (b'.debug_abbrev', 1, abbrev, 0),
                     (b'.debug_str', 1, bytes(b.strtab), 0), (b'.debug_line', 1, line, 0), (b'.debug_frame', 1, frame, 0),
                     (b'.eh_frame', 1, eh, 2)],
                    [_sym(b'', 0, 0, 0, 0), _sym(b'f', 0x1000), _sym(b'dup', 0x1004), _sym(b'g', 0x2000, 0x11), _sym(b'dup', 0x1008)],
                    [(1, 1), (14, 11), (5, 0x400), (0, 0), (21, 0), (0x6ffffffb, 1)], dynstr, 62)
    return dict(name='A' if le else 'Abe', image=img, labels=labels, units=[u0.off, u1.off])


def file_b(le=False):
    """ELF32 BE; three units: DWARF 5 (line_strp, implicit_const, ref_udata sibling), DWARF 3 in the
    64-bit format, DWARF 2; nesting depth 3 without siblings; an entry with an empty children list;
    the 32-bit units 0 and 2 share the v5 line program, the 64-bit unit has none (DWARF 7.4: the two
    formats are not mixed within one unit's contributions)."""
    b = Builder(le)
    u0 = Unit(5, Die(DW_TAG_compile_unit,
                     [(DW_AT_name, F_line_strp, ('str', b'm.c')), (DW_AT_comp_dir, F_line_strp, ('str', b'/src')),
                      (DW_AT_stmt_list, F_sec_offset, 0)],
                     [Die(DW_TAG_namespace, [(DW_AT_name, F_string, b'ns')],
                          [Die(DW_TAG_subprogram, [(DW_AT_name, F_string, b'h'), (DW_AT_decl_line, F_implicit_const, 7)],
                               [Die(DW_TAG_lexical_block, [],
                                    [Die(DW_TAG_variable, [(DW_AT_name, F_string, b'deep'), (DW_AT_const_value, F_sdata, -3)], label='deep')],
                                    label='block')],
                               label='h')],
                          label='ns'),
                      Die(DW_TAG_structure_type, [(DW_AT_sibling, F_ref_udata, ('sib',)), (DW_AT_name, F_string, b'T')],
                          [Die(DW_TAG_member, [(DW_AT_name, F_string, b'a')], label='mem')], label='T'),
                      Die(DW_TAG_pointer_type, [(DW_AT_type, F_ref_addr, ('ref', 'w'))], label='ptr')]),
              addr_size=4)
    u1 = Unit(3, Die(DW_TAG_compile_unit, [(DW_AT_name, F_string, b'n.c'), (DW_AT_low_pc, F_addr, 0x400)],
                     [Die(DW_TAG_base_type, [(DW_AT_name, F_string, b'w'), (DW_AT_byte_size, F_data1, 2)], label='w'),
                      Die(DW_TAG_subprogram, [(DW_AT_name, F_string, b'e')], [], label='e'),
                      Die(DW_TAG_variable, [(DW_AT_name, F_string, b'k'), (DW_AT_type, F_ref2, ('ref', 'w'))], label='k')]),
              dwarf64=True, addr_size=4)
    u2 = Unit(2, Die(DW_TAG_compile_unit, [(DW_AT_name, F_string, b'o.c'), (DW_AT_stmt_list, F_data4, 0)],
                     [Die(DW_TAG_variable, [(DW_AT_name, F_string, b'z'), (DW_AT_specification, F_ref_addr, ('ref', 'k'))], label='z')]),
              addr_size=4)
    info, abbrev, labels = b.build_info([u0, u1, u2])
    prog = b.lp_set_address(0x400, 4) + bytes([0x15, 0x03, 0x02, 0x2f]) + b.lp_end_sequence
    line = b.line_v5([b'/src'], [(b'm.c', 0), (b'n.c', 0)], prog, addr_size=4)
    frame = b.frame([(0x400, 0x10, bytes([0x41, 0x0e, 8, 0x85, 2])), (0x410, 0x8, bytes([0x44, 0x0e, 12, 0x87, 3, 0x0a, 0x0b]))],
                    addr_size=4, version=3)
    dynstr = b'\0libm.so\0'
    img = elf_image(le, False,
                    [(b'.text', 1, b'\0' * 16, 6), (b'.debug_info', 1, info, 0), (b'.debug_abbrev', 1, abbrev, 0),
                     (b'.debug_str', 1, bytes(b.strtab), 0), (b'.debug_line_str', 1, bytes(b.line_str), 0),
                     (b'.debug_line', 1, line, 0), (b'.debug_frame', 1, frame, 0)],
                    [_sym(b'', 0, 0, 0, 0), _sym(b'h', 0x400), _sym(b'k', 0x800, 0x11), _sym(b'h', 0x410, 0x02)],
                    [(1, 1), (0, 0), (1, 1)], dynstr, 20)
    return dict(name='B' if not le else 'Ble', image=img, labels=labels, units=[u0.off, u1.off, u2.off])


def file_c():
    """ELF64 LE; two DWARF 4 units sharing ONE abbreviation table and one DWARF 3 line program that
    executes DW_LNE_define_file; sibling chains mixing entries with and without DW_AT_sibling; three type units in .debug_types."""
    b = Builder(True)
    def fn(name, kids, sib, label):
        attrs = [(DW_AT_name, F_string, name)] + ([(DW_AT_sibling, F_ref4, ('sib',))] if sib else [])
        return Die(DW_TAG_subprogram, attrs, kids, label=label)
    def var(name, label=None):
        return Die(DW_TAG_variable, [(DW_AT_name, F_string, name)], label=label)
    u0 = Unit(4, Die(DW_TAG_compile_unit, [(DW_AT_name, F_string, b'p.c'), (DW_AT_stmt_list, F_sec_offset, 0)],
                     [fn(b'f1', [var(b'a', 'a')], True, 'f1'),
                      fn(b'f2', [var(b'b'), fn(b'in', [var(b'c', 'c')], False, 'inner')], False, 'f2'),
                      var(b'tail', 'tail')]))
    u1 = Unit(4, Die(DW_TAG_compile_unit, [(DW_AT_name, F_string, b'q.c'), (DW_AT_stmt_list, F_sec_offset, 0)],
                     [fn(b'f3', [var(b'd', 'd')], False, 'f3'), var(b'last', 'last')]),
              share_abbrev_with=None)
    # same shapes => make unit 1 use unit 0's table: all of its abbreviations exist there
    u1.share_abbrev_with = 0
    info, abbrev, labels = b.build_info([u0, u1])
    # .debug_types: three DWARF 4 type units (header of 23 bytes, one entry each) with their own abbreviation
    # table appended to .debug_abbrev; a gap of garbage-free bytes is not allowed between units, so they tile
    tu_abbrev_off = len(abbrev)
    abbrev += uleb(1) + uleb(DW_TAG_structure_type) + b'\0' + uleb(DW_AT_byte_size) + uleb(F_data1) + b'\0\0' + b'\0'
    types = bytearray()
    for k, sig in enumerate((0x1122334455667788, 0x0102030405060708, 0xfedcba9876543210)):
        body = (b.u(2, 4) + b.u(4, tu_abbrev_off) + b.u(1, 8) + b.u(8, sig) + b.u(4, 23) + uleb(1) + bytes([4 + k]))
        types += b.u(4, len(body)) + body
    prog = (b.lp_set_address(0x3000) + bytes([0x13]) + Builder.lp_define_file(b'gen.h') + bytes([0x21]) +
            Builder.lp_define_file(b'gen2.h') + bytes([0x02, 0x03]) + b.lp_end_sequence)
    line = b.line_v4(3, [(b'p.c', 1)], prog, dirs=(b'/d',))
    frame = b.frame([(0x3000, 0x40, bytes([0x48, 0x0e, 32, 0x8c, 1])), (0x3040, 0x4, b'')])
    dynstr = b'\0libz.so.1\0me.so\0'
    img = elf_image(True, True,
                    [(b'.debug_info', 1, info, 0), (b'.debug_abbrev', 1, abbrev, 0), (b'.debug_str', 1, bytes(b.strtab), 0),
                     (b'.debug_line', 1, line, 0), (b'.debug_frame', 1, frame, 0), (b'.debug_types', 1, bytes(types), 0),
                     (b'.data', 1, b'\x01\x02\x03\x04', 3),
                     (b'.data', 1, b'\x05\x06', 3)],
                    [_sym(b'', 0, 0, 0, 0), _sym(b'f1', 0x3000), _sym(b'f2', 0x3010), _sym(b'f3', 0x3040)],
                    [(14, 11), (1, 1), (0, 0), (0, 0), (1, 1), (12, 0x99)], dynstr, 62)
    return dict(name='C', image=img, labels=labels, units=[u0.off, u1.off])


def file_d():
    """ELF64 LE; a DWARF 4 unit and a DWARF 2 unit that SHARE one abbreviation table (32-bit DWARF, address size 8), with
    a declaration used in both whose DW_FORM_ref_addr attribute is offset-sized (4) in the first and address-sized (8)
    in the second unit; both units name one ill-formed line program."""
    b = Builder(True)
    def gref(name, label):
        return Die(DW_TAG_variable, [(DW_AT_name, F_string, name), (DW_AT_type, F_ref_addr, ('ref', 'base'))], label=label)
    def base(label):
        return Die(DW_TAG_base_type, [(DW_AT_name, F_string, b'i'), (DW_AT_byte_size, F_data1, 4)], label=label)
    u0 = Unit(4, Die(DW_TAG_compile_unit, [(DW_AT_name, F_string, b'r.c'), (DW_AT_stmt_list, F_sec_offset, 0)],
                     [base('base'), gref(b'p', 'p'), gref(b'q', 'q')]))
    u1 = Unit(2, Die(DW_TAG_compile_unit, [(DW_AT_name, F_string, b's.c'), (DW_AT_stmt_list, F_sec_offset, 0)],
                     [base('base2'), gref(b'x', 'x'), gref(b'y', 'y')]))
    u1.share_abbrev_with = 0
    info, abbrev, labels = b.build_info([u0, u1])
    # an ILL-FORMED line program: its unit_length reaches 40 bytes past the end of .debug_line, so decoding runs off the
    # section after a few rows (the header itself parses)
    prog = b.lp_set_address(0x10) + bytes([0x14, 0x21, 0x02, 0x04])
    line = bytearray(b.line_v4(3, [(b'r.c', 0)], prog))
    line[0:4] = b.u(4, len(line) - 4 + 40)
    dynstr = b'\0libq.so\0'
    img = elf_image(True, True,
                    [(b'.text', 1, b'\x90' * 8, 6), (b'.debug_info', 1, info, 0), (b'.debug_abbrev', 1, abbrev, 0),
                     (b'.debug_str', 1, bytes(b.strtab) or b'\0', 0), (b'.debug_line', 1, bytes(line), 0)],
                    [_sym(b'', 0, 0, 0, 0), _sym(b'r', 0x10)], [(1, 1), (0, 0)], dynstr, 62)
    return dict(name='D', image=img, labels=labels, units=[u0.off, u1.off])


def all_files():
    return [file_a(), file_b(), file_c()]
