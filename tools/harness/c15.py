"""C15 correspondence: symbol-version sections.

impl  = GNUVerDefSection / GNUVerNeedSection / GNUVerSymSection of the real library over a synthesized
        minimal ELF image opened with ELFFile(BytesIO).
model = extracted Model/C15GnuVersions.v;  spec = extracted Spec/C15Versions.v (views of the abstract records).
Record bytes, section headers and the ELF header are produced by the Coq spec encoders through the driver;
the harness only chooses positions and garbage and copies the bytes there.  The driver's *_section_wf check
(the hypothesis of the theorems of Props/C15.v, evaluated on the final image) certifies in-domain cases.

Zero next links: a zero vd_next/vn_next/vda_next/vna_next means "no further record" (the reader stops there since
/repo eedb89f, a C19 finding).  The layout predicate therefore demands a non-zero link on every record that has a
successor; the in-domain generator never draws 0 there (the LAST link of a chain stays free: 0 or garbage).  Chains
with a zero link in front of counted records are separate streams: '<kind>_ended' (sh_info too large, last entry of
the chain has next = 0; certified by *_section_ended_wf = hypothesis of C15_*_ended_at_zero_link, iter_versions is
compared with that theorem's value, the other observations with the model) and the 'entloop' / 'auxloop' malformed
variants (impl vs model only)."""
import io
from tools.lib.framework import impl_call
from tools.lib.streams import Streams, draw_kind

CLAIMED = True
CONFIG = {'assumptions': [
    'section headers reach the model decoded (header decoding is C01); sh_type names via the regenerated Enum table of '
    'the default machine (harness uses machines without a private sh_type table)',
    'names compared as UTF-8 bytes; generated names are valid UTF-8 without NUL',
    'iter_versions observed twice: each auxiliary iterator consumed before the next entry is requested (what the model '
    'transliterates), and, on in-domain inputs, all pairs collected first and the iterators consumed afterwards in '
    'reverse order (must give the same entries and chains)',
    'ELFFile keeps no state between section instantiations in the model (the code has none); the combined stream '
    'pins that by instantiating several version sections from one ELFFile in both orders',
    'histories on one section object (repeated / alternating get_version) leave the stateless answers unchanged: '
    'the model has no memo for them, as the code has none',
    'the implementation runs under the default recursion limit (1000) of a stock interpreter',
    'an entry "carries" an index when its vd_ndx / vna_other field EQUALS it (hidden bit included, no masking)']}
LEVEL = {'text': 'Machine-checked theorems, for ALL images and header tables satisfying a boolean layout predicate '
                 '(record i sits at the offset reached by following the next/aux displacements; anything else in the '
                 'image is free): version-definition and version-requirement walks yield exactly the encoded entries and '
                 'auxiliary chains in link order with names resolved through the linked string table, for any '
                 'NON-ZERO next displacements on non-last records (a zero link means "no further record"; the last link '
                 'of every chain is free), counts, classes and byte orders; when only the count is too large and the '
                 'chain\'s last entry has a zero link the walk yields exactly the entries up to it; the version-symbol '
                 'table yields exactly one '
                 '(index incl. hidden bit, symbol name) per table entry for any table length and stride, the symbol '
                 'table holding at least as many symbols; get_version '
                 'returns the first entry in link order carrying the index or None; has_indexes (first and memoised call) '
                 'equals "some auxiliary has a non-zero index". Record layouts and the versym Enum table are regenerated '
                 'from the live construct trees and proved equal to the standard tables; the hand model is pinned to the '
                 'code by a differential correspondence on padded, interleaved, shared and zero-link-ended chains, and on '
                 'files holding all three sections with different linked string tables, read through one ELFFile.',
         'design_ref': '4.15', 'technique': 'Coq proof (generic layout round trip + induction over link chains) + '
                                            'extracted-model correspondence on synthesized ELF images',
         'note': 'Trusted: Coq kernel, ExtrOcamlBasic extraction, harness (image assembly, Container->S-expression '
                 'adapters). No axioms. Modelled not verified: construct Struct/Enum machinery (reproduced by Base/Fmt.v), '
                 'BytesIO. ELF/section header decoding is taken from the harness-declared header values (C01 covers it).'}

RULE = ('cases: version-definition / version-requirement sections with 0..14 entries of 1..9 auxiliaries placed dense, '
        'with random garbage gaps, or as a random interleaving of all chains (linear extension of the link order), plus '
        'auxiliary chains shared between entries; next links of non-last records are the (always non-zero) distances, '
        'the last link of every chain is 0 or garbage; arbitrary '
        'vd_ndx / vna_other incl. 0, duplicates and the hidden bit 0x8000, garbage in every unused displacement; '
        'an "ended" stream (zero next link on an entry, sh_info claiming 1..40 more entries; certified by the '
        '*_section_ended_wf predicate, iter_versions compared with the ended_at_zero_link theorem, the rest with the '
        'model); '
        'version-symbol tables of 0..300 symbols with arbitrary index/hidden bit, reserved values, strides >= entry size, '
        'over symbol tables of the same or a larger (0..4 more) symbol count; '
        'both classes and byte orders, EI_OSABI among SYSV/Linux/Solaris/FreeBSD/OpenBSD/ARM/standalone/unknown, the '
        'image handed to ELFFile as a stream kind of tools/lib/streams.py drawn per case (BytesIO 60%, else real file '
        'plain/warm/at-EOF/16-byte buffer, mmap, gzip, decoy descriptor; malformed cases not on mmap), sections and header table in random file order at unaligned offsets, names 0..130 '
        'bytes of 1-4 byte UTF-8, string tables with or WITHOUT a leading NUL (a non-empty name at offset 0, name '
        'fields equal to 0 drawn); a depth-and-size stream (per kind one entry with ~1010 (thorough ~3000) auxiliaries and '
        'one chain of as many single-auxiliary entries, the implementation observed under CPython\'s default '
        'recursion limit of 1000); a combined stream: ONE file holding .gnu.version_d, .gnu.version_r and .gnu.version '
        '(+ symbol table), each linked to its own string table (independent tables, same-layout twins with different '
        'strings at the same offsets, or partly shared), the three sections instantiated from ONE ELFFile object '
        '(get_section / iter_sections / get_section_by_name) in a random order and, on a second ELFFile, in the '
        'reverse order, all instantiated before any is observed, each compared with its own spec, ONE such file per run with 0xff00 or more section headers (extended numbering: '
        'e_shnum = 0, count in sh_size of header 0; its header table, last in the file, is certified through '
        'C15_section_wf_any_tail); on every in-domain chain case get_version is asked again for every index on the same '
        'section object (reverse order) and twice per index with the two auxiliary iterators advanced alternately; '
        'plus a malformed stream (zero counts, counts running into garbage, zero links on '
        'non-last entries / auxiliaries counted several times, followed displacements of 2**32 - k, truncated files, '
        'wrong link types, zero entry size) compared impl vs model only. distinct = hash(kind, abstract); non-trivial = '
        'at least 2 records walked or a malformed / ended case')

SHT = {'null': 0, 'strtab': 3, 'symtab': 2, 'dynsym': 11, 'verdef': 0x6ffffffd, 'verneed': 0x6ffffffe,
       'versym': 0x6fffffff, 'progbits': 1}
# e_ident[EI_OSABI]: the version sections are read the same way whatever the OS/ABI byte says (SYSV, Linux, Solaris
# - whose SUNW version sections have the same types and layouts -, FreeBSD, OpenBSD, ARM, standalone, unknown)
OSABIS = [0, 0, 0, 3, 6, 6, 9, 12, 64, 97, 255, 0x2a]
MACHINES = [62, 3, 21, 22, 0, 0x9999]        # no private sh_type table (x86-64, i386, PPC64, S390, none, unknown)
SIZES = {'verdef': 20, 'verdaux': 8, 'verneed': 16, 'vernaux': 16}
INTERESTING_IDX = [0, 0, 1, 1, 2, 2, 3, 4, 5, 6, 0x8001, 0x8002, 0x8003, 0x7fff, 0x8000, 0xffff, 0xff00, 0xff01]


# ------------------------------------------------------------------ generation helpers
def _garbage(rng, n):
    # non-zero biased garbage: zero padding hides a reader that looks at the wrong place
    return bytes(rng.choice((rng.randint(1, 255), rng.randint(1, 255), rng.randint(0, 255))) for _ in range(n))


def _name(rng):
    L = rng.choice([0, 1, 2, 3, 5, 8, 12, 20, 30, 62, 63, 64, 65, 70, 127, 128, 130]) if rng.random() < 0.25 \
        else rng.randint(1, 14)
    out = []
    for _ in range(L):
        r = rng.random()
        if r < 0.8:
            cp = rng.randint(0x21, 0x7e)
        elif r < 0.88:
            cp = rng.randint(0xa1, 0x7ff)
        elif r < 0.96:
            cp = rng.randint(0x4e00, 0x9fff)
        else:
            cp = rng.randint(0x1f300, 0x1f6ff)
        out.append(chr(cp))
    return ''.join(out).encode('utf-8')


def _strtab(rng, count):
    """returns (blob, [(offset, bytes)...]) — names, plus suffixes of names (offset into the middle)"""
    r = rng.random()
    if r < 0.55:
        blob = bytearray(b'\0')                  # linker style: offset 0 is the empty string
        refs = [(0, b'')]
    elif r < 0.9:
        # nothing in the format requires the leading NUL: offset 0 holds a NON-EMPTY name (name fields equal to 0
        # must still be resolved through the table)
        first = _name(rng)
        while not first:
            first = _name(rng)
        blob = bytearray(first + b'\0')
        refs = [(0, first), (0, first), (len(first), b'')]
    else:
        blob = bytearray(_garbage(rng, rng.randint(1, 5)).replace(b'\0', b'\x01') + b'\0')
        refs = [(len(blob) - 1, b'')]
    for _ in range(count):
        nm = _name(rng)
        off = len(blob)
        blob += nm + b'\0'
        refs.append((off, nm))
        if len(nm) > 2 and rng.random() < 0.2:
            # an offset into the middle of a name, on a character boundary
            k = rng.randint(1, len(nm) - 1)
            while k < len(nm) and (nm[k] & 0xc0) == 0x80:
                k += 1
            refs.append((off + k, nm[k:]))
    return bytes(blob), refs


def _idx(rng, mode):
    if mode == 'zero':
        return 0
    if mode == 'small':
        return rng.choice([2, 3, 4, 5, 6, 7])
    r = rng.random()
    if r < 0.7:
        return rng.choice(INTERESTING_IDX)
    return rng.getrandbits(16)


def _u32junk(rng):
    return rng.choice([0, 0, 0xffffffff, 0xdeadbeef, rng.getrandbits(32), rng.randint(1, 64)])


def _place_chains(rng, counts, esz, asz, mode):
    """Choose offsets (relative to the section start) for n entries and their auxiliary chains.
    mode: dense (linker style), gaps (same order, garbage gaps), interleaved (random linear extension of the
    link order: entry i before entry i+1, entry i before its chain, chain in order).  Returns (ent_off, aux_off, size)."""
    def gap():
        if mode == 'dense':
            return 0
        r = rng.random()
        return 0 if r < 0.3 else rng.randint(1, 13) if r < 0.93 else rng.randint(14, 90)
    n = len(counts)
    ent_off = [None] * n
    aux_off = [[None] * c for c in counts]
    pos = gap()
    nxt = 0
    pend = {}   # entry -> next aux index
    while nxt < n or pend:
        choices = []
        if nxt < n:
            choices.append(('E', nxt))
        for i in pend:
            choices.append(('A', i))
        if mode == 'interleaved':
            kind, i = rng.choice(choices)
        else:
            # natural order: finish the open chain first
            kind, i = choices[-1] if pend else choices[0]
        if kind == 'E':
            ent_off[i] = pos
            pos += esz + gap()
            if counts[i] > 0:
                pend[i] = 0
            nxt += 1
        else:
            j = pend[i]
            aux_off[i][j] = pos
            pos += asz + gap()
            if j + 1 < counts[i]:
                pend[i] = j + 1
            else:
                del pend[i]
    return ent_off, aux_off, pos + gap()


def _twin_table(blob, refs):
    """a string table with the SAME layout (same NUL positions, same offsets) holding DIFFERENT strings: every ASCII
    character is replaced by another one, multi-byte sequences stay (still valid UTF-8)"""
    def tw(b):
        return bytes((0x21 + (x - 0x21 + 47) % 94) if 0x21 <= x <= 0x7e else x for x in b)
    return tw(blob), [(off, tw(nm)) for off, nm in refs]


def _gen_chain_case(rng, kind, big, cfg=None, tab=None, counts=None, mode=None):
    """kind: 'verdef' | 'verneed'.  Returns the abstract case.  cfg = (le, is64, machine) and tab = (strtab, refs)
    are drawn here unless given (several sections of one file)."""
    le = rng.random() < 0.5
    is64 = rng.random() < 0.5
    machine = rng.choice(MACHINES)
    if cfg:
        le, is64, machine = cfg
    r = rng.random()
    n = 0 if r < 0.05 else 1 if r < 0.2 else rng.randint(2, 6) if r < 0.85 else rng.randint(7, 14 if not big else 40)
    given = counts
    counts = []
    for _ in range(n):
        r = rng.random()
        counts.append(1 if r < 0.4 else 2 if r < 0.7 else rng.randint(3, 5) if r < 0.93 else rng.randint(6, 9))
    if given is not None:
        counts, n = list(given), len(given)
    mode = mode or rng.choice(['dense', 'gaps', 'gaps', 'interleaved', 'interleaved'])
    esz, asz = (SIZES['verdef'], SIZES['verdaux']) if kind == 'verdef' else (SIZES['verneed'], SIZES['vernaux'])
    ent_off, aux_off, size = _place_chains(rng, counts, esz, asz, mode)
    strtab, refs = tab or _strtab(rng, rng.randint(1, 6) + sum(counts) // 2)
    idx_mode = rng.choice(['zero', 'small', 'any', 'any', 'any'])
    entries = []
    for i in range(n):
        auxs = []
        for j in range(counts[i]):
            nxt = aux_off[i][j + 1] - aux_off[i][j] if j + 1 < counts[i] else _u32junk(rng)
            noff, nstr = rng.choice(refs)
            if kind == 'verdef':
                auxs.append([noff, nxt, nstr])
            else:
                other = _idx(rng, idx_mode if rng.random() < 0.85 else 'zero')
                auxs.append([rng.getrandbits(32), rng.choice([0, 0, 2, rng.getrandbits(16)]), other, noff, nxt, nstr])
        aux = aux_off[i][0] - ent_off[i]
        nxt = ent_off[i + 1] - ent_off[i] if i + 1 < n else _u32junk(rng)
        if kind == 'verdef':
            entries.append([rng.choice([1, 1, 1, rng.getrandbits(16)]), rng.choice([0, 0, 1, 2, rng.getrandbits(16)]),
                            _idx(rng, 'any' if idx_mode == 'zero' else idx_mode), rng.getrandbits(32), aux, nxt, auxs])
        else:
            foff, fstr = rng.choice(refs)
            entries.append([rng.choice([1, 1, 1, rng.getrandbits(16)]), foff, aux, nxt, fstr, auxs])
    flavour = 'plain'
    # an entry whose auxiliary pointer lands inside a LATER entry's chain (shared auxiliaries)
    if n >= 2 and given is None and rng.random() < 0.15:
        i = rng.randint(1, n - 1)
        j = rng.randint(0, i - 1)
        k = rng.randint(0, counts[i] - 1)
        c = rng.randint(1, counts[i] - k)
        shared = [list(a) for a in entries[i][-1][k:k + c]]
        entries[j][-1] = shared
        entries[j][4 if kind == 'verdef' else 2] = aux_off[i][k] - ent_off[j]
        flavour = 'shared'
    # NOTE: every non-last next link above is a distance between two increasing positions, hence non-zero
    # (a zero link ends the chain); zero links in front of counted records are made by _end_chain / _malform_chain.
    bg = _garbage(rng, size)
    # queries: every index present, their masked / hidden variants, some absent ones
    present = set()
    for e in entries:
        if kind == 'verdef':
            present.add(e[2])
        else:
            present.update(a[2] for a in e[-1])
    qs = set(present)
    for p in list(present)[:6]:
        qs.add(p & 0x7fff)
        qs.add(p | 0x8000)
    qs.update(rng.sample(range(0, 12), 3))
    qs.add(rng.getrandbits(16))
    idxs = sorted(qs)
    if len(idxs) > 14:
        idxs = sorted(rng.sample(idxs, 14))
    plan = _file_plan(rng, ['shstr', 'target', 'strtab'])
    return [le, is64, machine, entries, bg, strtab, plan, idxs, ['none'], mode + '/' + flavour, rng.choice(OSABIS),
            draw_kind(rng)]


def _gen_long_case(rng, kind, K, M):
    """depth and size: ONE entry with K auxiliaries (vd_cnt / vn_cnt are 16-bit fields) in a chain of M entries with
    one auxiliary each; a reader whose stack or time grows with the chain length shows here.  Few index queries
    (a miss or a deep hit walks the whole chain): the index carried by the deepest record and one at the front."""
    at = rng.randrange(M + 1)
    counts = [1] * at + [K] + [1] * (M - at)
    c = _gen_chain_case(rng, kind, False, counts=counts, mode=rng.choice(['dense', 'interleaved']))
    ents = c[3]
    if kind == 'verdef':
        ents[-1][2] = 0x7abc                       # a vd_ndx nobody else has (the generator draws 16-bit values)
        for e in ents[:-1]:
            if e[2] == 0x7abc:
                e[2] = 3
        deep, front = 0x7abc, ents[0][2]
    else:
        ents[at][-1][-1][2] = 0x7abc               # the LAST auxiliary of the long chain
        for e in ents:
            for a in e[-1]:
                if a[2] == 0x7abc and a is not ents[at][-1][-1]:
                    a[2] = 3
        deep, front = 0x7abc, ents[0][-1][0][2]
    # every query that misses (or hits the deepest record) walks the whole chain in model and implementation
    # (quick tier budget: the long entry chain is walked by iter_versions / has_indexes, one front query)
    c[7] = sorted({deep, front} if K > M else {front})
    # string table and target first in the file: the extracted model's reads cost O(file offset) each
    sec_order, file_order, gaps = c[6]
    c[6] = [sec_order, ['strtab', 'target'] + [r for r in file_order if r not in ('strtab', 'target')], gaps]
    c[9] = 'long/K=%d/M=%d' % (K, M)
    return c


def _file_plan(rng, roles):
    sec_order = list(roles)
    rng.shuffle(sec_order)
    file_order = list(roles) + ['SHDRS']
    rng.shuffle(file_order)
    gaps = [_garbage(rng, rng.choice([0, 0, 1, 2, 3, 5, 8, 17])) for _ in range(len(file_order) + 1)]
    return [sec_order, file_order, gaps]


def _copy_entries(entries):
    return [[(list(map(list, x)) if isinstance(x, list) else x) for x in e] for e in entries]


def _end_chain(rng, case, kind):
    """the chain is cut at entry i by a zero next link while sh_info claims more entries (the original ones and/or
    extra ones): the records behind entry i are not laid out (garbage there), the reader must stop at the zero link.
    Certified by the driver's *_section_ended_wf."""
    case = [c for c in case]
    entries = _copy_entries(case[3])
    i = rng.randrange(len(entries)) if rng.random() < 0.5 else len(entries) - 1
    entries = entries[:i + 1]
    entries[i][5 if kind == 'verdef' else 3] = 0
    extra = len(case[3]) - len(entries)
    extra += rng.randint(0 if extra else 1, 3) if rng.random() < 0.85 else rng.randint(4, 40)
    case[3] = entries
    case[8] = ['info', extra]
    case[9] = case[9] + '/ended'
    return case


def _no_mmap(case, i):
    """malformed cases read beyond the end of the file: mmap.seek raises ValueError there where every file-like
    stream just reads nothing, so they are observed on the other stream kinds"""
    if len(case) > i and case[i] == 'mmap':
        case[i] = 'file'


def _malform_chain(rng, case, kind):
    """derive an out-of-domain variant (error behaviour / garbage walk): impl vs model only"""
    case = [c for c in case]
    _no_mmap(case, 11)
    entries = _copy_entries(case[3])
    what = rng.choice(['cnt0', 'info+', 'cut', 'linktype', 'info-', 'strtab_unterminated', 'entloop', 'auxloop',
                       'wrap', 'wrap'])
    if what == 'cnt0' and entries:
        i = rng.randrange(len(entries))
        entries[i][-1] = []
        case[3] = entries
        case[8] = ['cnt0', i]
    elif what == 'entloop' and entries:
        # the last entry has next = 0 and is counted several times (abstractly: the same record again)
        entries[-1][5 if kind == 'verdef' else 3] = 0
        entries += _copy_entries([entries[-1]] * rng.randint(1, 3))
        case[3] = entries
        case[8] = ['entloop']
    elif what == 'auxloop' and entries:
        # an auxiliary has next = 0 and its entry's count claims it several times
        i = rng.randrange(len(entries))
        auxs = entries[i][-1]
        j = rng.randrange(len(auxs))
        auxs[j][1 if kind == 'verdef' else 4] = 0
        entries[i][-1] = auxs[:j + 1] + [list(auxs[j]) for _ in range(rng.randint(1, 3))]
        case[3] = entries
        case[8] = ['auxloop', i]
    elif what == 'wrap' and entries:
        # a followed displacement of 2**32 - k: offset + displacement lies beyond the file (the image is not well
        # formed; the reader must not wrap modulo 2**32 to a record k bytes BEFORE the link)
        i = rng.randrange(len(entries))
        d = 2 ** 32 - rng.choice([1, 4, 8, 16, 20, rng.randint(1, 52)])
        where = rng.choice(['aux', 'next', 'auxnext'])
        if where == 'next' and i + 1 < len(entries):
            entries[i][5 if kind == 'verdef' else 3] = d
        elif where == 'auxnext' and len(entries[i][-1]) >= 2:
            entries[i][-1][rng.randrange(len(entries[i][-1]) - 1)][1 if kind == 'verdef' else 4] = d
        else:
            entries[i][4 if kind == 'verdef' else 2] = d
        case[3] = entries
        case[8] = ['wrap', i]
    elif what == 'info+':
        case[8] = ['info', rng.randint(1, 3)]
    elif what == 'info-' and entries:
        case[8] = ['info', -rng.randint(1, len(entries))]
    elif what == 'cut':
        # the target section is put last in the file and the image is cut inside it
        sec_order, file_order, gaps = case[6]
        file_order = [r for r in file_order if r != 'target'] + ['target']
        case[6] = [sec_order, file_order, gaps]
        case[8] = ['cut', rng.randint(1, max(1, len(case[4]) + len(gaps[-1])))]
    elif what == 'linktype':
        case[8] = ['linktype', rng.choice([SHT['progbits'], SHT['null'], SHT['dynsym'], SHT['verdef']])]
    elif what == 'strtab_unterminated':
        # string table last in the file, final NUL removed: names running to EOF resolve to ''
        sec_order, file_order, gaps = case[6]
        file_order = [r for r in file_order if r != 'strtab'] + ['strtab']
        gaps = list(gaps)
        gaps[-1] = b''
        case[6] = [sec_order, file_order, gaps]
        case[5] = case[5][:-1] + b'\x41'
        case[8] = ['unterminated']
    else:
        case[8] = ['info', 1]
    return case


def _gen_versym_case(rng, big, cfg=None, tab=None):
    le = rng.random() < 0.5
    is64 = rng.random() < 0.5
    machine = rng.choice(MACHINES)
    if cfg:
        le, is64, machine = cfg
    r = rng.random()
    n = 0 if r < 0.06 else 1 if r < 0.15 else rng.randint(2, 12) if r < 0.8 else rng.randint(13, 60) if r < 0.95 \
        else rng.choice([255, 256, 257, 300, 511, 513, rng.randint(100, 300 if not big else 1500)])
    if cfg:
        n = min(n, 12)
    strtab, refs = tab or _strtab(rng, rng.randint(1, 8) + n // 3)
    symsz = 24 if is64 else 16
    vs_ent = 2 if rng.random() < 0.85 else rng.choice([3, 4, 7])
    sym_ent = symsz if rng.random() < 0.85 else symsz + rng.choice([1, 4, 8])
    wmax = 2 ** (64 if is64 else 32)
    entries = []
    for _ in range(n):
        r = rng.random()
        if r < 0.35:
            v = [rng.choice([0, 1]), 0]
        elif r < 0.45:
            v = [rng.choice([0x7f00, 0x7f01, 0, 1, 0x7fff]), 1]       # 0xff00 / 0xff01 / 0x8000 / 0x8001 / 0xffff
        else:
            v = [rng.choice([2, 3, 4, 5, 6, 7, rng.getrandbits(15)]), int(rng.random() < 0.3)]
        noff, nstr = rng.choice(refs)
        s = [noff, rng.randint(0, 15), rng.randint(0, 15), rng.randint(0, 7), rng.randint(0, 3), rng.randint(0, 7),
             rng.choice([0, 1, 7, 0xfff1, 0xffff, rng.getrandbits(16)]),
             rng.choice([0, wmax - 1, rng.randrange(wmax)]), rng.choice([0, 8, rng.randrange(wmax)]), nstr]
        entries.append([v, s])
    vs_bg = _garbage(rng, n * vs_ent)
    # the symbol table may hold more symbols than the version table has entries (garbage symbols behind)
    sym_extra = 0 if rng.random() < 0.7 else rng.randint(1, 4)
    sym_bg = _garbage(rng, (n + sym_extra) * sym_ent)
    symtype = SHT['dynsym'] if rng.random() < 0.8 else SHT['symtab']
    plan = _file_plan(rng, ['shstr', 'target', 'symtab', 'strtab'])
    return [le, is64, machine, entries, vs_ent, sym_ent, vs_bg, sym_bg, strtab, symtype, plan, ['none'],
            rng.choice(OSABIS), draw_kind(rng)]


def _malform_versym(rng, case):
    case = list(case)
    _no_mmap(case, 13)
    what = rng.choice(['entsize0', 'vs_longer', 'symtype', 'strtype', 'sym_entsize0', 'sym_size', 'cut'])
    n = len(case[3])
    if what == 'entsize0':
        case[11] = ['vs_entsize', 0]
    elif what == 'vs_longer':
        case[11] = ['vs_extra', rng.randint(1, 3)]           # more version entries than symbols
    elif what == 'symtype':
        case[11] = ['symtype', rng.choice([SHT['strtab'], SHT['progbits'], SHT['versym']])]
    elif what == 'strtype':
        case[11] = ['strtype', rng.choice([SHT['progbits'], SHT['dynsym']])]
    elif what == 'sym_entsize0':
        case[11] = ['sym_entsize', 0]
    elif what == 'sym_size':
        case[11] = ['sym_size_plus', rng.randint(1, 5)]      # size not a multiple of the entry size
    else:
        sec_order, file_order, gaps = case[10]
        last = rng.choice(['target', 'symtab'])
        file_order = [r for r in file_order if r != last] + [last]
        case[10] = [sec_order, file_order, gaps]
        case[11] = ['cut', rng.randint(1, 30)]
    return case


COMBO_ROLES = ['shstr', 'vdef', 'vneed', 'versym', 'symtab', 'strd', 'strn', 'strs']


def _gen_combo_case(rng, big):
    """ONE file holding .gnu.version_d, .gnu.version_r and .gnu.version (+ its symbol table), each name-resolving
    section linked to its OWN string table.  The three tables are independent, or same-layout twins (different
    strings at the same offsets), or (sometimes) shared.  [order] is the order in which the three sections are
    instantiated from one ELFFile (the harness also runs the reverse order), [how] the way they are obtained."""
    cfg = (rng.random() < 0.5, rng.random() < 0.5, rng.choice(MACHINES))
    tabs = rng.choice(['twins', 'twins', 'independent', 'independent', 'shared_dn', 'shared_ds'])
    td = _strtab(rng, rng.randint(2, 9))
    if tabs == 'twins':
        tn = _twin_table(*td)
        ts = _twin_table(*tn)
    elif tabs == 'independent':
        tn, ts = _strtab(rng, rng.randint(2, 9)), _strtab(rng, rng.randint(2, 9))
    elif tabs == 'shared_dn':
        tn, ts = td, _twin_table(*td)
    else:
        tn, ts = _twin_table(*td), td
    d = _gen_chain_case(rng, 'verdef', False, cfg, td)
    while not d[3]:
        d = _gen_chain_case(rng, 'verdef', False, cfg, td)
    n = _gen_chain_case(rng, 'verneed', False, cfg, tn)
    while not n[3]:
        n = _gen_chain_case(rng, 'verneed', False, cfg, tn)
    v = _gen_versym_case(rng, False, cfg, ts)
    order = ['vdef', 'vneed', 'versym']
    rng.shuffle(order)
    how = rng.choice(['get_section', 'get_section', 'iter_sections', 'by_name'])
    plan = _file_plan(rng, COMBO_ROLES)
    return [cfg[0], cfg[1], cfg[2],
            [d[3], d[4], d[5], d[7]], [n[3], n[4], n[5], n[7]],
            [v[3], v[4], v[5], v[6], v[7], v[8], v[9]],
            plan, order, how, tabs, ['none'], rng.choice(OSABIS), draw_kind(rng)]


def _malform_combo(rng, case):
    """one of the three string tables gets a non-STRTAB type: instantiating the section(s) linked to it must fail,
    the others must not be affected (impl vs model only)"""
    case = list(case)
    _no_mmap(case, 12)
    case[8] = 'get_section'
    case[10] = ['linktype', rng.choice(['strd', 'strn', 'strs']), rng.choice([SHT['progbits'], SHT['null'], SHT['dynsym']])]
    return case


def gen(ctx):
    rng = ctx.rng
    big = ctx.tier == 'thorough'
    N = ctx.scale(260, 4000)
    cases = []
    for kind in ('verdef', 'verneed'):
        for _ in range(N):
            c = _gen_chain_case(rng, kind, big)
            cases.append((kind, c))
            if rng.random() < 0.15:
                cases.append((kind + '_malformed', _malform_chain(rng, c, kind)))
            if c[3] and rng.random() < 0.12:
                cases.append((kind + '_ended', _end_chain(rng, c, kind)))
    for _ in range(N):
        c = _gen_versym_case(rng, big)
        cases.append(('versym', c))
        if rng.random() < 0.15:
            cases.append(('versym_malformed', _malform_versym(rng, c)))
    # depth and size: one entry with a very long auxiliary chain; a very long chain of entries
    K = ctx.scale(1010, 3000)
    for kind in ('verdef', 'verneed'):
        cases.append((kind + '_long', _gen_long_case(rng, kind, K + rng.randint(0, 40), rng.randint(3, 12))))
        cases.append((kind + '_long', _gen_long_case(rng, kind, 1, K + rng.randint(0, 40))))
    # extended section numbering: ONE forced file with 0xff00 or more section headers (e_shnum = 0, the count in
    # sh_size of header 0) carrying the three version sections; every sh_link must still be followed
    c = _gen_combo_case(rng, big)
    c[8] = 'get_section'
    c[6] = [c[6][0], [r for r in c[6][1] if r != 'SHDRS'] + ['SHDRS'], c[6][2]]     # the 2.6 / 4 MB table last
    c.append(0xff00 - len(COMBO_ROLES) - 1 + rng.choice([0, 0, 1, 37]))
    cases.append(('combo', c))
    for _ in range(ctx.scale(110, 1500)):
        c = _gen_combo_case(rng, big)
        cases.append(('combo', c))
        if rng.random() < 0.1:
            cases.append(('combo_malformed', _malform_combo(rng, c)))
    return cases


# ------------------------------------------------------------------ image assembly
def _overlay(buf, off, data):
    if off < 0:
        return
    if off + len(data) > len(buf):
        buf.extend(b'\xcc' * (off + len(data) - len(buf)))
    buf[off:off + len(data)] = data


def _chain_section(kind, entries, bg, enc):
    """copy every record to the offset reached by following the displacements (walk order)"""
    buf = bytearray(bg)
    esz, asz = (20, 8) if kind == 'verdef' else (16, 16)
    off = 0
    for e, (ebytes, abytes) in zip(entries, enc):
        if off > 1 << 20:
            break
        _overlay(buf, off, ebytes)
        aoff = off + (e[4] if kind == 'verdef' else e[2])
        for a, ab in zip(e[-1], abytes):
            if aoff > 1 << 20:
                break
            _overlay(buf, aoff, ab)
            aoff += a[1] if kind == 'verdef' else a[4]
        off += e[5] if kind == 'verdef' else e[3]
    return bytes(buf)


SHSTR_NAMES = {'shstr': b'.shstrtab', 'strtab': b'.dynstr', 'symtab': b'.dynsym',
               'verdef': b'.gnu.version_d', 'verneed': b'.gnu.version_r', 'versym': b'.gnu.version'}


class _Image:
    """file plan -> section offsets; the header bytes come from the driver in a second round"""
    def __init__(self, le, is64, machine, plan, secs, cut=0, osabi=0, extra_null=0):
        # secs: role -> dict(type, data, link_role, info, entsize, name)
        self.le, self.is64, self.machine, self.osabi = le, is64, machine, osabi
        sec_order, file_order, gaps = plan
        # extra_null: that many further SHT_NULL headers (all zero bytes) behind the real ones; with 0xff00 or more
        # headers in all the file uses extended numbering: e_shnum = 0, the count is sh_size of header 0
        self.extra_null = extra_null
        self.roles = ['null'] + list(sec_order)
        self.index = {r: i for i, r in enumerate(self.roles)}
        self.secs = secs
        shstr = bytearray(b'\0')
        self.name_off = {}
        for r in sec_order:
            self.name_off[r] = len(shstr)
            shstr += secs[r]['name'] + b'\0'
        secs['shstr']['data'] = bytes(shstr)
        ehsize = 64 if is64 else 52
        self.shentsize = 64 if is64 else 40
        self.ehsize = ehsize
        body = bytearray()
        self.offset = {}
        self.shoff = 0
        for r, g in zip(file_order, gaps):
            body += g
            if r == 'SHDRS':
                self.shoff = ehsize + len(body)
                body += b'\0' * (self.shentsize * (len(self.roles) + extra_null))
            else:
                self.offset[r] = ehsize + len(body)
                body += secs[r]['data']
        body += gaps[len(file_order)] if len(gaps) > len(file_order) else b''
        self.body = body
        # a cut never reaches the section header table (headers reach the model decoded): at most the trailing
        # gap and the last section's content go
        last = file_order[-1]
        room = len(gaps[len(file_order)] if len(gaps) > len(file_order) else b'') + \
            (len(secs[last]['data']) if last != 'SHDRS' else 0)
        self.cut = min(cut, room)

    def header_reqs(self):
        le, is64 = self.le, self.is64
        reqs = [['enc', le, is64, 'Ehdr',
                 [b'\x7fELF', 2 if is64 else 1, 1 if le else 2, 1, self.osabi, 0, b'\0' * 7, 3, self.machine, 1, 0, 0, self.shoff, 0,
                  self.ehsize, 0, 0, self.shentsize, self.total() if self.total() < 0xff00 else 0, self.index['shstr']]]]
        for r in self.roles:
            if r == 'null':
                reqs.append(['enc', le, is64, 'Shdr', [0, 0, 0, 0, 0, self.total() if self.total() >= 0xff00 else 0,
                                                       0, 0, 0, 0]])
            else:
                s = self.secs[r]
                reqs.append(['enc', le, is64, 'Shdr',
                             [self.name_off[r], s['type'], s.get('flags', 2), 0, self.offset[r],
                              s.get('size', len(s['data'])), self.link_of(r), s.get('info', 0), 1, s.get('entsize', 0)]])
        return reqs

    def total(self):
        return len(self.roles) + self.extra_null

    def link_of(self, r):
        lr = self.secs[r].get('link_role')
        return self.index[lr] if lr else 0

    def shdr_abstract(self):
        out = []
        for r in self.roles:
            if r == 'null':
                out.append([0, 0, 0, 0, 0, 0])
            else:
                s = self.secs[r]
                out.append([s['type'], self.offset[r], s.get('size', len(s['data'])), s.get('entsize', 0),
                            self.link_of(r), s.get('info', 0)])
        if self.total() >= 0xff00:
            out[0] = [0, 0, self.total(), 0, 0, 0]
        return out + [[0, 0, 0, 0, 0, 0]] * self.extra_null

    def finish(self, header_encs):
        ok = all(e[0] == 1 for e in header_encs)
        img = bytearray(header_encs[0][1]) + self.body
        for i, e in enumerate(header_encs[1:]):
            p = self.shoff + i * self.shentsize
            img[p:p + self.shentsize] = e[1]
        if self.cut:
            img = img[:max(self.ehsize, len(img) - self.cut)]
        return bytes(img), ok


# ------------------------------------------------------------------ observing the implementation
PY_DEFAULT_RECURSION_LIMIT = 1000


def _stock_interpreter(f):
    """the implementation is observed under CPython's DEFAULT recursion limit (./check raises it for its own
    S-expression code): a reader whose stack depth grows with the length of a chain must show as RecursionError"""
    import functools
    import sys

    @functools.wraps(f)
    def g(*a, **kw):
        old = sys.getrecursionlimit()
        sys.setrecursionlimit(PY_DEFAULT_RECURSION_LIMIT)
        try:
            return f(*a, **kw)
        finally:
            sys.setrecursionlimit(old)
    return g


def _rec(entry):
    return [[k, v] for k, v in entry.items()]


def _nm(s):
    return 'none' if s is None else s.encode('utf-8')


HIST_NAMES = ['iter_versions_deferred', 'get_version_again', 'get_version_two_live_answers']
STREAMS = [None]     # the Streams() of the running evaluate() call (temporary files removed when it ends)


def _stream(img, sk):
    """the image as the stream kind [sk] of tools/lib/streams.py (same bytes whatever the kind)"""
    if STREAMS[0] is None or sk == 'bytesio':
        return io.BytesIO(img)
    return STREAMS[0].open(img, sk)


def _chain_opener(kind, img, n, elf=None, sk='bytesio'):
    """() -> section object n as a GNUVerDef/GNUVerNeedSection; from a fresh ELFFile, or from the given one"""
    from elftools.elf.elffile import ELFFile
    from elftools.elf.gnuversions import GNUVerDefSection, GNUVerNeedSection
    cls = GNUVerDefSection if kind == 'verdef' else GNUVerNeedSection
    tag = 'not-a-' + cls.__name__

    def open_sec():
        f = elf if elf is not None else ELFFile(_stream(img, sk))
        sec = f.get_section(n)
        if not isinstance(sec, cls):
            raise type(tag, (Exception,), {})()
        return sec
    return open_sec


@_stock_interpreter
def _impl_chain(kind, img, n, idxs, elf=None, sec=None, sk='bytesio'):
    """sec: an already instantiated section (or the error list of its instantiation); elf: the ELFFile further
    section objects are taken from (has_indexes is observed on a second object of the same file)"""
    open_sec = _chain_opener(kind, img, n, elf, sk)
    if sec is None:
        sec = impl_call(open_sec)
    if isinstance(sec, list):
        return ([sec, sec, [sec for _ in idxs]] + ([sec] if kind == 'verneed' else []),
                [sec, [sec for _ in idxs], [sec for _ in idxs]])

    def walk_deferred():
        # all (entry, auxiliary iterator) pairs are collected FIRST, the iterators are consumed afterwards
        # (last entry first): every iterator must still walk its own entry's chain
        pairs = list(sec.iter_versions())
        auxs = {}
        for k in reversed(range(len(pairs))):
            auxs[k] = [[_rec(a.entry), _nm(a.name)] for a in pairs[k][1]]
        return ['ok', [[_rec(v.entry), _nm(v.name) if v.name is None else ['some', _nm(v.name)], auxs[k]]
                       for k, (v, _) in enumerate(pairs)]]

    def walk():
        out = []
        for v, it in sec.iter_versions():
            auxs = [[_rec(a.entry), _nm(a.name)] for a in it]
            out.append([_rec(v.entry), _nm(v.name) if v.name is None else ['some', _nm(v.name)], auxs])
        return ['ok', out]

    def getv(i):
        r = sec.get_version(i)
        if r is None:
            return ['ok', 'none']
        if kind == 'verdef':
            v, it = r
            return ['ok', ['some', [_rec(v.entry), 'none', [[_rec(a.entry), _nm(a.name)] for a in it]]]]
        v, a = r
        return ['ok', ['some', [_rec(v.entry), _nm(v.name), [_rec(a.entry), _nm(a.name)]]]]
    res = [impl_call(walk), impl_call(lambda: ['ok', sec.num_versions()]), [impl_call(getv, i) for i in idxs]]

    def getv_pair(i):
        # two live answers for ONE index on the same section object, their auxiliary iterators advanced alternately:
        # each caller must see the whole chain (an answer is not a shared one-shot iterator)
        r1, r2 = sec.get_version(i), sec.get_version(i)
        if r1 is None or r2 is None:
            return ['ok', 'none'] if r1 is None and r2 is None else ['ok', ['mismatch', repr(r1), repr(r2)]]
        if kind != 'verdef':
            o = [['ok', ['some', [_rec(v.entry), _nm(v.name), [_rec(a.entry), _nm(a.name)]]]] for v, a in (r1, r2)]
            return o[0] if o[0] == o[1] else ['ok', ['mismatch', o[0], o[1]]]
        its, got, live = [iter(r1[1]), iter(r2[1])], [[], []], [True, True]
        while live[0] or live[1]:
            for k in (0, 1):
                if live[k]:
                    try:
                        a = next(its[k])
                        got[k].append([_rec(a.entry), _nm(a.name)])
                    except StopIteration:
                        live[k] = False
        o = [['ok', ['some', [_rec(r[0].entry), 'none', got[k]]]] for k, r in enumerate((r1, r2))]
        return o[0] if o[0] == o[1] else ['ok', ['mismatch', o[0], o[1]]]
    # the same questions again on the same object, last index first (every answer consumed the first time round)
    again = [impl_call(getv, i) for i in reversed(idxs)][::-1]
    paired = [impl_call(getv_pair, i) for i in idxs]
    if kind == 'verneed':
        sec2 = impl_call(open_sec)   # a fresh object: get_version/iter_versions above do not touch the memo, but keep it clean
        if isinstance(sec2, list):
            res.append(sec2)
        else:
            r1 = impl_call(lambda: ['ok', int(sec2.has_indexes())])
            r2 = impl_call(lambda: ['ok', int(sec2.has_indexes())])
            res.append(['ok', [r1, r2]])
    return res, [impl_call(walk_deferred), again, paired]


def _versym_opener(img, n, elf=None, sk='bytesio'):
    from elftools.elf.elffile import ELFFile
    from elftools.elf.gnuversions import GNUVerSymSection

    def open_sec():
        f = elf if elf is not None else ELFFile(_stream(img, sk))
        sec = f.get_section(n)
        if not isinstance(sec, GNUVerSymSection):
            raise type('not-a-GNUVerSymSection', (Exception,), {})()
        return sec
    return open_sec


@_stock_interpreter
def _impl_versym(img, n, elf=None, sec=None, sk='bytesio'):
    if sec is None:
        sec = impl_call(_versym_opener(img, n, elf, sk))
    if isinstance(sec, list):
        return [sec, sec]
    walk = impl_call(lambda: ['ok', [[s['ndx'], _nm(s.name)] for s in sec.iter_symbols()]])
    num = impl_call(lambda: ['ok', sec.num_symbols()])
    return [walk, num]


# ------------------------------------------------------------------ evaluation
def _replace_invalid_utf8(x):
    """the library decodes names with errors='replace'; on garbage walks (out-of-domain only) the model's raw name
    bytes are passed through the same replacement before the comparison (identity on valid UTF-8)"""
    if isinstance(x, (bytes, bytearray)):
        return bytes(x).decode('utf-8', errors='replace').encode('utf-8')
    if isinstance(x, (list, tuple)):
        return [_replace_invalid_utf8(y) for y in x]
    return x


def _first_diff(names, a, b):
    for nm, x, y in zip(names, a, b):
        if x != y:
            return nm
    return None


# ------------------------------------------------------------------ linker-made files of the pinned test corpus
CORPUS_DIRS = ['test/testfiles_for_unittests', 'test/testfiles_for_readelf', 'test/testfiles_for_location_info',
               'test/testfiles_for_dwarfdump']
CORPUS_MAX = 72000


def corpus(ctx):
    """every version section of every small ELF file shipped with the library's tests (dense linker layout, real
    names).  The abstract records are GUESSED from the bytes by an untrusted walker below; a case counts as in-domain
    only when the Coq layout predicate accepts (image, guessed records), so a wrong guess can only lose a case."""
    import os
    from tools.lib.framework import REPO
    from elftools.elf.elffile import ELFFile
    out = []
    seen = set()
    for d in CORPUS_DIRS:
        full = os.path.join(str(REPO), d)
        if not os.path.isdir(full):
            continue
        for fn in sorted(os.listdir(full)):
            p = os.path.join(full, fn)
            if fn in seen or not os.path.isfile(p) or os.path.getsize(p) > CORPUS_MAX:
                continue
            try:
                with open(p, 'rb') as f:
                    elf = ELFFile(f)
                    for i in range(elf.num_sections()):
                        t = elf._get_section_header(i)['sh_type']
                        if t in ('SHT_GNU_verdef', 'SHT_GNU_verneed', 'SHT_GNU_versym'):
                            seen.add(fn)
                            out.append(('file_' + t[8:], [d + '/' + fn, i, draw_kind(ctx.rng)]))
            except Exception:
                continue
    return out


def _guess_records(base, data, le, is64, shdrs, n):
    """untrusted: read the records the way the STANDARD says (certified afterwards by the Coq predicate)"""
    import struct
    E = '<' if le else '>'
    h = shdrs[n]

    def cstr(off):
        end = data.find(b'\0', off)
        if end < 0:
            raise ValueError('unterminated')
        return data[off:end]
    if base in ('verdef', 'verneed'):
        stroff = shdrs[h[4]][1]
        off = h[1]
        out = []
        for _ in range(h[5]):
            if base == 'verdef':
                version, flags, ndx, cnt, hsh, aux, nxt = struct.unpack_from(E + 'HHHHIII', data, off)
            else:
                version, cnt, file, aux, nxt = struct.unpack_from(E + 'HHIII', data, off)
            auxs = []
            ao = off + aux
            for _ in range(cnt):
                if base == 'verdef':
                    name, anext = struct.unpack_from(E + 'II', data, ao)
                    auxs.append([name, anext, cstr(stroff + name)])
                else:
                    ahash, aflags, other, name, anext = struct.unpack_from(E + 'IHHII', data, ao)
                    auxs.append([ahash, aflags, other, name, anext, cstr(stroff + name)])
                ao += anext
            out.append([version, flags, ndx, hsh, aux, nxt, auxs] if base == 'verdef'
                       else [version, file, aux, nxt, cstr(stroff + file), auxs])
            off += nxt
        return out
    sy = shdrs[h[4]]
    stroff = shdrs[sy[4]][1]
    out = []
    for i in range(h[2] // h[3]):
        (v,) = struct.unpack_from(E + 'H', data, h[1] + i * h[3])
        so = sy[1] + i * sy[3]
        if is64:
            name, info, other, shndx, value, size = struct.unpack_from(E + 'IBBHQQ', data, so)
        else:
            name, value, size, info, other, shndx = struct.unpack_from(E + 'IIIBBH', data, so)
        out.append([[v & 0x7fff, v >> 15],
                    [name, info >> 4, info & 15, other >> 5, (other >> 3) & 3, other & 7, shndx, value, size,
                     cstr(stroff + name)]])
    return out


def _evaluate_files(ctx, cases):
    import os
    from tools.lib import sx
    from tools.lib.framework import REPO
    from elftools.elf.elffile import ELFFile
    reqs = []
    work = []
    for kind, a in cases:
        rel, n = a[0], a[1]
        base = kind[5:]
        data = open(os.path.join(str(REPO), rel), 'rb').read()
        elf = ELFFile(io.BytesIO(data))
        le, is64 = elf.little_endian, elf.elfclass == 64
        # header values as the library itself decodes them (header decoding is C01's subject)
        shdrs = []
        for i in range(elf.num_sections()):
            hd = elf._get_section_header(i)
            t = hd['sh_type']
            shdrs.append([t if isinstance(t, int) else elf.structs.Elf_Shdr.subcons[1].encoding.get(t, 0),
                          hd['sh_offset'], hd['sh_size'], hd['sh_entsize'], hd['sh_link'], hd['sh_info']])
        try:
            recs = _guess_records(base, data, le, is64, shdrs, n)
        except Exception:
            recs = []
        idxs = sorted({0, 1, 2, 3, 4, 5, 6, 7, 8, 0x8002, 0x8004} |
                      ({a[2] for e in recs for a in e[-1]} if base == 'verneed' else
                       {e[2] for e in recs} if base == 'verdef' else set()))
        if base == 'versym':
            reqs.append(['versym', le, is64, data, shdrs, n, recs])
        else:
            reqs.append([base, le, is64, data, shdrs, n, recs, idxs])
        work.append((base, data, n, idxs, recs))
    answers = ctx.driver.batch(reqs)
    for (kind, a), (base, data, n, idxs, recs), ans in zip(cases, work, answers):
        wf = ans[0] == 1
        sk = a[2] if len(a) > 2 and (wf or a[2] != 'mmap') else 'bytesio'
        ctx.bump('stream_kind', sk)
        if base == 'versym':
            names = ['iter_symbols', 'num_symbols']
            model, spec = [ans[1], ans[3]], [ans[2], ans[4]]
            impl = _impl_versym(data, n, sk=sk)
        else:
            names = ['iter_versions', 'num_versions', 'get_version'] + (['has_indexes'] if base == 'verneed' else [])
            model = [ans[1], ans[3], ans[5]] + ([ans[7]] if base == 'verneed' else [])
            spec = [ans[2], ans[4], ans[6]] + ([ans[8]] if base == 'verneed' else [])
            impl, deferred = _impl_chain(base, data, n, idxs, sk=sk)
            if wf:
                names, impl = names + HIST_NAMES, impl + deferred
                model, spec = model + [model[0], model[2], model[2]], spec + [spec[0], spec[2], spec[2]]
        ctx.bump('corpus_file_sections', kind + (':certified' if wf else ':not-certified'))
        comp = _first_diff(names, sx.canon(impl), sx.canon(spec if wf else model))
        ctx.record(kind, a, impl=impl, spec=spec if wf else model, model=model, in_domain=wf,
                   nontrivial=len(recs) >= 2, key='%s/%s' % (base, comp or 'agree'))


def evaluate(ctx, cases):
    with Streams(prefix='pv-streams-c15-') as S:
        STREAMS[0] = S
        try:
            files = [c for c in cases if c[0].startswith('file_')]
            if files:
                _evaluate_files(ctx, files)
                S.drop_files()
            combos = [c for c in cases if c[0].startswith('combo')]
            for i in range(0, len(combos), 400):
                _evaluate_combo(ctx, combos[i:i + 400])
                S.drop_files()
            cases = [c for c in cases if not c[0].startswith('file_') and not c[0].startswith('combo')]
            # bounded batches keep the driver's request/answer texts small in the thorough tier
            for i in range(0, len(cases), 1500):
                _evaluate(ctx, cases[i:i + 1500])
                S.drop_files()
        finally:
            STREAMS[0] = None


def _evaluate(ctx, cases):
    from tools.lib import sx
    drv = ctx.driver
    # ---- round 1: record bytes from the Coq spec encoders
    reqs = []
    spans = []
    for kind, c in cases:
        st = len(reqs)
        base = kind.split('_')[0]
        le, is64 = c[0], c[1]
        if base in ('verdef', 'verneed'):
            for e in c[3]:
                reqs.append(['enc_' + base, le, is64, e])
                for a in e[-1]:
                    reqs.append(['enc_verdaux' if base == 'verdef' else 'enc_vernaux', le, is64, a])
        else:
            for v, s in c[3]:
                reqs.append(['enc_versym', le, is64, v])
                reqs.append(['enc_dynsym', le, is64, s])
        spans.append((st, len(reqs)))
    encs = drv.batch(reqs)
    # ---- assemble section contents, plan the files
    images = []
    hreqs = []
    hspans = []
    for (kind, c), (st, en) in zip(cases, spans):
        base = kind.split('_')[0]
        e = encs[st:en]
        fits = all(x[0] == 1 for x in e)
        le, is64, machine = c[0], c[1], c[2]
        if base in ('verdef', 'verneed'):
            entries, bg, strtab, plan, idxs, mal = c[3], c[4], c[5], c[6], c[7], c[8]
            k = 0
            per = []
            for ent in entries:
                eb = e[k][1]
                k += 1
                ab = [x[1] for x in e[k:k + len(ent[-1])]]
                k += len(ent[-1])
                per.append((eb, ab))
            data = _chain_section(base, entries, bg, per)
            info = len(entries) + (mal[1] if mal[0] == 'info' else 0)
            secs = {'shstr': dict(type=SHT['strtab'], data=b'', name=SHSTR_NAMES['shstr'], flags=0),
                    'target': dict(type=SHT[base], data=data, link_role='strtab', info=max(info, 0),
                                   name=SHSTR_NAMES[base]),
                    'strtab': dict(type=mal[1] if mal[0] == 'linktype' else SHT['strtab'], data=strtab,
                                   name=SHSTR_NAMES['strtab'])}
            im = _Image(le, is64, machine, plan, secs, cut=mal[1] if mal[0] == 'cut' else 0,
                        osabi=c[10] if len(c) > 10 else 0)
        else:
            entries, vs_ent, sym_ent, vs_bg, sym_bg, strtab, symtype, plan, mal = c[3:12]
            vbuf = bytearray(vs_bg)
            sbuf = bytearray(sym_bg)
            for i in range(len(entries)):
                _overlay(vbuf, i * vs_ent, e[2 * i][1])
                _overlay(sbuf, i * sym_ent, e[2 * i + 1][1])
            n = len(entries)
            vsize = n * vs_ent
            ssize = max(n, len(sym_bg) // sym_ent) * sym_ent      # whole symbols, at least one per version entry
            if mal[0] == 'vs_extra':
                vbuf += _fixed_garbage(mal[1] * vs_ent)
                vsize = len(vbuf)
            vdata = bytes(vbuf[:max(vsize, 0)]) if vs_ent else bytes(vbuf)
            sdata = bytes(sbuf[:ssize])
            tsec = dict(type=SHT['versym'], data=vdata, link_role='symtab', info=0, size=vsize,
                        entsize=mal[1] if mal[0] == 'vs_entsize' else vs_ent, name=SHSTR_NAMES['versym'])
            ssec = dict(type=mal[1] if mal[0] == 'symtype' else symtype, data=sdata, link_role='strtab', info=1,
                        size=ssize + (mal[1] if mal[0] == 'sym_size_plus' else 0),
                        entsize=mal[1] if mal[0] == 'sym_entsize' else sym_ent, name=SHSTR_NAMES['symtab'])
            secs = {'shstr': dict(type=SHT['strtab'], data=b'', name=SHSTR_NAMES['shstr'], flags=0),
                    'target': tsec, 'symtab': ssec,
                    'strtab': dict(type=mal[1] if mal[0] == 'strtype' else SHT['strtab'], data=strtab,
                                   name=SHSTR_NAMES['strtab'])}
            im = _Image(le, is64, machine, plan, secs, cut=mal[1] if mal[0] == 'cut' else 0,
                        osabi=c[12] if len(c) > 12 else 0)
        hr = im.header_reqs()
        hspans.append((len(hreqs), len(hreqs) + len(hr)))
        hreqs += hr
        images.append((im, fits))
    hencs = drv.batch(hreqs)
    # ---- round 3: wf / model / spec on the final image
    creqs = []
    built = []
    for (kind, c), (im, fits), (st, en) in zip(cases, images, hspans):
        base = kind.split('_')[0]
        img, hok = im.finish(hencs[st:en])
        n = im.index['target']
        shdrs = im.shdr_abstract()
        if base in ('verdef', 'verneed'):
            creqs.append([base, c[0], c[1], img, shdrs, n, c[3], c[7]])
        else:
            creqs.append(['versym', c[0], c[1], img, shdrs, n, c[3]])
        built.append((img, n, fits and hok))
    answers = drv.batch(creqs)
    # ---- the implementation, and the verdicts
    for (kind, c), (img, n, fits), ans in zip(cases, built, answers):
        base = kind.split('_')[0]
        ki = 11 if base in ('verdef', 'verneed') else 13
        sk = c[ki] if len(c) > ki else 'bytesio'
        wf = ans[0] == 1 and fits
        if base in ('verdef', 'verneed'):
            idxs = c[7]
            names = ['iter_versions', 'num_versions', 'get_version'] + (['has_indexes'] if base == 'verneed' else [])
            model = [ans[1], ans[3], ans[5]] + ([ans[7]] if base == 'verneed' else [])
            spec = [ans[2], ans[4], ans[6]] + ([ans[8]] if base == 'verneed' else [])
            impl, deferred = _impl_chain(base, img, n, idxs, sk=sk)
            nrec = sum(1 + len(e[-1]) for e in c[3])
            ctx.bump(base + '_entries', len(c[3]) if len(c[3]) < 7 else '7+')
            ctx.bump(base + '_placement', c[9] if len(c) > 9 else '?')
            ctx.bump('max_aux', max([len(e[-1]) for e in c[3]] or [0]))
        else:
            names = ['iter_symbols', 'num_symbols']
            model = [ans[1], ans[3]]
            spec = [ans[2], ans[4]]
            impl = _impl_versym(img, n, sk=sk)
            nrec = len(c[3])
            ctx.bump('versym_len', nrec if nrec < 3 else '3-12' if nrec <= 12 else '13-60' if nrec <= 60 else '100+')
            ctx.bump('versym_strides', '%d/%d' % (c[4], c[5] - (24 if c[1] else 16)))
            ctx.bump('versym_symbols_beyond_table', max(0, len(c[7]) // c[5] - nrec))
        malformed = kind.endswith('_malformed')
        ended = kind.endswith('_ended')
        in_domain = wf and not malformed
        if ended:
            # inside the quantifier of C15_<base>_ended_at_zero_link: that theorem speaks about iter_versions only
            # (its value is the same view list, ans[2]); every other observation is compared with the model
            in_domain = fits and ans[7 if base == 'verdef' else 9] == 1
            spec = [spec[0]] + model[1:]
        if in_domain and base in ('verdef', 'verneed'):
            # in-domain only (on malformed chains the two consumption orders legitimately meet different errors first)
            names, impl = names + HIST_NAMES, impl + deferred
            model, spec = model + [model[0], model[2], model[2]], spec + [spec[0], spec[2], spec[2]]
        ctx.bump('class/order', ('64' if c[1] else '32') + ('LE' if c[0] else 'BE'))
        ctx.bump('in_domain', kind + ':' + str(in_domain))
        ctx.bump('stream_kind', sk)
        ctx.bump('EI_OSABI', img[7])
        if not malformed and not in_domain:
            ctx.bump('generator_left_domain', kind)
        if not in_domain:
            model = _replace_invalid_utf8(model)
        impl_c, spec_c = sx.canon(impl), sx.canon(spec)
        comp = _first_diff(names, impl_c, spec_c if in_domain else sx.canon(model))
        ctx.record(kind, c, impl=impl, spec=spec if in_domain else model, model=model, in_domain=in_domain,
                   nontrivial=(nrec >= 2 or malformed or ended), key='%s/%s' % (base, comp or 'agree'))


COMBO_NAMES = {'shstr': b'.shstrtab', 'vdef': b'.gnu.version_d', 'vneed': b'.gnu.version_r', 'versym': b'.gnu.version',
               'symtab': b'.dynsym', 'strd': b'.dynstr', 'strn': b'.verstr', 'strs': b'.symstr'}


@_stock_interpreter
def _impl_combo(img, index, order, how, d_idxs, n_idxs, deferred, sk='bytesio'):
    """ONE ELFFile; the three sections are instantiated in [order], only then observed (in the same order)"""
    from elftools.elf.elffile import ELFFile
    elf = impl_call(lambda: ELFFile(_stream(img, sk)))
    if isinstance(elf, list):
        return {r: elf for r in order}
    openers = {'vdef': _chain_opener('verdef', img, index['vdef'], elf),
               'vneed': _chain_opener('verneed', img, index['vneed'], elf),
               'versym': _versym_opener(img, index['versym'], elf)}
    secs = {}
    if how == 'iter_sections':
        # every section of the file is instantiated, in table order, before any is used
        allsecs = impl_call(lambda: list(elf.iter_sections()))
        for r in order:
            secs[r] = allsecs if (allsecs and allsecs[0] == 'err') else allsecs[index[r]]
    elif how == 'by_name':
        for r in order:
            secs[r] = impl_call(elf.get_section_by_name, COMBO_NAMES[r].decode())
    else:
        for r in order:
            secs[r] = impl_call(openers[r])
    out = {}
    for r in order:
        if r == 'versym':
            out[r] = _impl_versym(img, index[r], elf, secs[r])
        else:
            obs, dfr = _impl_chain('verdef' if r == 'vdef' else 'verneed', img, index[r],
                                   d_idxs if r == 'vdef' else n_idxs, elf, secs[r])
            out[r] = obs + (dfr if deferred else [])
    return out


def _evaluate_combo(ctx, cases):
    """several version sections in ONE file / ONE ELFFile object, each linked to its own string table"""
    from tools.lib import sx
    drv = ctx.driver
    reqs, spans = [], []
    for kind, c in cases:
        le, is64 = c[0], c[1]
        st = len(reqs)
        for base, part in (('verdef', c[3]), ('verneed', c[4])):
            for e in part[0]:
                reqs.append(['enc_' + base, le, is64, e])
                for a in e[-1]:
                    reqs.append(['enc_verdaux' if base == 'verdef' else 'enc_vernaux', le, is64, a])
        for v, s in c[5][0]:
            reqs.append(['enc_versym', le, is64, v])
            reqs.append(['enc_dynsym', le, is64, s])
        spans.append((st, len(reqs)))
    encs = drv.batch(reqs)
    images, hreqs, hspans = [], [], []
    for (kind, c), (st, en) in zip(cases, spans):
        e = encs[st:en]
        fits = all(x[0] == 1 for x in e)
        le, is64, machine = c[0], c[1], c[2]
        mal = c[10]
        k = 0
        datas = {}
        for base, part in (('verdef', c[3]), ('verneed', c[4])):
            per = []
            for ent in part[0]:
                eb = e[k][1]
                k += 1
                ab = [x[1] for x in e[k:k + len(ent[-1])]]
                k += len(ent[-1])
                per.append((eb, ab))
            datas[base] = _chain_section(base, part[0], part[1], per)
        ventries, vs_ent, sym_ent, vs_bg, sym_bg, s_strtab, symtype = c[5]
        vbuf, sbuf = bytearray(vs_bg), bytearray(sym_bg)
        for i in range(len(ventries)):
            _overlay(vbuf, i * vs_ent, e[k + 2 * i][1])
            _overlay(sbuf, i * sym_ent, e[k + 2 * i + 1][1])
        nv = len(ventries)
        ssize = max(nv, len(sym_bg) // sym_ent) * sym_ent

        def stype(role):
            return mal[2] if mal[0] == 'linktype' and mal[1] == role else SHT['strtab']
        secs = {'shstr': dict(type=SHT['strtab'], data=b'', name=COMBO_NAMES['shstr'], flags=0),
                'vdef': dict(type=SHT['verdef'], data=datas['verdef'], link_role='strd', info=len(c[3][0]),
                             name=COMBO_NAMES['vdef']),
                'vneed': dict(type=SHT['verneed'], data=datas['verneed'], link_role='strn', info=len(c[4][0]),
                              name=COMBO_NAMES['vneed']),
                'versym': dict(type=SHT['versym'], data=bytes(vbuf[:nv * vs_ent]), link_role='symtab', info=0,
                               size=nv * vs_ent, entsize=vs_ent, name=COMBO_NAMES['versym']),
                'symtab': dict(type=symtype, data=bytes(sbuf[:ssize]), link_role='strs', info=1, size=ssize,
                               entsize=sym_ent, name=COMBO_NAMES['symtab']),
                'strd': dict(type=stype('strd'), data=c[3][2], name=COMBO_NAMES['strd']),
                'strn': dict(type=stype('strn'), data=c[4][2], name=COMBO_NAMES['strn']),
                'strs': dict(type=stype('strs'), data=s_strtab, name=COMBO_NAMES['strs'])}
        im = _Image(le, is64, machine, c[6], secs, osabi=c[11] if len(c) > 11 else 0,
                    extra_null=c[13] if len(c) > 13 else 0)
        hr = im.header_reqs()
        hspans.append((len(hreqs), len(hreqs) + len(hr)))
        hreqs += hr
        images.append((im, fits))
    hencs = drv.batch(hreqs)
    creqs, built = [], []
    for (kind, c), (im, fits), (st, en) in zip(cases, images, hspans):
        img, hok = im.finish(hencs[st:en])
        shdrs = im.shdr_abstract()
        dimg = img
        if im.extra_null and c[6][1][-1] == 'SHDRS':
            # the megabytes of (decoded separately) section headers at the end of the file are not sent to the
            # driver: the layout predicates are monotone in the image (C15_section_wf_any_tail: wf on a prefix gives wf
            # on prefix ++ tail), so certifying the prefix certifies the file the implementation reads
            dimg = img[:im.shoff]
        creqs.append(['verdef', c[0], c[1], dimg, shdrs, im.index['vdef'], c[3][0], c[3][3]])
        creqs.append(['verneed', c[0], c[1], dimg, shdrs, im.index['vneed'], c[4][0], c[4][3]])
        creqs.append(['versym', c[0], c[1], dimg, shdrs, im.index['versym'], c[5][0]])
        built.append((img, im.index, fits and hok))
    answers = drv.batch(creqs)
    obs_names = {'vdef': ['iter_versions', 'num_versions', 'get_version'],
                 'vneed': ['iter_versions', 'num_versions', 'get_version', 'has_indexes'],
                 'versym': ['iter_symbols', 'num_symbols']}
    for j, ((kind, c), (img, index, fits)) in enumerate(zip(cases, built)):
        ad, an, av = answers[3 * j:3 * j + 3]
        malformed = kind.endswith('_malformed')
        sk = c[12] if len(c) > 12 else 'bytesio'
        in_domain = fits and ad[0] == 1 and an[0] == 1 and av[0] == 1 and not malformed
        model = {'vdef': [ad[1], ad[3], ad[5]], 'vneed': [an[1], an[3], an[5], an[7]], 'versym': [av[1], av[3]]}
        spec = {'vdef': [ad[2], ad[4], ad[6]], 'vneed': [an[2], an[4], an[6], an[8]], 'versym': [av[2], av[4]]}
        if in_domain:
            for r in ('vdef', 'vneed'):
                model[r] = model[r] + [model[r][0], model[r][2], model[r][2]]
                spec[r] = spec[r] + [spec[r][0], spec[r][2], spec[r][2]]
        order, how = list(c[7]), c[8]
        names, impl_f, model_f, spec_f = [], [], [], []
        # the same file, a fresh ELFFile per run: the three sections instantiated in [order], then in reverse order
        for tag, o in (('', order), ('reversed:', order[::-1])):
            got = _impl_combo(img, index, o, how, c[3][3], c[4][3], in_domain, sk)
            for r in ('vdef', 'vneed', 'versym'):
                nm = obs_names[r] + (HIST_NAMES if in_domain and r != 'versym' else [])
                names += ['%s%s.%s' % (tag, r, x) for x in nm]
                impl_f += got[r] if not (got[r] and got[r][0] == 'err') else [got[r]] * len(nm)
                model_f += model[r]
                spec_f += spec[r]
        if not in_domain:
            model_f = _replace_invalid_utf8(model_f)
        ctx.bump('in_domain', kind + ':' + str(in_domain))
        ctx.bump('class/order', ('64' if c[1] else '32') + ('LE' if c[0] else 'BE'))
        ctx.bump('stream_kind', sk)
        ctx.bump('EI_OSABI', img[7])
        ctx.bump('combo_tables', c[9])
        ctx.bump('combo_section_headers', 'extended (>= 0xff00)' if len(c) > 13 and c[13] else 'ordinary')
        ctx.bump('combo_instantiation', how + ':' + '>'.join(order))
        if not malformed and not in_domain:
            ctx.bump('generator_left_domain', kind)
        ref = spec_f if in_domain else model_f
        comp = _first_diff(names, sx.canon(impl_f), sx.canon(ref))
        ctx.record(kind, c, impl=impl_f, spec=ref, model=model_f, in_domain=in_domain, nontrivial=True,
                   key='combo/%s' % ((comp or 'agree').replace('reversed:', '')))


def _fixed_garbage(n):
    return bytes((37 * i + 11) % 251 + 1 for i in range(n))
