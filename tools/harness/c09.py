"""C09 correspondence: dynamic linking information, with or without section headers.
impl  = ELFFile(BytesIO) -> DynamicSection / DynamicSegment (fresh objects for every question)
model = extracted Model/C09Dynamic.v;  spec = the abstract image the generator drew (records are
encoded by the Coq gABI layouts through the driver) and Spec/C09Dyn.v (cut at DT_NULL, strings,
consistent_b / sym_consistent_b / stripped_of_b decide the domain)."""
import io, os, random, signal
from tools.lib.framework import impl_call, REPO

CLAIMED = True
CONFIG = {'assumptions': [
    'ELFFile construction beyond the ELF header (section-name string table) and the constructors of sections other '
    'than DynamicSection/StringTableSection/SymbolTableSection are assumed to succeed (C19/C02/C03 speak about them)',
    'header tables are read eagerly in the model (the library builds one object per get_segment/get_section call)',
    'a null d_ptr denotes an absent table (no table lives at virtual address 0)',
    'strings are compared as UTF-8 bytes; generated names are valid UTF-8',
    'the stripped image also has e_shstrndx = 0 (SHN_UNDEF), as the gABI prescribes for a file without section names',
    'objects are fresh: Dynamic.get_tag(n) is asked only for n < num_tags() (history dependence past the terminator is C10)',
    'the stream kind (BytesIO, buffered files, mmap, gzip, decoy descriptor) is a dimension of the correspondence only: every kind '
    'presents the same bytes, the theorems quantify over the byte list',
    'a DynamicTag is an answer already given: its string attributes are read after the stream has been closed',
    'the image with a hash table of more than 2**20 buckets is compared with the conclusion of the count theorems (its table is '
    'certified by the extracted sysv_valid / gnu_valid); the model is not run on it']}
LEVEL = {'text': 'Machine-checked theorems over unbounded inputs (Props/C09.v, no axioms): for EVERY e_machine/EI_OSABI the d_tag '
                 'dict the code builds is the platform\'s standard tag set and names every interpreted tag by its gABI number only '
                 '(C09_dtab_selection, C09_dtab_names, C09_handled_tags, C09_open_tables); the tag iterator yields exactly the entries up '
                 'to and including the first DT_NULL of ANY entry array at any offset with anything behind it, duplicates kept, both '
                 'classes/byte orders (C09_tags_exact); string-valued tags resolve to the NUL-terminated string at d_val inside the '
                 'designated table whatever follows it, for a table given by the section link and for one found through DT_STRTAB and '
                 'PT_LOAD (C09_string_in_table, C09_strings_resolved, C09_iter_tags_linked, C09_iter_tags_pointed); the pointer->offset '
                 'mapping equals the PT_LOAD rule and is unambiguous (C09_address_offset, C09_get_table_offset); the SysV and the GNU '
                 'hash symbol counts equal the true count for every valid table (C09_count_from_sysv_hash, C09_count_from_gnu_hash); the SysV '
                 'entry width the code chooses for EVERY e_machine x class is the psABIs\': 64-bit for ELF64 EM_ALPHA/EM_S390, 32-bit '
                 'elsewhere (C09_hash_width, over Gen/C09Hash.v regenerated from the live ELFStructs; /repo fix 40b6387). '
                 'views_agree: for EVERY image satisfying the boolean predicate consistent_b (every dynamic pointer lies in a PT_LOAD '
                 'whose file image contains the table; the section headers describe the same bytes; .dynamic at the segment offset or '
                 'a copy elsewhere) and EVERY stripped form of it (stripped_of_b), the DynamicSection of the original, the '
                 'DynamicSegment of the original and the DynamicSegment of the stripped image yield exactly the standard\'s reading of '
                 'tags and strings (C09_views_agree_tags) and the same relocation tables entry by entry (C09_views_agree_relocs). '
                 'For every image satisfying sym_consistent_b (additionally: SHT_DYNSYM of standard entry size linked to the same '
                 'string table, DT_SYMTAB mapped to it, names inside the table, a GNU - else SysV - hash table valid for the entry '
                 'count) the symbols enumerated from the DynamicSegment of the stripped byte image (count from the hash table, '
                 'get_symbol through DT_SYMTAB/DT_STRTAB) are exactly those of the SHT_DYNSYM section of the original '
                 '(C09_views_agree_symbols).  For every image satisfying seg_consistent_b (no SHT_DYNAMIC section at the offset of '
                 'PT_DYNAMIC: headers absent, or ANOTHER array elsewhere linked to ANOTHER string table) the DynamicSegment yields '
                 'the segment\'s own entries with the strings of the table its own DT_STRTAB/DT_STRSZ designate '
                 '(C09_segment_view_alone).  Histories on ONE object: the stateful model of Dynamic (the _num_tags cache _get_tag consults, '
                 'the suspended _iter_tags generators) answers EVERY interleaving of walks advanced one tag at a time, num_tags() '
                 'and get_tag(n) exactly as the reference for which the array is a fixed list (C09_history_exact, invariant lifted '
                 'over the run); the implementation is run on drawn histories against that model and against the stateless answers '
                 '(walk interrupted by num_tags / get_tag / num_symbols / iter_symbols / get_table_offset / get_relocation_tables '
                 '/ a second walk, then resumed).  NOT Coq theorems, pinned by correspondence only: get_symbol_by_name (the model is a '
                 'filter over the proved symbol list; the implementation is asked for names carried by several symbols first thing '
                 'on a fresh object, again after a miss and a second time on the same object, on images with real GNU/SysV hash '
                 'tables), the DynamicSection view of the foreign form, the '
                 'segment-of-the-original view of symbols, and the nearest-pointer heuristic used without hash tables (outside '
                 'the property: it cannot give the true count in general).  '
                 'The hand model is pinned to dynamic.py/hash.py/elffile.py by differential runs on synthesized images in four '
                 'forms (.dynamic at the segment offset, a copy elsewhere, a foreign array elsewhere, headers stripped) and on the seed libraries stripped by the harness.',
         'design_ref': '4.9', 'technique': 'Coq proof (induction, generic layout round trip, finite sweeps over the generated '
                                            'enum dicts) + extracted-model correspondence',
         'note': 'Trusted: Coq kernel, ExtrOcamlBasic extraction, harness, gABI reading in Spec/C09Dyn.v. No axioms. '
                 'get_symbol_by_name and get_tag(n) are pinned by correspondence only (see text).'}
RULE = ('cases: synthesized dynamic images (both classes/byte orders; common, MIPS, AArch64, Solaris and unknown machine/OS '
        'tag sets; duplicate tags; entries and garbage after the terminator; 1-3 PT_LOAD groups with distinct address deltas, '
        'decoy and duplicate segments, shuffled program headers; GNU / SysV / both / no hash table (SysV entries 64-bit wide on ELF64 EM_S390 / EM_ALPHA, which are drawn in both classes); REL/RELA/RELR/JMPREL '
        'tables) observed through three views each: DynamicSection of the image, DynamicSegment of the image, DynamicSegment '
        'of the image with e_shoff=e_shnum=e_shstrndx=0; a quarter of the images carry a copy of the array in a .dynamic section at an offset different from the segment\'s, '
        'another quarter ("foreign") carry there ANOTHER array linked to ANOTHER string table with other strings at the same '
        'indices (segment views certified by seg_consistent_b and compared against the table DT_STRTAB designates); hash tables '
        'are real ones (standard hash functions, bloom filter, buckets, chains), a third of the symbols share their name with '
        'another one, get_symbol_by_name is asked first thing on a fresh object and again after a miss; a HISTORY per case and view on '
        'ONE object: a tag walk (no type filter, the name of an entry by position, or a name ANY target gives to a code of the array / '
        'a name of an absent code) is started, k tags taken, then num_tags / get_tag(n) / num_symbols / '
        'iter_symbols / get_table_offset / get_relocation_tables / a second walk are put to the same object and the first walk '
        'resumed to its end - all answers must be the stateless ones; the walks / num_tags / get_tag part of the history is also run one '
        'tag at a time against the stateful Coq model (hrun) and its reference (rrun); every observation of the '
        'implementation is bounded by a 10 s timer; the library reads each image through a stream kind drawn per case (BytesIO, '
        'real buffered files untouched / warmed / at EOF / with a 16-byte buffer, mmap, gzip, decoy descriptor); the tags of the '
        'main walk are read AFTER their stream was closed; one forced image per run (three in the thorough tier) has a SysV or GNU '
        'hash table with more than 2**20 buckets or bloom words, its table certified by sysv_valid / gnu_valid; one forced image has a string of more than 1 MiB behind a string-valued tag '
        '(section-less, segment view), one uses extended section numbering (>= 0xff00 headers, e_shnum = 0) with .dynamic at the '
        'segment offset linked to a table that differs from the one DT_STRTAB maps to (expected strings: the Coq spec over the '
        'linked table; domain by construction); a malformed stream (no terminator, unmapped pointers, bad links, bad indices) is '
        'out of domain; plus the seed libraries.  distinct = hash(kind, abstract); non-trivial = more than 3 tags or a hash '
        'table or a relocation table')

TABLE_NAMES = ['DT_STRTAB', 'DT_SYMTAB', 'DT_HASH', 'DT_GNU_HASH', 'DT_REL', 'DT_RELA', 'DT_RELR', 'DT_JMPREL']
DT = dict(NULL=0, NEEDED=1, PLTRELSZ=2, PLTGOT=3, HASH=4, STRTAB=5, SYMTAB=6, RELA=7, RELASZ=8, RELAENT=9, STRSZ=10,
          SYMENT=11, INIT=12, FINI=13, SONAME=14, RPATH=15, SYMBOLIC=16, REL=17, RELSZ=18, RELENT=19, PLTREL=20,
          DEBUG=21, TEXTREL=22, JMPREL=23, BIND_NOW=24, RUNPATH=29, FLAGS=30, RELRSZ=35, RELR=36, RELRENT=37,
          GNU_HASH=0x6ffffef5, SUNW_FILTER=0x6000000f, FLAGS_1=0x6ffffffb, VERSYM=0x6ffffff0)
SHT = dict(NULL=0, PROGBITS=1, STRTAB=3, RELA=4, HASH=5, DYNAMIC=6, REL=9, DYNSYM=11, RELR=19, GNU_HASH=0x6ffffff6)
MACHINES = [62, 62, 3, 8, 8, 10, 183, 183, 40, 2, 21, 243, 0x7777, 22, 22, 41, 41]   # 22 = EM_S390, 41 = EM_ALPHA
OSABIS = [0, 0, 3, 6, 6, 9, 97, 0x77]
STRINGS = [b'libc.so.6', b'libm.so.6', b'libfoo.so.1', b'/opt/lib:$ORIGIN/../lib', b'x', b'caf\xc3\xa9.so',
           b'\xe4\xb8\xad\xe6\x96\x87.so', b'lib\xf0\x9f\x98\x80.so', b'a' * 70, b'printf', b'malloc', b'_init', b'fooAz', b'fooBY',
           b'b' * 63, b'c' * 64, b'd' * 65, b'e' * 130]


def _d(a):
    return {k: v for k, v in a}


def _elf_hash(name):
    """SysV hash function of the gABI (chapter 5, Hash Table)."""
    h = 0
    for c in bytearray(name):
        h = (h << 4) + c
        x = h & 0xF0000000
        if x:
            h ^= x >> 24
        h &= 0x0FFFFFFF
    return h


def _gnu_hash(name):
    """dl_new_hash of glibc / binutils (DT_GNU_HASH)."""
    h = 5381
    for c in bytearray(name):
        h = (h * 33 + c) & 0xFFFFFFFF
    return h


def _swapcase(tab):
    """another string table with other strings at the same indices (still valid UTF-8)"""
    return bytes((b ^ 0x20) if (65 <= b <= 90 or 97 <= b <= 122) else b for b in tab)


class ImplTimeout(Exception):
    pass


IMPL_SECONDS = 10


class _limit:
    """bound one observation of the implementation: a loop that does not end becomes ImplTimeout
    (reentrant: the outermost use owns the timer)"""
    depth = 0
    def __enter__(self):
        _limit.depth += 1
        if _limit.depth == 1:
            def handler(signum, frame):
                raise ImplTimeout()
            self.old = signal.signal(signal.SIGALRM, handler)
            signal.setitimer(signal.ITIMER_REAL, IMPL_SECONDS)
    def __exit__(self, *a):
        _limit.depth -= 1
        if _limit.depth == 0:
            signal.setitimer(signal.ITIMER_REAL, 0)
            signal.signal(signal.SIGALRM, self.old)
        return False


# ------------------------------------------------------------------ generation
def _gen_image(ctx, rng, malformed):
    is64 = rng.random() < 0.5
    le = rng.random() < 0.6
    w = 8 if is64 else 4
    machine = rng.choice(MACHINES)
    osabi = rng.choice(OSABIS)
    mips = machine in (8, 10)
    solaris = osabi == 6 and machine not in (8, 10, 183)
    # string table: leading NUL, strings, trailing NUL
    strs = rng.sample(STRINGS, rng.randint(2, 7))
    tab = b'\0'
    pos = {}
    for s in strs:
        pos[s] = len(tab)
        tab += s + b'\0'
    def stridx():
        s = rng.choice(strs)
        r = rng.random()
        if r < 0.15:
            return 0
        if r < 0.3 and len(s) > 1:
            # suffix sharing / the terminator itself; never inside a UTF-8 sequence
            k = rng.choice([i for i in range(1, len(s) + 1) if i == len(s) or (s[i] & 0xc0) != 0x80])
            return pos[s] + k
        return pos[s]
    # symbols
    nsym = rng.choice([0, 1, 1, 2, 3, 4, 5, 8, 13]) if rng.random() < 0.9 else None
    syms = None
    if nsym is not None:
        syms = []
        for i in range(nsym):
            if i == 0 and rng.random() < 0.8:
                syms.append([0, 0, 0, 0, 0, 0, 0, 0, 0])
            else:
                # a name carried by several symbols (versioned foo@V1 / foo@@V2) is frequent
                nm = syms[rng.randrange(len(syms))][0] if len(syms) > 1 and rng.random() < 0.35 else stridx()
                syms.append([nm, rng.getrandbits(8 * w), rng.getrandbits(8 * w if is64 else 32), rng.randrange(16),
                             rng.randrange(16), rng.randrange(8), rng.randrange(4), rng.randrange(8),
                             rng.choice([0, 1, 5, 0xfff1, 0xfff2, 0xffff, rng.randrange(0x10000)])])
    hk = rng.choice(['gnu', 'sysv', 'both', 'none', 'gnu', 'sysv'])
    gnu = sysv = None
    # hash tables are REAL ones (built in _plan from the names with the standard hash functions): a reader
    # may use them; gnu = [symoffset, bloom_shift, bloom_size, nbuckets], sysv = [nbuckets]
    if syms is not None and nsym >= 1 and hk in ('gnu', 'both'):
        so = rng.choice([1, 1, rng.randint(1, nsym)])
        nb = rng.randint(1, 4)
        # the hashed symbols are grouped by bucket, as the format demands
        syms[so:] = sorted(syms[so:], key=lambda sy: _gnu_hash(_cstr(tab, sy[0])) % nb)
        gnu = [so, rng.randrange(32), rng.randint(1, 3), nb]
    if syms is not None and hk in ('sysv', 'both'):
        sysv = [rng.randint(1, 4)]
    # relocation tables
    rels = []
    def relents(n, rela):
        out = []
        for _ in range(n):
            if machine == 8 and is64:
                e = [rng.getrandbits(64), rng.getrandbits(32), rng.getrandbits(8), rng.getrandbits(8), rng.getrandbits(8),
                     rng.getrandbits(8)]
            else:
                e = [rng.getrandbits(8 * w), rng.getrandbits(8 * w)]
            if rela:
                e.append(rng.randrange(-2 ** (8 * w - 1), 2 ** (8 * w - 1)))
            out.append(e)
        return out
    if rng.random() < 0.35:
        rels.append(['REL', relents(rng.randint(0, 3), False)])
    if rng.random() < 0.45:
        rels.append(['RELA', relents(rng.randint(0, 3), True)])
    if rng.random() < 0.3:
        n = rng.randint(1, 4)
        ws = [2 * rng.getrandbits(8 * w - 2)]
        for _ in range(n - 1):
            ws.append(rng.choice([2 * rng.getrandbits(8 * w - 2), 2 * rng.getrandbits(rng.choice([3, 8 * w - 1])) + 1]))
        rels.append(['RELR', [[x] for x in ws]])
    if rng.random() < 0.4:
        rela = rng.random() < 0.5
        rels.append(['JMPREL', relents(rng.randint(1, 3), rela), rela])
    # dynamic entries; symbolic values are resolved at layout time
    ents = []
    for _ in range(rng.choice([0, 1, 2, 2, 3])):
        ents.append([DT['NEEDED'], stridx()])
    for t in ('SONAME', 'RPATH', 'RUNPATH'):
        for _ in range(rng.choice([0, 0, 1, 1, 2])):
            ents.append([DT[t], stridx()])
    if rng.random() < 0.5:
        ents.append([DT['SUNW_FILTER'], stridx() if solaris else rng.getrandbits(16)])
    ents.append([DT['STRTAB'], ['ptr', 'strtab']])
    ents.append([DT['STRSZ'], len(tab)])
    if syms is not None:
        ents.append([DT['SYMTAB'], ['ptr', 'symtab']])
        ents.append([DT['SYMENT'], 24 if is64 else 16])
    if gnu is not None:
        ents.append([DT['GNU_HASH'], ['ptr', 'gnu']])
    if sysv is not None:
        ents.append([DT['HASH'], ['ptr', 'sysv']])
    for r in rels:
        k = r[0]
        if k == 'REL':
            ents += [[DT['REL'], ['ptr', 'REL']], [DT['RELSZ'], ['sz', 'REL']], [DT['RELENT'], 2 * w]]
        elif k == 'RELA':
            ents += [[DT['RELA'], ['ptr', 'RELA']], [DT['RELASZ'], ['sz', 'RELA']], [DT['RELAENT'], 3 * w]]
        elif k == 'RELR':
            ents += [[DT['RELR'], ['ptr', 'RELR']], [DT['RELRSZ'], ['sz', 'RELR']], [DT['RELRENT'], w]]
        else:
            ents += [[DT['JMPREL'], ['ptr', 'JMPREL']], [DT['PLTRELSZ'], ['sz', 'JMPREL']],
                     [DT['PLTREL'], DT['RELA'] if r[2] else DT['REL']]]
    def other():
        r = rng.random()
        top = 2 ** (8 * w - 1)
        if r < 0.3:
            return [rng.choice([DT['INIT'], DT['FINI'], DT['DEBUG'], DT['FLAGS'], DT['FLAGS_1'], DT['SYMBOLIC'], DT['PLTGOT'],
                                DT['BIND_NOW'], DT['TEXTREL'], DT['VERSYM'], 38, 0x6ffffdf5, 0x7ffffffd, 0x7fffffff]),
                    rng.getrandbits(rng.choice([8, 8 * w]))]
        if r < 0.5:
            return [0x70000000 + rng.choice([0, 1, 2, 3, 5, 6, 8, 0x11, 0x13, 0x16, 0x35, 0x36, 0x40]), rng.getrandbits(16)]
        if r < 0.7:
            return [0x60000000 + rng.choice([0xd, 0xe, 0x10, 0x11, 0x12, 0x13, 0x19, 0x1f, 0x20]), rng.getrandbits(16)]
        if r < 0.85:
            return [rng.choice([31, 39, 52, 53, 0x12345, top - 1, -1, -top, -0x1234]), rng.getrandbits(8 * w)]
        return [rng.randrange(-top, top), rng.getrandbits(8 * w)]
    for _ in range(rng.choice([0, 1, 2, 4, 7])):
        ents.append(other())
    if rng.random() < 0.5:     # codes of the reused processor / OS ranges: their NAME depends on the target
        ents.append([rng.choice([0x70000001, 0x70000003, 0x70000005, 0x70000006, 0x70000011, 0x70000011, 0x70000012, 0x70000013,
                                 0x6000000d, 0x6000000e, 0x60000010, 0x60000011, 32, 0x7fffffff]), rng.getrandbits(16)])
    if rng.random() < 0.1:     # a second, different, string table pointer: the first one counts
        ents.append([DT['STRTAB'], rng.getrandbits(16) | 1])
    rng.shuffle(ents)
    ents.append([0, rng.choice([0, 0, rng.getrandbits(8 * w)])])
    def extra_list():
        out = []
        for _ in range(rng.choice([0, 0, 1, 2, 4])):
            out.append(rng.choice([[DT['NEEDED'], stridx()], [DT['SONAME'], stridx()], [0, 7], other(),
                                   [DT['STRTAB'], rng.getrandbits(20)], [DT['GNU_HASH'], rng.getrandbits(20)],
                                   [DT['SYMTAB'], rng.getrandbits(20)], [DT['RELA'], rng.getrandbits(20)]]))
        return out
    extras = extra_list()
    # 'foreign': the .dynamic section is ANOTHER array elsewhere, linked to ANOTHER string table
    form = rng.choice(['same', 'same', 'shifted', 'foreign'])
    extras2 = extra_list() if form != 'same' else []
    # file layout
    tables = ['dyn', 'strtab']
    if syms is not None:
        tables.append('symtab')
    if gnu is not None:
        tables.append('gnu')
    if sysv is not None:
        tables.append('sysv')
    tables += [r[0] for r in rels]
    if form == 'foreign':
        tables.append('strtab2')
    rng.shuffle(tables)
    ng = rng.randint(1, min(3, len(tables)))
    cuts = sorted(rng.sample(range(1, len(tables)), ng - 1)) if ng > 1 else []
    groups = [b - a for a, b in zip([0] + cuts, cuts + [len(tables)])]
    deltas = sorted(rng.sample(range(1, 40), ng))
    deltas = [d * 0x1000 + rng.choice([0, 0, 0x10, 0x234]) for d in deltas]
    decoys = []
    for _ in range(rng.choice([0, 1, 2, 3])):
        decoys.append(rng.choice([
            [1, rng.randrange(0x200), 0x7000000 + rng.randrange(0x1000), 0],                 # PT_LOAD with no file image
            [1, rng.randrange(0x200), 0x6000000 + rng.randrange(0x1000), rng.randrange(1, 0x40)],   # PT_LOAD elsewhere
            [6, 0x34, 0x34, 0x100], [0x6474e551, 0, 0, 0], [0x6474e552, 0x100, 0x2100, 0x80], [4, 0x40, 0x40, 0x20],
            [3, 0x40, 0x40, 8], [0x12345678, 1, 2, 3], ['dup', rng.randrange(3)]]))
    optional = [s for s in ('symtab', 'gnu', 'sysv', 'REL', 'RELA', 'RELR', 'JMPREL') if s in tables and rng.random() < 0.8]
    if 'symtab' not in optional:
        optional = [s for s in optional if s not in ('gnu', 'sysv', 'REL', 'RELA', 'JMPREL')]
    mut = None
    if malformed:
        mut = rng.choice(['no_null', 'strtab_unmapped', 'strtab_absent', 'bad_index', 'link_not_strtab', 'syment',
                          'ptr_zero', 'filesz0', 'hash_unmapped', 'relent', 'chain_unterminated', 'nchain_off', 'two_dynamic'])
    return [['le', le], ['is64', is64], ['machine', machine], ['osabi', osabi], ['strtab', tab], ['entries', ents],
            ['extras', extras], ['extras2', extras2], ['syms', syms], ['gnu', gnu], ['sysv', sysv], ['rels', rels],
            ['order', tables], ['groups', groups], ['deltas', deltas], ['decoys', decoys], ['form', form],
            ['optional', optional], ['seed', rng.getrandbits(32)], ['phpad', rng.choice([0, 0, 8])],
            ['shpad', rng.choice([0, 0, 16])], ['filesz_exact', rng.random() < 0.5], ['mut', mut]]


_TAG_NAMES = None


def _tag_names():
    """every d_tag name any target's table of the library knows, by code (live tables): the processor- and
    OS-specific ranges are reused, one code carries different names on different targets"""
    global _TAG_NAMES
    if _TAG_NAMES is None:
        from elftools.elf import enums as E
        by_code = {}
        dicts = [E.ENUM_D_TAG, getattr(E, 'ENUM_D_TAG_COMMON', {}), getattr(E, 'ENUM_D_TAG_SOLARIS', {})]
        dicts += list(getattr(E, 'ENUMMAP_EXTRA_D_TAG_MACHINE', {}).values())
        for d in dicts:
            for k, v in d.items():
                if k != '_default_' and isinstance(v, int):
                    by_code.setdefault(v, set()).add(k)
        _TAG_NAMES = {c: sorted(n) for c, n in by_code.items()}
    return _TAG_NAMES


def _gen_history(rng, codes=None):
    """a history on ONE Dynamic object: start a tag walk (type filter chosen by position in the tag list, by
    name, or none), take k tags, put other questions to the same object, then resume the walk to its end.
    By-name filters include every name ANY target gives to a code present in the array (the target's own name,
    another target's name for the same code, an alias) and names of codes that are absent: selection by name
    must agree with the names the target's own table reports."""
    names = _tag_names()
    specific = sorted(n for c, ns in names.items() if c >= 0x60000000 or len(ns) > 1 for n in ns)
    def tsel():
        r = rng.random()
        if r < 0.3 and codes:
            c = rng.choice(codes)
            if c in names:
                return ['name', rng.choice(names[c])]
        if r < 0.4 and specific:
            return ['name', rng.choice(specific)]
        return rng.choice([None, None, ['idx', rng.randrange(40)], ['idx', rng.randrange(40)], ['name', 'DT_NULL'],
                           ['name', 'DT_NEEDED'], ['name', 'DT_FLAGS_1']])
    ops = []
    for _ in range(rng.randint(1, 3)):
        ops.append(rng.choice([['num_tags'], ['num_tags'], ['get_tag', rng.randrange(40)], ['num_symbols'], ['symbols'],
                               ['table_offset', rng.choice(TABLE_NAMES)], ['relocs'], ['walk', tsel()]]))
    return [tsel(), rng.choice([0, 1, 1, 2, 3, 5, 8]), ops]


def gen(ctx):
    from tools.lib.streams import draw_kind
    rng = ctx.rng
    cases = []
    n = ctx.scale(230, 4000)
    for i in range(n):
        a = _gen_image(ctx, rng, malformed=(i % 8 == 7))
        a.append(['hist', _gen_history(rng, [e[0] for e in _d(a)['entries'] if isinstance(e[0], int)])])
        a.append(['stream', draw_kind(rng)])
        cases.append(('img', a))
    d = os.path.join(str(REPO), 'test', 'testfiles_for_unittests')
    limit = ctx.scale(60000, 600000)
    for fn in sorted(os.listdir(d)):
        p = os.path.join(d, fn)
        if not os.path.isfile(p) or os.path.getsize(p) > limit:
            continue
        with open(p, 'rb') as fh:
            data = fh.read()
        if data[:4] != b'\x7fELF' or data[4] not in (1, 2) or data[5] not in (1, 2):
            continue
        if _has_dynamic(data):
            cases.append(('file', [fn, _gen_history(rng), draw_kind(rng)]))
    # hash tables with more than 2**20 buckets / bloom words (and a few symbols): one in the quick tier
    for _ in range(ctx.scale(1, 3)):
        cases.append(('big', [rng.random() < 0.5, rng.random() < 0.5, rng.choice(['sysv', 'gnu_buckets', 'gnu_bloom']),
                              rng.randint(2, 6), 0x100000 + rng.randint(1, 40), rng.choice(['bytesio', 'file', 'mmap'])]))
    # a string of more than 1 MiB behind a string-valued tag; extended section numbering with a linked table that
    # differs from the one DT_STRTAB maps to
    for _ in range(ctx.scale(1, 2)):
        cases.append(('long', [rng.random() < 0.5, rng.random() < 0.5, rng.choice(['RUNPATH', 'RPATH', 'NEEDED', 'SONAME']),
                               0x100000 + rng.randint(1, 0x20000), rng.choice(['bytesio', 'file', 'mmap'])]))
        cases.append(('manysec', [rng.random() < 0.5, rng.random() < 0.5, rng.choice(['RUNPATH', 'RPATH', 'NEEDED', 'SONAME']),
                                  0xff00 + rng.randint(0, 0x40), rng.choice(['bytesio', 'file', 'mmap'])]))
    return cases


def _has_dynamic(data):
    import struct
    is64 = data[4] == 2
    e = '<' if data[5] == 1 else '>'
    try:
        if is64:
            phoff, = struct.unpack_from(e + 'Q', data, 32)
            phentsize, phnum = struct.unpack_from(e + 'HH', data, 54)
        else:
            phoff, = struct.unpack_from(e + 'I', data, 28)
            phentsize, phnum = struct.unpack_from(e + 'HH', data, 42)
        for i in range(phnum):
            t, = struct.unpack_from(e + 'I', data, phoff + i * phentsize)
            if t == 2:
                return True
    except struct.error:
        return False
    return False


# ------------------------------------------------------------------ layout of a synthesized image
class _Plan:
    pass


def _plan(a):
    """Offsets/addresses of every piece and the list of records to encode (requests for the driver)."""
    A = _d(a)
    P = _Plan()
    P.A = A
    le, is64 = bool(A['le']), bool(A['is64'])
    w = 8 if is64 else 4
    fill = random.Random(A['seed'])
    mut = A['mut']
    def garbage(n):
        return bytes(fill.randint(1, 255) for _ in range(n))
    P.garbage = garbage
    ehsz, phsz, shsz = (64, 56, 64) if is64 else (52, 32, 40)
    dynsz, symsz = 2 * w, (24 if is64 else 16)
    mips64 = A['machine'] == 8 and is64
    ents, extras = [list(e) for e in A['entries']], [list(e) for e in A['extras']]
    if mut == 'no_null':
        ents = ents[:-1]
        extras = []
    if mut == 'strtab_absent':
        ents = [e for e in ents if e[0] != DT['STRTAB']]
    sizes = {'dyn': (len(ents) + len(extras)) * dynsz, 'strtab': len(A['strtab'])}
    if A['syms'] is not None:
        sizes['symtab'] = len(A['syms']) * symsz
    foreign = A['form'] == 'foreign'
    P.tab2 = _swapcase(A['strtab']) if foreign else None
    if foreign:
        sizes['strtab2'] = len(P.tab2)
    names_ = [_cstr(A['strtab'], sy[0]) for sy in A['syms']] if A['syms'] is not None else []
    if A['gnu'] is not None:
        so_, shift_, nbloom_, nb_ = A['gnu']
        sizes['gnu'] = 16 + nbloom_ * w + nb_ * 4 + (len(names_) - so_) * 4
    if A['sysv'] is not None:
        # 64-bit entries in the 64-bit Alpha and s390x ABIs, 32-bit words everywhere else
        P.hash_wide = is64 and A['machine'] in (22, 41)
        sizes['sysv'] = (8 if P.hash_wide else 4) * (2 + A['sysv'][0] + len(names_))
    relsz = {}
    for r in A['rels']:
        k = r[0]
        rela = (k == 'RELA') or (k == 'JMPREL' and r[2])
        esz = w if k == 'RELR' else (3 * w if rela else 2 * w)
        relsz[k] = esz
        sizes[k] = len(r[1]) * esz
    # decoys decide the number of program headers
    order = list(A['order'])
    groups = list(A['groups'])
    nload = len(groups)
    decoys = list(A['decoys'])
    nph = nload + 1 + len(decoys)
    cur = ehsz + fill.choice([0, 0, 4, 24])
    phentsize = phsz + A['phpad']
    P.phoff = cur
    cur += nph * phentsize + fill.choice([0, 3, 16])
    off = {}
    gi = 0
    starts, ends = [], []
    idx = 0
    for gsz in groups:
        s = None
        for name in order[idx:idx + gsz]:
            cur += fill.choice([0, 0, 1, 8, 40])
            off[name] = cur
            if s is None:
                s = cur
            cur += sizes[name]
            last = name
        if sizes[last] == 0:
            cur += fill.choice([1, 4])      # an empty table still has an address inside the file image
        starts.append(s)
        ends.append(cur)
        idx += gsz
        cur += fill.choice([1, 8, 70])
    P.off, P.sizes = off, sizes
    delta_of = {}
    idx = 0
    for g, gsz in enumerate(groups):
        for name in order[idx:idx + gsz]:
            delta_of[name] = A['deltas'][g]
        idx += gsz
    addr = {k: off[k] + delta_of[k] for k in off}
    P.addr = addr
    # the shifted copy of the dynamic array
    ents2 = extras2 = None
    if A['form'] != 'same':
        extras2 = [list(e) for e in A['extras2']]
        cur += fill.choice([0, 5])
        off['dyn2'] = cur
        sizes['dyn2'] = (len(ents) + len(extras2)) * dynsz
        cur += sizes['dyn2'] + fill.choice([1, 9])
    # section header string table and section headers
    secs = ['', '.dynamic', '.dynstr']
    if 'symtab' in A['optional']:
        secs.append('.dynsym')
    for k, nm in (('gnu', '.gnu.hash'), ('sysv', '.hash'), ('REL', '.rel.dyn'), ('RELA', '.rela.dyn'), ('RELR', '.relr.dyn'),
                  ('JMPREL', '.rela.plt')):
        if k in A['optional']:
            secs.append(nm)
    secs.append('.shstrtab')
    if mut == 'two_dynamic':
        secs.insert(2, '.dynamic')
    body = secs[1:]
    fill.shuffle(body)
    secs = [''] + body
    shstr = b'\0'
    nameoff = {}
    for nm in sorted(set(secs) - {''}):
        nameoff[nm] = len(shstr)
        shstr += nm.encode() + b'\0'
    nameoff[''] = 0
    cur += fill.choice([0, 2])
    off['shstrtab'] = cur
    sizes['shstrtab'] = len(shstr)
    cur += len(shstr) + fill.choice([0, 7])
    shentsize = shsz + A['shpad']
    P.shoff = cur
    cur += len(secs) * shentsize
    P.total = cur + fill.choice([0, 0, 5])
    P.shstr = shstr
    # resolve the entries
    def resolve(e):
        t, v = e
        if isinstance(v, list):
            if v[0] == 'ptr':
                v = addr[v[1]]
            else:
                v = sizes[v[1]]
        return [t, v % 2 ** (8 * w)]
    ents = [resolve(e) for e in ents]
    extras = [resolve(e) for e in extras]
    if extras2 is not None:
        extras2 = [resolve(e) for e in extras2]
    unmapped = 0x5000000 + 0x321
    def set_tag(tag, val):
        for e in ents:
            if e[0] == tag:
                e[1] = val
                return
    if mut == 'strtab_unmapped':
        set_tag(DT['STRTAB'], unmapped)
    if mut == 'hash_unmapped':
        set_tag(DT['GNU_HASH'], unmapped)
        set_tag(DT['HASH'], unmapped + 8)
    if mut == 'ptr_zero':
        set_tag(fill.choice([DT['STRTAB'], DT['SYMTAB'], DT['RELA']]), 0)
    if mut == 'bad_index':
        for e in ents:
            if e[0] in (DT['NEEDED'], DT['SONAME'], DT['RPATH'], DT['RUNPATH']):
                e[1] = len(A['strtab']) + fill.choice([0, 1, 5, 1000, 100000])
                break
    if mut == 'syment':
        set_tag(DT['SYMENT'], symsz + 8)
    if mut == 'relent':
        set_tag(fill.choice([DT['RELENT'], DT['RELAENT'], DT['RELRENT']]), 5)
    ents2 = [list(e) for e in ents]
    if foreign:
        for e in ents2:
            if e[0] == DT['STRTAB'] and e[1] == addr['strtab'] % 2 ** (8 * w):
                e[1] = addr['strtab2'] % 2 ** (8 * w)
    P.ents, P.extras, P.extras2, P.ents2 = ents, extras, extras2, ents2
    # the generator's expectation takes the FIRST DT_STRTAB for the real table (a random second one may precede it)
    first5 = [e[1] for e in ents if e[0] == DT['STRTAB']]
    P.first_strtab_real = bool(first5) and first5[0] == addr['strtab'] % 2 ** (8 * w)
    # program headers
    phs = []
    for g in range(nload):
        phs.append([1, starts[g], starts[g] + A['deltas'][g], ends[g] - starts[g]])
    dynlen = len(ents) * dynsz if A['filesz_exact'] else sizes['dyn']
    if mut == 'filesz0':
        dynlen = 0
    phs.append([2, off['dyn'], addr['dyn'], dynlen])
    for dcy in decoys:
        if dcy[0] == 'dup':
            phs.append(list(phs[dcy[1] % nload]))
        else:
            phs.append(list(dcy))
    fill.shuffle(phs)
    P.phs = phs
    # section headers: name, type, offset, size, link(name), entsize, addr
    link = {nm: i for i, nm in reversed(list(enumerate(secs)))}
    def lk(nm):
        return link.get(nm, 0)
    dynsec_off = off['dyn2'] if A['form'] != 'same' else off['dyn']
    dynsec_size = sizes['dyn2'] if A['form'] != 'same' else sizes['dyn']
    sk = 'strtab2' if foreign else 'strtab'
    rows = []
    seen_dyn = 0
    for nm in secs:
        if nm == '':
            rows.append([0, 0, 0, 0, 0, 0, 0])
        elif nm == '.dynamic':
            seen_dyn += 1
            target = '.shstrtab' if (mut == 'two_dynamic' and seen_dyn == 2) else '.dynstr'
            tl = lk('.dynsym' if mut == 'link_not_strtab' and '.dynsym' in link else target)
            if mut == 'link_not_strtab' and '.dynsym' not in link:
                tl = 0
            rows.append([nameoff[nm], SHT['DYNAMIC'], dynsec_off, dynsec_size, tl, dynsz, 0])
        elif nm == '.dynstr':
            rows.append([nameoff[nm], SHT['STRTAB'], off[sk], sizes[sk], 0, 0, addr[sk]])
        elif nm == '.dynsym':
            rows.append([nameoff[nm], SHT['DYNSYM'], off['symtab'], sizes['symtab'], lk('.dynstr'), symsz, addr['symtab']])
        elif nm == '.gnu.hash':
            rows.append([nameoff[nm], SHT['GNU_HASH'], off['gnu'], sizes['gnu'], lk('.dynsym'), 0, addr['gnu']])
        elif nm == '.hash':
            rows.append([nameoff[nm], SHT['HASH'], off['sysv'], sizes['sysv'], lk('.dynsym'), 8 if P.hash_wide else 4, addr['sysv']])
        elif nm == '.rel.dyn':
            rows.append([nameoff[nm], SHT['REL'], off['REL'], sizes['REL'], lk('.dynsym'), relsz['REL'], addr['REL']])
        elif nm == '.rela.dyn':
            rows.append([nameoff[nm], SHT['RELA'], off['RELA'], sizes['RELA'], lk('.dynsym'), relsz['RELA'], addr['RELA']])
        elif nm == '.relr.dyn':
            rows.append([nameoff[nm], SHT['RELR'], off['RELR'], sizes['RELR'], 0, relsz['RELR'], addr['RELR']])
        elif nm == '.rela.plt':
            rela = [r for r in A['rels'] if r[0] == 'JMPREL'][0][2]
            rows.append([nameoff[nm], SHT['RELA'] if rela else SHT['REL'], off['JMPREL'], sizes['JMPREL'], lk('.dynsym'),
                         relsz['JMPREL'], addr['JMPREL']])
        elif nm == '.shstrtab':
            rows.append([nameoff[nm], SHT['STRTAB'], off['shstrtab'], sizes['shstrtab'], 0, 0, 0])
    P.rows, P.secs = rows, secs
    P.shstrndx = link['.shstrtab']
    P.phentsize, P.shentsize, P.nph = phentsize, shentsize, nph
    P.relsz = relsz
    # ---- records to encode
    reqs = []
    def rec(tag, name, vals):
        reqs.append((tag, ['enc', name, le, is64, vals]))
    def ehdr(stripped):
        return [b'\x7fELF', 2 if is64 else 1, 1 if le else 2, 1, A['osabi'], fill_abiver, b'\0' * 7, 3, A['machine'], 1,
                entry, P.phoff, 0 if stripped else P.shoff, eflags, ehsz, phentsize, nph, shentsize,
                0 if stripped else len(secs), 0 if stripped else P.shstrndx]
    fill_abiver = fill.randrange(4)
    entry = fill.getrandbits(8 * w)
    eflags = fill.getrandbits(32)
    rec(('ehdr', 0), 'Ehdr', ehdr(False))
    rec(('ehdr', 1), 'Ehdr', ehdr(True))
    for i, (t, o, v, fs) in enumerate(phs):
        memsz = fs + fill.choice([0, 0x10])
        align = fill.choice([1, 8, 0x1000])
        flags = fill.randrange(8)
        if is64:
            vals = [t, flags, o, v, v, fs, memsz, align]
        else:
            vals = [t, o, v, v, fs, memsz, flags, align]
        rec(('ph', i), 'Phdr', vals)
    for i, (nmo, ty, o, sz, lnk, esz, ad) in enumerate(rows):
        flags = 2 if ad else 0
        rec(('sh', i), 'Shdr', [nmo, ty, flags, ad, o, sz, lnk, fill.randrange(3), fill.choice([1, 4, 8]), esz])
    for i, e in enumerate(ents + extras):
        rec(('dyn', i), 'Dyn', [_signed(e[0], w), e[1]])
    if extras2 is not None:
        for i, e in enumerate(ents2 + extras2):
            rec(('dyn2', i), 'Dyn', [_signed(e[0], w), e[1]])
    if A['syms'] is not None:
        for i, s in enumerate(A['syms']):
            nm_, val, size, bind, typ, loc, pad, vis, shndx = s
            if is64:
                vals = [nm_, bind, typ, loc, pad, vis, shndx, val, size]
            else:
                vals = [nm_, val, size, bind, typ, loc, pad, vis, shndx]
            rec(('sym', i), 'Sym', vals)
    if A['gnu'] is not None:
        so, shift, nbloom, nb = A['gnu']
        C = 8 * w
        hs = [_gnu_hash(n) for n in names_[so:]]
        buckets = [0] * nb
        chain = []
        bloom = [0] * nbloom
        for k, h in enumerate(hs):
            if buckets[h % nb] == 0:
                buckets[h % nb] = so + k
            last = k == len(hs) - 1 or hs[k + 1] % nb != h % nb
            wv = (h & ~1) | (1 if last else 0)
            if mut == 'chain_unterminated' and k == len(hs) - 1:
                wv &= ~1
            chain.append(wv)
            bloom[(h // C) % nbloom] |= (1 << (h % C)) | (1 << ((h >> shift) % C))
        P.gnu_chain = chain
        rec(('gnu', 0), 'GnuHash', [nb, so, nbloom, shift, bloom, buckets])
        for i, c in enumerate(chain):
            reqs.append((('gnuc', i), ['enc_int', le, 4, c]))
    if A['sysv'] is not None:
        nb = A['sysv'][0]
        bk = [0] * nb
        ch = [0] * len(names_)
        for i in range(len(names_) - 1, 0, -1):       # so that a chain runs in index order
            h = _elf_hash(names_[i]) % nb
            ch[i] = bk[h]
            bk[h] = i
        nch = len(ch) + (1 if mut == 'nchain_off' else 0)
        rec(('sysv', 0), 'Hash64' if P.hash_wide else 'Hash', [nb, nch, bk, ch + ([0] if mut == 'nchain_off' else [])])
    for r in A['rels']:
        k = r[0]
        rela = (k == 'RELA') or (k == 'JMPREL' and r[2])
        for i, e in enumerate(r[1]):
            if k == 'RELR':
                rec(('rel', k, i), 'Relr', [e[0]])
            elif mips64:
                rec(('rel', k, i), 'RelaMips64' if rela else 'RelMips64', list(e))
            else:
                rec(('rel', k, i), 'Rela' if rela else 'Rel', list(e))
    P.reqs = reqs
    return P


def _signed(t, w):
    t %= 2 ** (8 * w)
    return t - 2 ** (8 * w) if t >= 2 ** (8 * w - 1) else t


def _assemble(P, enc):
    """enc: dict tag -> bytes.  Returns (image, stripped image)."""
    A = P.A
    buf = bytearray(P.garbage(P.total))
    def put(o, b):
        buf[o:o + len(b)] = b
    is64 = bool(A['is64'])
    for i in range(P.nph):
        put(P.phoff + i * P.phentsize, enc[('ph', i)])
    for i in range(len(P.rows)):
        put(P.shoff + i * P.shentsize, enc[('sh', i)])
    put(P.off['shstrtab'], P.shstr)
    put(P.off['strtab'], A['strtab'])
    if P.tab2 is not None:
        put(P.off['strtab2'], P.tab2)
    n = len(P.ents) + len(P.extras)
    put(P.off['dyn'], b''.join(enc[('dyn', i)] for i in range(n)))
    if P.extras2 is not None:
        n2 = len(P.ents) + len(P.extras2)
        put(P.off['dyn2'], b''.join(enc[('dyn2', i)] for i in range(n2)))
    if A['syms'] is not None:
        put(P.off['symtab'], b''.join(enc[('sym', i)] for i in range(len(A['syms']))))
    if A['gnu'] is not None:
        put(P.off['gnu'], enc[('gnu', 0)] + b''.join(enc[('gnuc', i)] for i in range(len(P.gnu_chain))))
    if A['sysv'] is not None:
        b = enc[('sysv', 0)]
        put(P.off['sysv'], b[:P.sizes['sysv']])
    for r in A['rels']:
        put(P.off[r[0]], b''.join(enc[('rel', r[0], i)] for i in range(len(r[1]))))
    img = enc[('ehdr', 0)] + bytes(buf[len(enc[('ehdr', 0)]):])
    img2 = enc[('ehdr', 1)] + bytes(buf[len(enc[('ehdr', 1)]):])
    return img, img2


# ------------------------------------------------------------------ what the spec expects of a synthesized image
def _expected(P, spec_tags, names, ents=None, strkey='strtab'):
    """what the abstract image says one view must yield: ents = the array the view reads (the segment's,
    or the section's own one in the 'foreign' form), strkey = the string table that array designates"""
    A = P.A
    is64 = bool(A['is64'])
    w = 8 if is64 else 4
    mips64 = A['machine'] == 8 and is64
    ents = P.ents if ents is None else ents
    core = [None] * 4
    core[0] = ['ok', spec_tags[1]] if spec_tags != 'none' else None
    ntags = len(spec_tags[1]) if spec_tags != 'none' else None
    core[1] = ['ok', ntags]
    live = ents[:ntags] if ntags else []
    offs = []
    tagnum = {'DT_STRTAB': DT['STRTAB'], 'DT_SYMTAB': DT['SYMTAB'], 'DT_HASH': DT['HASH'], 'DT_GNU_HASH': DT['GNU_HASH'],
              'DT_REL': DT['REL'], 'DT_RELA': DT['RELA'], 'DT_RELR': DT['RELR'], 'DT_JMPREL': DT['JMPREL']}
    tabname = {'DT_STRTAB': 'strtab', 'DT_SYMTAB': 'symtab', 'DT_HASH': 'sysv', 'DT_GNU_HASH': 'gnu', 'DT_REL': 'REL',
               'DT_RELA': 'RELA', 'DT_RELR': 'RELR', 'DT_JMPREL': 'JMPREL'}
    for n in TABLE_NAMES:
        hit = [e for e in live if _signed(e[0], w) == tagnum[n]]
        if not hit:
            offs.append(['none', 'none'])
        else:
            offs.append([['some', hit[0][1]], ['some', P.off[strkey if n == 'DT_STRTAB' else tabname[n]]]])
    core[2] = ['ok', offs]
    rel = []
    for k in ('REL', 'RELA', 'RELR', 'JMPREL'):
        for r in A['rels']:
            if r[0] != k:
                continue
            rela = (k == 'RELA') or (k == 'JMPREL' and r[2])
            es = []
            for e in r[1]:
                if k == 'RELR':
                    continue
                if mips64:
                    info = (e[1] << 32) | (e[2] << 24) | (e[3] << 16) | (e[4] << 8) | e[5]
                    es.append([e[0], info, ['some', e[6]] if rela else 'none'])
                else:
                    es.append([e[0], e[1], ['some', e[2]] if rela else 'none'])
            if k == 'RELR':
                es = _relr_expand([e[0] for e in r[1]], w)
                rel.append(['RELR', 0, ['ok', es]])
            else:
                rel.append([k, int(rela), ['ok', es]])
    core[3] = ['ok', rel]
    syms = None
    if A['syms'] is not None:
        out = []
        for s in A['syms']:
            nm_, val, size, bind, typ, loc, pad, vis, shndx = s
            out.append([nm_, val, size, bind, typ, loc, vis, shndx, _cstr(A['strtab'], nm_)])
        byname = []
        for n in names:
            hit = [x for x in out if x[8] == n]
            byname.append(['some', hit] if hit else 'none')
        syms = (len(out), out, byname)
    return core, syms


def _cstr(tab, i):
    if i >= len(tab):
        return b''
    j = tab.find(b'\0', i)
    return tab[i:j] if j >= 0 else b''


def _relr_expand(words, w):
    """DT_RELR as specified (generic-abi proposal): even word = address; odd word = bitmap of the next 8w-1 words."""
    out = []
    base = None
    for x in words:
        if x & 1 == 0:
            out.append([x, 0, 'none'])
            base = x + w
        else:
            i = 0
            b = x >> 1
            while b:
                if b & 1:
                    out.append([base + i * w, 0, 'none'])
                b >>= 1
                i += 1
            base += (8 * w - 1) * w
    return out


# ------------------------------------------------------------------ the implementation, observed
def _tagrepr(t):
    e = t.entry
    tag = e.d_tag
    attr = 'none'
    if isinstance(tag, str):
        name = tag[3:].lower()
        if hasattr(t, name):
            attr = ['some', getattr(t, name).encode('utf-8')]
    return [tag, e.d_val, attr]


def _symrepr(s):
    from elftools.elf import enums as E
    e = s.entry
    def num(d, v):
        return d[v] if isinstance(v, str) else v
    return [e['st_name'], e['st_value'], e['st_size'], num(E.ENUM_ST_INFO_BIND, e['st_info']['bind']),
            num(E.ENUM_ST_INFO_TYPE, e['st_info']['type']), num(E.ENUM_ST_LOCAL, e['st_other']['local']),
            num(E.ENUM_ST_VISIBILITY, e['st_other']['visibility']), num(E.ENUM_ST_SHNDX, e['st_shndx']),
            s.name.encode('utf-8')]


class _NoSuch(Exception):
    pass


class NoDynamicSection(_NoSuch):
    pass


class NoDynamicSegment(_NoSuch):
    pass


class NoDynsym(_NoSuch):
    pass


def _relocs_of(d):
    out = []
    for k, t in d.get_relocation_tables().items():
        def ents(t=t, k=k):
            res = []
            for r in t.iter_relocations():
                en = r.entry
                if k == 'RELR':
                    res.append([en['r_offset'], 0, 'none'])
                else:
                    res.append([en['r_offset'], en['r_info'], ['some', en['r_addend']] if 'r_addend' in en else 'none'])
            return res
        out.append([k, 0 if k == 'RELR' else int(t.is_RELA()), _ok(ents)])
    return out


def _offset_of(d, n):
    p, o = d.get_table_offset(n)
    return ['none' if p is None else ['some', p], 'none' if o is None else ['some', o]]


# ---- histories on one object
def _hist_type(tsel, tags):
    if tsel is None:
        return None
    if tsel[0] == 'name':
        return tsel[1]
    t = tags[tsel[1] % len(tags)][0] if tags else None
    return t if isinstance(t, str) else None


def _history_impl(make, hist, tags, view):
    """run the history on ONE object; answers in the shape _history_expected gives"""
    tsel, k, ops = hist
    def run():
        d = make()
        ty = _hist_type(tsel, tags)
        it = d.iter_tags(ty)
        got = []
        for _ in range(k):
            try:
                got.append(_tagrepr(next(it)))
            except StopIteration:
                break
        answers = []
        for op in ops:
            def do(op=op):
                if op[0] == 'num_tags' or (view == 'sec' and op[0] in ('num_symbols', 'symbols')):
                    return d.num_tags()
                if op[0] == 'get_tag':
                    return _tagrepr(d.get_tag(op[1] % (len(tags) + 2)))
                if op[0] == 'num_symbols':
                    return d.num_symbols()
                if op[0] == 'symbols':
                    return [_symrepr(x) for x in d.iter_symbols()]
                if op[0] == 'table_offset':
                    return _offset_of(d, op[1])
                if op[0] == 'relocs':
                    return _relocs_of(d)
                if op[0] == 'walk':
                    return [_tagrepr(t) for t in d.iter_tags(_hist_type(op[1], tags))]
                raise ValueError(op)
            try:
                answers.append(['ok', do()])
            except ImplTimeout:
                raise
            except Exception as e:   # noqa
                answers.append(['err', type(e).__name__])
        got += [_tagrepr(t) for t in it]
        return [got, answers]
    return _ok(run)


def _history_expected(core_v, sym_v, hist, tags, view, in_sym):
    """the stateless answers: what every question yields on a fresh object"""
    tsel, k, ops = hist
    mine = core_v[0][1]
    def walk(ts):
        ty = _hist_type(ts, tags)
        return [x for x in mine if ty is None or x[0] == ty]
    answers = []
    for op in ops:
        if op[0] == 'num_tags' or (view == 'sec' and op[0] in ('num_symbols', 'symbols')):
            answers.append(core_v[1])
        elif op[0] == 'get_tag':
            n = op[1] % (len(tags) + 2)
            answers.append(['ok', mine[n]] if n < len(mine) else ['err', 'IndexError'])
        elif op[0] == 'num_symbols':
            answers.append(sym_v[0] if in_sym else 'n/a')
        elif op[0] == 'symbols':
            answers.append(sym_v[1] if in_sym else 'n/a')
        elif op[0] == 'table_offset':
            answers.append(['ok', core_v[2][1][TABLE_NAMES.index(op[1])]] if core_v[2][0] == 'ok' else core_v[2])
        elif op[0] == 'relocs':
            answers.append(core_v[3])
        elif op[0] == 'walk':
            answers.append(['ok', walk(op[1])])
    return ['ok', [walk(tsel), answers]]


RAW_NAMES = ['DT_NEEDED', 'DT_NULL', 'DT_STRTAB', 'DT_SONAME', 'DT_SYMTAB', 'DT_FLAGS_1']


def _raw_program(hist):
    """the part of a history the stateful Coq model speaks about (Model hstep): walks started and advanced one
    tag at a time, num_tags(), get_tag(n) - as driver requests"""
    tsel, k, ops = hist
    def ty(ts):
        if ts is None:
            return 0
        return ts[1] if ts[0] == 'name' else RAW_NAMES[ts[1] % len(RAW_NAMES)]
    prog = [['start', ty(tsel)]] + [['next', 0]] * k
    walks = 1
    for op in ops:
        if op[0] == 'walk':
            prog += [['start', ty(op[1])]] + [['next', walks]] * 3
            walks += 1
        elif op[0] == 'get_tag':
            prog.append(['get_tag', op[1] % 12])
        else:
            prog.append(['num_tags'])
        prog.append(['next', 0])
    prog += [['next', 0]] * 40 + [['next', j] for j in range(1, walks) for _ in range(40)]
    return prog


def _raw_history_impl(make, prog):
    def raw(t):
        return ['tag', t.entry.d_tag, t.entry.d_val]
    def run():
        d = make()
        walks = []
        out = []
        for op in prog:
            if op[0] == 'start':
                walks.append(d.iter_tags(op[1]) if op[1] != 0 else d.iter_tags())
                out.append('started')
            elif op[0] == 'next':
                try:
                    out.append(raw(next(walks[op[1]])))
                except StopIteration:
                    out.append('stop')
            elif op[0] == 'num_tags':
                out.append(['num', d.num_tags()])
            else:
                try:
                    out.append(raw(d.get_tag(op[1])))
                except IndexError:
                    out.append(['err', 'IndexError'])
        return out
    r = _ok(run)
    return r[1] if r[0] == 'ok' else r


def _history_mask(impl, spec):
    """answers the spec does not speak about (symbols outside sym_consistent_b) are not compared"""
    if impl[0] != 'ok' or spec[0] != 'ok':
        return impl
    ans = [('n/a' if s == 'n/a' else a) for a, s in zip(impl[1][1], spec[1][1])]
    return ['ok', [impl[1][0], ans]]


def _ok(f):
    try:
        with _limit():
            return ['ok', f()]
    except Exception as e:   # noqa
        return ['err', type(e).__name__]


def _observe_dyn(make, with_symbols, names):
    """make() -> a FRESH Dynamic object (new ELFFile, new stream)."""
    try:
        with _limit():
            make()
    except Exception as e:   # noqa
        return ['err', type(e).__name__], None
    def relocs():
        return _relocs_of(make())
    def offs():
        d = make()
        return [_offset_of(d, n) for n in TABLE_NAMES]
    def numtags_and_gettag():
        d = make()
        n = d.num_tags()
        # get_tag(n) below num_tags() must be the n-th tag of the iterator
        seq = [_tagrepr(d.get_tag(i)) for i in range(n)]
        it = [_tagrepr(t) for t in make().iter_tags()]
        if seq != it:
            raise AssertionError('get_tag(n) differs from iter_tags()')
        return n
    def tags_after_close():
        # the tags are answers already given: their strings are read after the stream has been closed
        # (numtags_and_gettag reads them while it is open)
        d = make()
        tags = list(d.iter_tags())
        d.elffile.stream.close()
        return [_tagrepr(t) for t in tags]
    core = [_ok(tags_after_close), _ok(numtags_and_gettag), _ok(offs), _ok(relocs)]
    syms = None
    if with_symbols:
        def lookup(d, n):
            r = d.get_symbol_by_name(n.decode('utf-8'))
            return 'none' if r is None else ['some', [_symrepr(s) for s in r]]
        def byname_fresh():
            # every name is the FIRST question put to a fresh object
            return [lookup(make(), n) for n in names]
        def byname_after_miss():
            # one object: a miss first, then every name, then every name again
            d = make()
            lookup(d, b'no_such_symbol_either')
            first = [lookup(d, n) for n in names]
            again = [lookup(d, n) for n in names]
            if first != again:
                raise AssertionError('get_symbol_by_name depends on the call history')
            return first
        syms = [_ok(lambda: make().num_symbols()), _ok(lambda: [_symrepr(s) for s in make().iter_symbols()]),
                _ok(byname_fresh), _ok(byname_after_miss)]
    return core, syms


def _makers(data, opener=None):
    """constructors of FRESH Dynamic objects over the image: (DynamicSection, DynamicSegment, ELFFile);
    opener(data) gives the stream (kind drawn per case: BytesIO, real buffered files, mmap ...)"""
    from elftools.elf.elffile import ELFFile
    from elftools.elf.dynamic import DynamicSection, DynamicSegment
    opener = opener or io.BytesIO
    def mk_file():
        return ELFFile(opener(data))
    def mk_sec():
        ef = mk_file()
        for s in ef.iter_sections():
            if isinstance(s, DynamicSection):
                return s
        raise NoDynamicSection()
    def mk_seg():
        ef = mk_file()
        for s in ef.iter_segments():
            if isinstance(s, DynamicSegment):
                return s
        raise NoDynamicSegment()
    return mk_sec, mk_seg, mk_file


def _observe_impl(data, names, opener=None):
    mk_sec, mk_seg, mk_file = _makers(data, opener)
    def secsyms():
        ef = mk_file()
        for s in ef.iter_sections():
            if s['sh_type'] == 'SHT_DYNSYM':
                return [_symrepr(x) for x in s.iter_symbols()]
        raise NoDynsym()
    try:
        with _limit():
            mk_file()
    except Exception as e:   # noqa
        return ['err', type(e).__name__]
    sec_core, _ = _observe_dyn(mk_sec, False, names)
    seg_core, seg_syms = _observe_dyn(mk_seg, True, names)
    return [sec_core, seg_core, seg_syms, _ok(secsyms)]


def _split_model(m):
    """driver 'observe' answer -> [sec_core, seg_core, seg_syms, secsyms] in the shape of _observe_impl"""
    if m[0] == 'err':
        return m
    sec, seg, secsyms = m
    def core(x):
        return x if x[0] == 'err' else x[:4]
    seg_syms = None if seg[0] == 'err' else (seg[4] + [seg[4][2]] if isinstance(seg[4], list) and len(seg[4]) == 3 else seg[4])
    return [core(sec), core(seg), seg_syms, secsyms]


def _diffkey(impl, spec):
    names = ['tags', 'num_tags', 'table_offset', 'relocation_tables']
    for vi, (a, b) in enumerate(zip(impl, spec)):
        view = ['section', 'segment', 'segment-stripped'][vi]
        if a == b:
            continue
        if isinstance(a, list) and isinstance(b, list) and len(a) == len(b) == 4 and a[0] != 'err' and b[0] != 'err':
            for n, x, y in zip(names, a, b):
                if x != y:
                    if n == 'tags' and x[0] == 'ok' and y[0] == 'ok' and [t[:2] for t in x[1]] == [t[:2] for t in y[1]]:
                        return view + '/strings'
                    return view + '/' + n
        return view + '/construction'
    return None


def _symkey(impl, spec):
    for vi, (a, b) in enumerate(zip(impl, spec)):
        view = ['section-dynsym', 'segment', 'segment-stripped'][vi]
        if a == b:
            continue
        if vi > 0 and isinstance(a, list) and isinstance(b, list) and len(a) == len(b) == 4:
            for n, x, y in zip(['num_symbols', 'symbols', 'symbol_by_name', 'symbol_by_name_after_miss'], a, b):
                if x != y:
                    return view + '/' + n
        return view + '/symbols'
    return None


# ------------------------------------------------------------------ evaluation
def _pick_names(seen):
    """names to look up: those carried by several symbols first, then the smallest and the largest"""
    uniq = sorted(set(seen))
    dup = [n for n in uniq if seen.count(n) > 1]
    out = []
    for n in dup[:2] + uniq[:2] + uniq[-1:]:
        if n not in out:
            out.append(n)
    return out[:4]


def evaluate(ctx, cases):
    from tools.lib.streams import Streams
    S = Streams(prefix='pv-c09-')
    try:
        for kind, a in cases:
            if kind == 'big':
                _evaluate_big(ctx, a, S)
                S.drop_files()
            elif kind in ('long', 'manysec'):
                _evaluate_forced(ctx, kind, a, S)
                S.drop_files()
        rest = [c for c in cases if c[0] not in ('big', 'long', 'manysec')]
        if rest:
            _evaluate_main(ctx, rest, S)
    finally:
        S.close()


def _stream_kind(kind, a):
    """the stream kind a case was drawn with (absent in old replays: BytesIO)"""
    if kind == 'img':
        return _d(a).get('stream') or 'bytesio'
    return a[2] if len(a) > 2 else 'bytesio'


# ------------------------------------------------------------------ one image with a HUGE hash table
BIG_STRTAB = b'\0a\0bb\0ccc\0dddd\0'


def _evaluate_big(ctx, a, S):
    """A section-less image whose hash table has more than 2**20 buckets (or bloom words) and a handful of
    symbols.  The table bytes are certified by the Coq predicates sysv_valid / gnu_valid (the hypothesis of the
    count theorems, whose conclusion - the count is N - is the spec); the model is not run on 4 MB."""
    drv = ctx.driver
    le, is64, which, nsym, count, skind = a
    w = 8 if is64 else 4
    ehsz, phsz = (64, 56) if is64 else (52, 32)
    symsz, dynsz = (24 if is64 else 16), 2 * w
    def u(v, n):
        return int(v).to_bytes(n, 'little' if le else 'big')
    offs = [i for i, b in enumerate(BIG_STRTAB) if b == 0][:-1]
    names = [b''] + [_cstr(BIG_STRTAB, offs[(i % (len(offs) - 1)) + 1] + 1 - 1 + 1) for i in range(1, nsym)]
    nameoff = [0] + [offs[(i % (len(offs) - 1)) + 1] + 1 for i in range(1, nsym)]
    names = [_cstr(BIG_STRTAB, o) for o in nameoff]
    if which == 'sysv':
        nb = count
        bk = {}
        ch = [0] * nsym
        for i in range(nsym - 1, 0, -1):
            h = _elf_hash(names[i]) % nb
            ch[i] = bk.get(h, 0)
            bk[h] = i
        body = bytearray(4 * nb)
        for h, i in bk.items():
            body[4 * h:4 * h + 4] = u(i, 4)
        table = u(nb, 4) + u(nsym, 4) + bytes(body) + b''.join(u(c, 4) for c in ch)
        order = list(range(nsym))
        tag = DT['HASH']
    else:
        nb = count if which == 'gnu_buckets' else 3
        nbloom = count if which == 'gnu_bloom' else 2
        shift = 7
        hashed = sorted(range(1, nsym), key=lambda i: _gnu_hash(names[i]) % nb)
        order = [0] + hashed
        names = [names[i] for i in order]
        nameoff = [nameoff[i] for i in order]
        hs = [_gnu_hash(n) for n in names[1:]]
        C = 8 * w
        bloom = {}
        bk = {}
        chain = []
        for k, h in enumerate(hs):
            bk.setdefault(h % nb, 1 + k)
            last = k == len(hs) - 1 or hs[k + 1] % nb != h % nb
            chain.append((h & ~1) | (1 if last else 0))
            wi = (h // C) % nbloom
            bloom[wi] = bloom.get(wi, 0) | (1 << (h % C)) | (1 << ((h >> shift) % C))
        bl = bytearray(w * nbloom)
        for i, v in bloom.items():
            bl[w * i:w * i + w] = u(v, w)
        bb = bytearray(4 * nb)
        for h, i in bk.items():
            bb[4 * h:4 * h + 4] = u(i, 4)
        table = u(nb, 4) + u(1, 4) + u(nbloom, 4) + u(shift, 4) + bytes(bl) + bytes(bb) + b''.join(u(c, 4) for c in chain)
        tag = DT['GNU_HASH']
    # layout: ehdr, 2 phdrs, dynamic array, string table, symbol table, hash table; one PT_LOAD over everything
    delta = 0x10000
    o_dyn = ehsz + 2 * phsz
    ndyn = 6
    o_str = o_dyn + ndyn * dynsz
    o_sym = (o_str + len(BIG_STRTAB) + 7) & ~7
    o_hash = o_sym + nsym * symsz
    total = o_hash + len(table) + 3
    dyn = [[DT['STRTAB'], o_str + delta], [DT['STRSZ'], len(BIG_STRTAB)], [DT['SYMTAB'], o_sym + delta], [DT['SYMENT'], symsz],
           [tag, o_hash + delta], [0, 0]]
    reqs = [['enc', 'Ehdr', le, is64, [b'\x7fELF', 2 if is64 else 1, 1 if le else 2, 1, 0, 0, b'\0' * 7, 3, 62 if is64 else 3, 1, 0,
                                       ehsz, 0, 0, ehsz, phsz, 2, 0, 0, 0]]]
    for t, o, fs in ((1, 0, total), (2, o_dyn, ndyn * dynsz)):
        vals = [t, 4, o, o + delta, o + delta, fs, fs, 8] if is64 else [t, o, o + delta, o + delta, fs, fs, 4, 8]
        reqs.append(['enc', 'Phdr', le, is64, vals])
    for t, v in dyn:
        reqs.append(['enc', 'Dyn', le, is64, [t, v]])
    for i in range(nsym):
        vals = [nameoff[i], 1, 2, 0, 0, 0, 5, 0x100 * i, 8] if is64 else [nameoff[i], 0x100 * i, 8, 1, 2, 0, 0, 0, 5]
        reqs.append(['enc', 'Sym', le, is64, vals if i else [0] * 9])
    if which == 'sysv':
        reqs.append(['sysv_valid', le, table, nsym, False])
    else:
        reqs.append(['gnu_valid', le, is64, table, nsym])
    ans = drv.batch(reqs)
    recs = [x[0] for x in ans[:-1]]
    fit = all(x[1] for x in ans[:-1])
    valid = bool(ans[-1])
    img = bytearray(total)
    img[0:ehsz] = recs[0]
    img[ehsz:ehsz + 2 * phsz] = recs[1] + recs[2]
    img[o_dyn:o_dyn + ndyn * dynsz] = b''.join(recs[3:3 + ndyn])
    img[o_str:o_str + len(BIG_STRTAB)] = BIG_STRTAB
    img[o_sym:o_sym + nsym * symsz] = b''.join(recs[3 + ndyn:])
    img[o_hash:o_hash + len(table)] = table
    img = bytes(img)
    mk_sec, mk_seg, mk_file = _makers(img, lambda data: S.open(data, skind))
    impl = [_ok(lambda: mk_seg().num_symbols()), _ok(lambda: [s.name.encode('utf-8') for s in mk_seg().iter_symbols()]),
            _ok(lambda: mk_seg().num_tags())]
    spec = [['ok', nsym], ['ok', names], ['ok', ndyn]]
    ctx.bump('big', which)
    ctx.bump('stream_kind', skind)
    ctx.record('big', a, impl=impl, spec=spec, model=None, in_domain=valid and fit, nontrivial=True,
               key='sym:big/' + which)


def _evaluate_forced(ctx, kind, a, S):
    """Two more forced magnitudes, built like the `big` image (only small inputs go to the driver):
    `long`    - a section-less image whose string table holds a string of more than 1 MiB that a string-valued
                tag designates; the segment view must return all of it (spec: the Coq spec_tags over the entries
                and the table);
    `manysec` - an image with extended section numbering (e_shnum = 0, the count >= 0xff00 in section 0's
                sh_size; all but four headers are SHT_NULL) whose .dynamic section lies AT the segment's offset and
                links string table A, while DT_STRTAB maps to another table B with other strings at the same
                indices: section view and segment view resolve through the linked table A (what the code and the
                model do when a section lies at the segment's offset); the domain is the generator's."""
    drv = ctx.driver
    le, is64, tagname, size, skind = a
    w = 8 if is64 else 4
    ehsz, phsz, shsz = (64, 56, 64) if is64 else (52, 32, 40)
    dynsz = 2 * w
    delta = 0x20000
    if kind == 'long':
        longs = bytes(97 + (i * 7 + i // 251) % 26 for i in range(size))
        tabA = b'\0' + longs + b'\0libz.so.1\0'
        idx2 = len(longs) + 2
        nsec = 0
    else:
        tabA = b'\0libalpha.so.1\0beta/gamma\0'
        idx2 = 15
        nsec = size
    tabB = _swapcase(tabA)
    o_dyn = ehsz + 2 * phsz
    ents = [[DT[tagname], 1], [DT['NEEDED'], idx2], None, [DT['STRSZ'], len(tabA)], [0, 0]]
    o_a = o_dyn + len(ents) * dynsz
    o_b = o_a + len(tabA)
    shstr = b'\0.dynamic\0.dynstr\0.shstrtab\0'
    o_shstr = o_b + len(tabB)
    o_sh = (o_shstr + len(shstr) + 7) & ~7
    total = o_sh + nsec * shsz + 1
    ents[2] = [DT['STRTAB'], (o_b if kind == 'manysec' else o_a) + delta]
    reqs = [['enc', 'Ehdr', le, is64, [b'\x7fELF', 2 if is64 else 1, 1 if le else 2, 1, 0, 0, b'\0' * 7, 3, 62 if is64 else 3, 1, 0,
                                       ehsz, o_sh if nsec else 0, 0, ehsz, phsz, 2, shsz if nsec else 0, 0, 3 if nsec else 0]]]
    for t, o, fs in ((1, 0, total), (2, o_dyn, len(ents) * dynsz)):
        vals = [t, 4, o, o + delta, o + delta, fs, fs, 8] if is64 else [t, o, o + delta, o + delta, fs, fs, 4, 8]
        reqs.append(['enc', 'Phdr', le, is64, vals])
    for t, v in ents:
        reqs.append(['enc', 'Dyn', le, is64, [t, v]])
    rows = []
    if nsec:
        rows = [[0, 0, 0, 0, 0, nsec, 0, 0, 0, 0],                                            # the count lives here
                [1, SHT['DYNAMIC'], 3, o_dyn + delta, o_dyn, len(ents) * dynsz, 2, 0, 8, dynsz],
                [10, SHT['STRTAB'], 2, o_a + delta, o_a, len(tabA), 0, 0, 1, 0],
                [18, SHT['STRTAB'], 0, 0, o_shstr, len(shstr), 0, 0, 1, 0]]
        for r in rows:
            reqs.append(['enc', 'Shdr', le, is64, r])
    reqs.append(['spec_tags', le, is64, 62 if is64 else 3, 0, [[_signed(t, w), v] for t, v in ents], tabA])
    ans = drv.batch(reqs)
    recs = [x[0] for x in ans[:-1]]
    fit = all(x[1] for x in ans[:-1])
    st = ans[-1]
    img = bytearray(total)
    img[0:ehsz] = recs[0]
    img[ehsz:ehsz + 2 * phsz] = recs[1] + recs[2]
    img[o_dyn:o_dyn + len(ents) * dynsz] = b''.join(recs[3:3 + len(ents)])
    img[o_a:o_a + len(tabA)] = tabA
    img[o_b:o_b + len(tabB)] = tabB
    img[o_shstr:o_shstr + len(shstr)] = shstr
    for i, r in enumerate(recs[3 + len(ents):]):
        img[o_sh + i * shsz:o_sh + (i + 1) * shsz] = r
    img = bytes(img)
    mk_sec, mk_seg, mk_file = _makers(img, lambda data: S.open(data, skind))
    def tags(mk):
        d = mk()
        ts = list(d.iter_tags())
        return [_tagrepr(t) for t in ts]
    expected = ['ok', st[1]] if st != 'none' else ['err', 'no-terminator']
    impl = [_ok(lambda: tags(mk_seg)), _ok(lambda: mk_seg().num_tags())]
    spec = [expected, ['ok', len(ents)]]
    if nsec:
        impl += [_ok(lambda: tags(mk_sec)), _ok(lambda: mk_file().num_sections())]
        spec += [expected, ['ok', nsec]]
    ctx.bump('forced', kind)
    ctx.bump('stream_kind', skind)
    ctx.record(kind, a, impl=impl, spec=spec, model=None, in_domain=fit and st != 'none', nontrivial=True,
               key='dyn:%s/strings' % kind)


def _evaluate_main(ctx, cases, S):
    drv = ctx.driver
    plans = {}
    reqs = []
    index = []
    for ci, (kind, a) in enumerate(cases):
        if kind != 'img':
            continue
        P = _plan(a)
        plans[ci] = P
        for tag, r in P.reqs:
            index.append((ci, tag))
            reqs.append(r)
    answers = drv.batch(reqs)
    encs = {}
    unfit = set()
    for (ci, tag), ans in zip(index, answers):
        if isinstance(ans, list) and len(ans) == 2 and isinstance(ans[0], bytes):
            encs.setdefault(ci, {})[tag] = ans[0]
            if not ans[1]:
                unfit.add(ci)
        else:
            encs.setdefault(ci, {})[tag] = ans
    work = []
    for ci, (kind, a) in enumerate(cases):
        if kind == 'img':
            P = plans[ci]
            img, img2 = _assemble(P, encs[ci])
            A = P.A
            names = []
            if A['syms']:
                names = _pick_names([_cstr(A['strtab'], s[0]) for s in A['syms']])
            names.append(b'no_such_symbol')
            work.append(dict(kind=kind, a=a, P=P, img=img, img2=img2, names=names, unfit=ci in unfit))
        else:
            with open(os.path.join(str(REPO), 'test', 'testfiles_for_unittests', a[0]), 'rb') as fh:
                img = fh.read()
            img2 = _strip_file(img)
            work.append(dict(kind=kind, a=a, P=None, img=img, img2=img2, names=[b'no_such_symbol'], unfit=False))
    # names for real files: a few of the model's dynsym names
    reqs = []
    for wk in work:
        reqs.append(['observe', wk['img'], wk['names']])
    first = drv.batch(reqs)
    reqs = []
    for wk, m in zip(work, first):
        if wk['kind'] == 'file' and m[0] != 'err' and m[2][0] == 'ok':
            wk['names'] = _pick_names([s[8] for s in m[2][1]]) + [b'no_such_symbol']
            reqs.append(['observe', wk['img'], wk['names']])
    redo = iter(drv.batch(reqs))
    models = []
    for wk, m in zip(work, first):
        if wk['kind'] == 'file' and m[0] != 'err' and m[2][0] == 'ok':
            m = next(redo)
        models.append(m)
    reqs = []
    for wk in work:
        reqs.append(['observe', wk['img2'], wk['names']])
        reqs.append(['wf', wk['img']])
        reqs.append(['wf', wk['img2']])
        reqs.append(['stripped_of', wk['img'], wk['img2']])
        wk['hist'] = (_d(wk['a']).get('hist') if wk['kind'] == 'img' else (wk['a'][1] if len(wk['a']) > 1 else None))
        if wk['hist'] is not None:
            wk['prog'] = _raw_program(wk['hist'])
            reqs.append(['history', wk['img'], False, wk['prog']])
            reqs.append(['history', wk['img'], True, wk['prog']])
            reqs.append(['history', wk['img2'], True, wk['prog']])
        if wk['kind'] == 'img':
            A = wk['P'].A
            es = [[_signed(e[0], 8 if A['is64'] else 4), e[1]] for e in wk['P'].ents + wk['P'].extras]
            reqs.append(['spec_tags', bool(A['le']), bool(A['is64']), A['machine'], A['osabi'], es, A['strtab']])
            if A['form'] == 'foreign':
                es2 = [[_signed(e[0], 8 if A['is64'] else 4), e[1]] for e in wk['P'].ents2 + wk['P'].extras2]
                reqs.append(['spec_tags', bool(A['le']), bool(A['is64']), A['machine'], A['osabi'], es2, wk['P'].tab2])
    ans = iter(drv.batch(reqs))
    for wk, m1 in zip(work, models):
        m2 = next(ans)
        wf = next(ans)
        wf2 = next(ans)
        so = next(ans)
        rawh = [next(ans), next(ans), next(ans)] if wk['hist'] is not None else None
        kind, a = wk['kind'], wk['a']
        M1 = _split_model(m1)
        M2 = _split_model(m2)
        S.drop_files()
        skind = _stream_kind(kind, a)
        opener = (lambda data, k=skind: S.open(data, k))
        ctx.bump('stream_kind', skind)
        I1 = _observe_impl(wk['img'], wk['names'], opener)
        I2 = _observe_impl(wk['img2'], wk['names'], opener)
        def views(X1, X2):
            if X1[0] == 'err' or X2[0] == 'err':
                return [X1, X1, X2], [X1, X1, X2]
            return [X1[0], X1[1], X2[1]], [X1[3], X1[2], X2[2]]
        impl_core, impl_sym = views(I1, I2)
        model_core, model_sym = views(M1, M2)
        consistent, symcons = bool(wf[0]), bool(wf[1])
        in_core = consistent and bool(so) and not wk['unfit']
        in_sym = symcons and bool(so) and not wk['unfit']
        if kind == 'img':
            st = next(ans)
            P = wk['P']
            core, syms = _expected(P, st, wk['names'])
            sec_core = core
            if P.A['form'] == 'foreign':
                # the section holds another array linked to another table: each view is judged by its own
                # array and the table that array designates; the domain of the segment views is the Coq
                # predicate seg_consistent_b (original and stripped), the section view's is the generator's
                st2 = next(ans)
                sec_core, _ = _expected(P, st2, wk['names'], ents=P.ents2, strkey='strtab2')
                in_core = (bool(wf[2]) and bool(wf2[2]) and bool(so) and not wk['unfit'] and P.A['mut'] is None
                           and P.first_strtab_real)
                in_sym = False
                if sec_core[0] is None:
                    in_core = False
            if core[0] is None:
                spec_core = model_core
                in_core = in_sym = False
            else:
                spec_core = [sec_core, core, core]
            if syms is None:
                spec_sym = model_sym
                in_sym = False
            else:
                seg = [['ok', syms[0]], ['ok', syms[1]], ['ok', syms[2]], ['ok', syms[2]]]
                spec_sym = [['ok', syms[1]], seg, seg]
            nt = len(P.ents) > 3 or P.A['gnu'] is not None or P.A['sysv'] is not None or bool(P.A['rels'])
            ctx.bump('form', P.A['form'])
            ctx.bump('class', ('64' if P.A['is64'] else '32') + ('le' if P.A['le'] else 'be'))
            ctx.bump('hash', ('gnu' if P.A['gnu'] else '') + ('sysv' if P.A['sysv'] else '') or 'none')
            ctx.bump('machine/osabi', '%d/%d' % (P.A['machine'], P.A['osabi']))
            ctx.bump('tags', min(len(P.ents), 30))
            ctx.bump('loads', len(P.A['groups']))
            ctx.bump('malformed', str(P.A['mut']))
        else:
            # the section view of the original, as the model reads it, is the reference for all three views
            spec_core = [model_core[0]] * 3
            if isinstance(M1, list) and M1[0] != 'err' and M1[3][0] == 'ok':
                sl = M1[3][1]
                byname = []
                for n in wk['names']:
                    hit = [x for x in sl if x[8] == n]
                    byname.append(['some', hit] if hit else 'none')
                seg = [['ok', len(sl)], ['ok', sl], ['ok', byname], ['ok', byname]]
                spec_sym = [M1[3], seg, seg]
            else:
                spec_sym = model_sym
                in_sym = False
            nt = True
            ctx.bump('file', a[0])
        ctx.bump('in_domain', '%d%d' % (in_core, in_sym))
        key = _diffkey(impl_core, spec_core) if in_core else None
        ctx.record(kind, a, impl=impl_core, spec=spec_core, model=model_core, in_domain=in_core, nontrivial=nt,
                   key=('dyn:' + key) if key else 'dyn')
        key = _symkey(impl_sym, spec_sym) if in_sym else None
        ctx.record(kind + '-symbols', a, impl=impl_sym, spec=spec_sym, model=model_sym, in_domain=in_sym, nontrivial=nt,
                   key=('sym:' + key) if key else 'sym')
        # ---- histories: one object per view, a walk interrupted by other questions; the answers are the stateless ones
        hist = (_d(a).get('hist') if kind == 'img' else (a[1] if len(a) > 1 else None))
        if in_core and hist is not None:
            mk1, mk2 = _makers(wk['img'], opener), _makers(wk['img2'], opener)
            H_impl, H_spec, H_model = [], [], []
            hkey = None
            for vi, (view, mk) in enumerate([('sec', mk1[0]), ('seg', mk1[1]), ('seg', mk2[1])]):
                cv, mv = spec_core[vi], model_core[vi]
                if not (isinstance(cv, list) and len(cv) == 4 and cv[0][0] == 'ok' and cv[1][0] == 'ok'):
                    continue
                tags = cv[0][1]
                sv = spec_sym[vi] if (vi > 0 and in_sym and isinstance(spec_sym[vi], list) and len(spec_sym[vi]) == 4) else None
                hs = _history_expected(cv, sv, hist, tags, view, sv is not None)
                if isinstance(mv, list) and len(mv) == 4 and mv[0][0] == 'ok' and mv[1][0] == 'ok':
                    msv = model_sym[vi] if sv is not None else None
                    hm = _history_mask(_history_expected(mv, msv, hist, tags, view, sv is not None), hs)
                else:
                    hm = mv
                hi = _history_mask(_history_impl(mk, hist, tags, view), hs)
                if hi != hs and hkey is None:
                    hkey = ['section', 'segment', 'segment-stripped'][vi] + ('/walk' if hi[0] != 'ok' or hi[1][0] != hs[1][0] else '/answers')
                H_impl.append(hi); H_spec.append(hs); H_model.append(hm)
            # the same object questions, one tag at a time, against the STATEFUL Coq model (hrun) and its reference (rrun)
            R_impl, R_spec, R_model = [], [], []
            rkey = None
            for vi, mk in enumerate([mk1[0], mk1[1], mk2[1]]):
                m = rawh[vi]
                if not (isinstance(m, list) and len(m) == 2 and m[0] != 'err' and isinstance(m[1], list) and (not m[1] or m[1][0] != 'err')):
                    continue
                ri = _raw_history_impl(mk, wk['prog'])
                if ri != m[1] and rkey is None:
                    rkey = ['section', 'segment', 'segment-stripped'][vi] + '/raw'
                R_impl.append(ri); R_spec.append(m[1]); R_model.append(m[0])
            ctx.record(kind + '-rawhistory', a, impl=R_impl, spec=R_spec, model=R_model, in_domain=True, nontrivial=nt,
                       key=('hist:' + rkey) if rkey else 'rawhist')
            ctx.bump('history', str(hist[2][0][0]) if hist[2] else 'none')
            ctx.record(kind + '-history', a, impl=H_impl, spec=H_spec, model=H_model, in_domain=True, nontrivial=nt,
                       key=('hist:' + hkey) if hkey else 'hist')


def _strip_file(data):
    """e_shoff := 0, e_shnum := 0, e_shstrndx := 0 in place (the header layout is the gABI one)."""
    b = bytearray(data)
    is64 = data[4] == 2
    if is64:
        b[40:48] = b'\0' * 8
        b[60:64] = b'\0' * 4
    else:
        b[32:36] = b'\0' * 4
        b[48:52] = b'\0' * 4
    return bytes(b)
