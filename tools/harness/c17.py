"""C17 correspondence: symbolic names and numeric codes follow the ELF and DWARF registries.

cases   'pair'   [table, name, value]   every (name, value) pair of every live table (exhaustive)
        'decode' [field, config, code]  a minimal struct carrying `code` in a header field bound to a table,
                                        parsed by the REAL parser; the reported name is observed
        'gen'    [table]                the regenerated Gen table equals the live table (translator tie)
spec    the registry value of the name (Gen/Registry.v through the extracted driver)
impl    the live table value / the name the real parser reports (+ that name's registry value)
model   the Gen table value / Base/Enum.v enum_decode over the Gen table (extracted)"""
import io, struct

CLAIMED = True
CONFIG = {'assumptions': [
    'registry = names on which glibc 2.36 elf.h and LLVM 14 BinaryFormat headers (vendored under registry/) agree; '
    'names they define differently (EM_ALPHA, SHT_HIUSER, DT_LOOS, DT_HIOS, R_AARCH64_P32_TLS_DTPMOD/DTPREL, '
    'R_ARC_TLS_DTPOFF_S9) and counts (*_NUM, DT_PROCNUM ...) are excluded by the generator and listed in Gen/Registry.v',
    'library names are compared with registry names as exact C identifiers (no normalisation is needed)',
    'a library name the registries do not define is outside the quantifier (in_domain=False)'],
    'trusted_extra': ['tools/gen/gen_registry.py: mini C preprocessor + enum/#define scraper of the vendored headers']}
LEVEL = {'text': 'Machine-checked agreement of EVERY (name, value) pair of every enumeration / flag class / constant group '
                 'exported by the library (93 tables regenerated from the live modules on every run) with the registry '
                 'scraped from the vendored glibc elf.h and LLVM 14 ELF.h/ELFRelocs/DynamicTags.def/Dwarf.def/Dwarf.h: '
                 'finite domain enumerated completely (vm_compute of forallb, lifted with forallb_forall; the bound is '
                 'the table). Plus unbounded lemmas on the model of construct Enum/SymmetricMapping (last name in dict '
                 'order wins, _default_=Pass gives the raw integer) and the corollaries: a code found in a file is reported '
                 'under a name whose registry value is that code; a name selects the registry code.',
         'design_ref': '4.17',
         'technique': 'Coq proof by exhaustive vm_compute over regenerated tables + induction lemmas on the Enum model; '
                      'extracted registry/Enum model compared with the live tables and the real struct parsers',
         'note': 'Trusted: Coq kernel, the two generators (live-module walk; header scraper), vendored headers as the '
                 'registry, ExtrOcamlBasic extraction, harness. No axioms.'}

RULE = ('cases: exhaustive — every (table, name, value) pair of every live table (kind pair); for each header field bound '
        'to a table (sh_type, p_type, e_type, e_machine, e_version, EI_CLASS/DATA/OSABI, d_tag, st_info bind/type, '
        'st_other visibility, st_shndx, ch_type, n_type, versym ndx, DW_TAG, DW_CHILDREN, DW_AT, DW_FORM, DW_UT, DW_LLE, '
        'DW_RLE, DW_OP, DW_CFA) every distinct code of the table plus unnamed codes, carried by a minimal struct through '
        'the real parser (kind decode); one case per table that Gen = live (kind gen). distinct = hash(kind, abstract); '
        'non-trivial = the name has a registry counterpart (pair) / the reported name has one (decode)')

# ---------------------------------------------------------------- decode fields
# field -> list of (config, table A, table B or None): the parser decodes with dict(A) updated by B
ELF_MACH = {'EM_386': (32, True), 'EM_X86_64': (64, True), 'EM_ARM': (32, True), 'EM_AARCH64': (64, True),
            'EM_MIPS': (32, False), 'EM_RISCV': (64, True)}
FIELDS = {
    'sh_type': [('EM_386', 'ENUM_SH_TYPE_BASE', None), ('EM_X86_64', 'ENUM_SH_TYPE_AMD64', None),
                ('EM_ARM', 'ENUM_SH_TYPE_ARM', None), ('EM_AARCH64', 'ENUM_SH_TYPE_AARCH64', None),
                ('EM_MIPS', 'ENUM_SH_TYPE_MIPS', None), ('EM_RISCV', 'ENUM_SH_TYPE_RISCV', None)],
    'p_type': [('EM_386', 'ENUM_P_TYPE_BASE', None), ('EM_X86_64', 'ENUM_P_TYPE_BASE', None),
               ('EM_ARM', 'ENUM_P_TYPE_ARM', None), ('EM_AARCH64', 'ENUM_P_TYPE_AARCH64', None),
               ('EM_MIPS', 'ENUM_P_TYPE_MIPS', None), ('EM_RISCV', 'ENUM_P_TYPE_RISCV', None)],
    'd_tag': [('EM_X86_64', 'ENUM_D_TAG_COMMON', None), ('EM_MIPS', 'ENUM_D_TAG_COMMON', 'ENUM_D_TAG_MIPS'),
              ('EM_AARCH64', 'ENUM_D_TAG_COMMON', 'ENUM_D_TAG_AARCH64'),
              ('EM_386/ELFOSABI_SOLARIS', 'ENUM_D_TAG_COMMON', 'ENUM_D_TAG_SOLARIS')],
    'e_type': [('EM_X86_64', 'ENUM_E_TYPE', None)],
    'e_machine': [('EM_X86_64', 'ENUM_E_MACHINE', None)],
    'e_version': [('EM_X86_64', 'ENUM_E_VERSION', None)],
    'EI_CLASS': [('EM_X86_64', 'ENUM_EI_CLASS', None)],
    'EI_DATA': [('EM_X86_64', 'ENUM_EI_DATA', None)],
    'EI_OSABI': [('EM_X86_64', 'ENUM_EI_OSABI', None)],
    'st_bind': [('EM_X86_64', 'ENUM_ST_INFO_BIND', None), ('EM_386', 'ENUM_ST_INFO_BIND', None)],
    'st_type': [('EM_X86_64', 'ENUM_ST_INFO_TYPE', None), ('EM_386', 'ENUM_ST_INFO_TYPE', None)],
    'st_visibility': [('EM_X86_64', 'ENUM_ST_VISIBILITY', None)],
    'st_shndx': [('EM_X86_64', 'ENUM_ST_SHNDX', None)],
    'ch_type': [('EM_X86_64', 'ENUM_ELFCOMPRESS_TYPE', None), ('EM_386', 'ENUM_ELFCOMPRESS_TYPE', None)],
    'n_type': [('EM_X86_64', 'ENUM_NOTE_N_TYPE', None), ('EM_X86_64/ET_CORE', 'ENUM_CORE_NOTE_N_TYPE', None)],
    'versym_ndx': [('EM_X86_64', 'ENUM_VERSYM', None)],
    'DW_TAG': [('dwarf', 'ENUM_DW_TAG', None)],
    'DW_CHILDREN': [('dwarf', 'ENUM_DW_CHILDREN', None)],
    'DW_AT': [('dwarf', 'ENUM_DW_AT', None)],
    'DW_FORM': [('dwarf', 'ENUM_DW_FORM', None)],
    'DW_UT': [('dwarf', 'ENUM_DW_UT', None)],
    'DW_LLE': [('dwarf', 'ENUM_DW_LLE', None)],
    'DW_RLE': [('dwarf', 'ENUM_DW_RLE', None)],
    'DW_OP': [('dwarf', 'DW_OP_opcode2name', None)],
    'DW_CFA': [('dwarf', 'callframe_OPCODE_NAME_MAP', None)],
}
FIELD_MAX = {'st_bind': 15, 'st_type': 15, 'st_visibility': 7, 'st_shndx': 0xffff, 'versym_ndx': 0xffff,
             'e_type': 0xffff, 'e_machine': 0xffff, 'EI_CLASS': 255, 'EI_DATA': 255, 'EI_OSABI': 255,
             'DW_CHILDREN': 255, 'DW_UT': 255, 'DW_LLE': 255, 'DW_RLE': 255, 'DW_OP': 255, 'DW_CFA': 255,
             'd_tag': 2**63 - 1}


def _live_tables():
    from tools.gen import gen_tables
    tables, defaults, extra = gen_tables.collect()
    return tables, defaults


def gen(ctx):
    tables, defaults = _live_tables()
    by = dict(tables)
    cases = []
    for t, pairs in tables:
        cases.append(('gen', [t]))
        for n, v in pairs:
            cases.append(('pair', [t, n, v]))
    for field, cfgs in FIELDS.items():
        for cfg, ta, tb in cfgs:
            vals = [v for _, v in by[ta]] + ([v for _, v in by[tb]] if tb else [])
            mx = FIELD_MAX.get(field, 0xffffffff)
            if field == 'd_tag' and ELF_MACH[cfg.split('/')[0]][0] == 32:
                mx = 2**31 - 1              # Elf32_Sword
            seen = set()
            # every distinct code of the table, plus codes the table does not name (raw / error path)
            extra = [0, 1, mx, mx - 1] + [ctx.rng.randrange(mx + 1) for _ in range(ctx.scale(6, 60))]
            for v in vals + extra:
                if 0 <= v <= mx and v not in seen:
                    seen.add(v)
                    cases.append(('decode', [field, cfg, v]))
                    if cfg != 'dwarf' and (len(seen) % 3 == 0 or cfg.count('/')):
                        # the same code read through a struct factory restored from its pickled state / a copy
                        # (ELFStructs.__getstate__/__setstate__: how it reaches a worker process): same names
                        cases.append(('decode', [field, cfg, v, ('pickle', 'copy', 'deepcopy')[len(cases) % 3]]))
    return cases


# ---------------------------------------------------------------- the real parsers
def _uleb(v):
    out = bytearray()
    while True:
        b = v & 0x7f
        v >>= 7
        out.append(b | (0x80 if v else 0))
        if not v:
            return bytes(out)


_structs_cache = {}


def _elf_structs(cfg, how=None):
    from elftools.elf.structs import ELFStructs
    if how is not None:
        if (cfg, how) not in _structs_cache:
            import pickle, copy
            s, cls, e = _elf_structs(cfg)
            r = {'pickle': lambda x: pickle.loads(pickle.dumps(x)), 'copy': copy.copy, 'deepcopy': copy.deepcopy}[how](s)
            _structs_cache[(cfg, how)] = (r, cls, e)
        return _structs_cache[(cfg, how)]
    if cfg not in _structs_cache:
        parts = cfg.split('/')
        mach = parts[0]
        osabi = 'ELFOSABI_SOLARIS' if 'ELFOSABI_SOLARIS' in parts else 'ELFOSABI_SYSV'
        e_type = 'ET_CORE' if 'ET_CORE' in parts else 'ET_EXEC'
        cls, le = ELF_MACH[mach]
        s = ELFStructs(little_endian=le, elfclass=cls)
        s.create_basic_structs()
        s.create_advanced_structs(e_type, mach, osabi)
        _structs_cache[cfg] = (s, cls, '<' if le else '>')
    return _structs_cache[cfg]


def _dwarf_structs():
    from elftools.dwarf.structs import DWARFStructs
    if 'dwarf' not in _structs_cache:
        _structs_cache['dwarf'] = DWARFStructs(little_endian=True, dwarf_format=32, address_size=8, dwarf_version=5)
    return _structs_cache['dwarf']


def _observe(field, cfg, v, how=None):
    """Parse a minimal struct carrying code v in `field`; return what the parser reports for it."""
    from elftools.common.utils import struct_parse
    if cfg == 'dwarf':
        st = _dwarf_structs()
        if field in ('DW_TAG', 'DW_CHILDREN', 'DW_AT', 'DW_FORM'):
            tag, ch, at, form = 0x11, 1, 0x03, 0x08
            if field == 'DW_TAG':
                tag = v
            elif field == 'DW_CHILDREN':
                ch = v
            elif field == 'DW_AT':
                at = v
            else:
                form = v
            # one attribute spec, (an implicit_const value,) then the 0,0 terminator
            data = _uleb(tag) + bytes([ch]) + _uleb(at) + _uleb(form) + b'\x00' + b'\x00\x00'
            d = struct_parse(st.Dwarf_abbrev_declaration, io.BytesIO(data))
            if field == 'DW_TAG':
                return d['tag']
            if field == 'DW_CHILDREN':
                return d['children_flag']
            if (field == 'DW_AT' and v == 0 and form == 0) or not d['attr_spec']:
                return ('unobservable', 'terminator')
            return d['attr_spec'][0]['name' if field == 'DW_AT' else 'form']
        if field == 'DW_UT':
            data = struct.pack('<IHB', 60, 5, v) + bytes(60)
            try:
                return struct_parse(st.Dwarf_CU_header, io.BytesIO(data))['unit_type']
            except Exception as e:
                if 'SwitchError' in repr(e) or 'no default case' in str(e):
                    return ('unobservable', 'header Switch has no case for this unit type')
                raise
        if field in ('DW_LLE', 'DW_RLE'):
            con = st.Dwarf_loclists_entries if field == 'DW_LLE' else st.Dwarf_rnglists_entries
            data = bytes([v]) + bytes(64)
            lst = struct_parse(con, io.BytesIO(data))
            if not lst:
                return '%s_end_of_list' % field     # the loop stopped on this entry: it decoded to that name
            return lst[0]['entry_type']
        if field == 'DW_OP':
            from elftools.dwarf.dwarf_expr import DWARFExprParser
            p = DWARFExprParser(st)
            last = None
            for k in range(0, 40):
                try:
                    ops = p.parse_expr(bytes([v]) + bytes(k))
                except Exception as e:
                    last = e
                    continue
                if len(ops) >= 1 and ops[0].op == v:
                    return ops[0].op_name
            if isinstance(last, KeyError):
                return ('unobservable', 'no operand parser for this opcode')
            raise last
        if field == 'DW_CFA':
            from elftools.dwarf.callframe import instruction_name
            return instruction_name(v)
        raise ValueError(field)
    s, cls, e = _elf_structs(cfg, how)
    if field == 'sh_type':
        data = struct.pack(e + ('10I' if cls == 32 else 'IIQQQQIIQQ'), 1, v, 2, 3, 4, 5, 6, 7, 8, 9)
        return struct_parse(s.Elf_Shdr, io.BytesIO(data))['sh_type']
    if field == 'p_type':
        data = struct.pack(e + ('8I' if cls == 32 else 'IIQQQQQQ'), v, 1, 2, 3, 4, 5, 6, 7)
        return struct_parse(s.Elf_Phdr, io.BytesIO(data))['p_type']
    if field == 'd_tag':
        data = struct.pack(e + ('iI' if cls == 32 else 'qQ'), v, 0x1234)
        return struct_parse(s.Elf_Dyn, io.BytesIO(data))['d_tag']
    if field in ('e_type', 'e_machine', 'e_version', 'EI_CLASS', 'EI_DATA', 'EI_OSABI'):
        ident = bytearray(b'\x7fELF' + bytes([2 if cls == 64 else 1, 1 if e == '<' else 2, 1, 0]) + bytes(8))
        e_type, e_machine, e_version = 2, 62, 1
        if field == 'EI_CLASS':
            ident[4] = v
        elif field == 'EI_DATA':
            ident[5] = v
        elif field == 'EI_OSABI':
            ident[7] = v
        elif field == 'e_type':
            e_type = v
        elif field == 'e_machine':
            e_machine = v
        else:
            e_version = v
        data = bytes(ident) + struct.pack(e + ('HHIIIIIHHHHHH' if cls == 32 else 'HHIQQQIHHHHHH'),
                                          e_type, e_machine, e_version, 0, 0, 0, 0, 64, 56, 0, 64, 0, 0)
        h = struct_parse(s.Elf_Ehdr, io.BytesIO(data))
        return h['e_ident'][field] if field.startswith('EI_') else h[field]
    if field in ('st_bind', 'st_type', 'st_visibility', 'st_shndx'):
        info, other, shndx = 0x12, 0, 1
        if field == 'st_bind':
            info = (v << 4) | 2
        elif field == 'st_type':
            info = (1 << 4) | v
        elif field == 'st_visibility':
            other = v
        else:
            shndx = v
        if cls == 32:
            data = struct.pack(e + 'IIIBBH', 1, 2, 3, info, other, shndx)
        else:
            data = struct.pack(e + 'IBBHQQ', 1, info, other, shndx, 2, 3)
        sym = struct_parse(s.Elf_Sym, io.BytesIO(data))
        return {'st_bind': lambda: sym['st_info']['bind'], 'st_type': lambda: sym['st_info']['type'],
                'st_visibility': lambda: sym['st_other']['visibility'], 'st_shndx': lambda: sym['st_shndx']}[field]()
    if field == 'ch_type':
        data = struct.pack(e + ('III' if cls == 32 else 'IIQQ'), *([v, 10, 1] if cls == 32 else [v, 0, 10, 1]))
        return struct_parse(s.Elf_Chdr, io.BytesIO(data))['ch_type']
    if field == 'n_type':
        return struct_parse(s.Elf_Nhdr, io.BytesIO(struct.pack(e + 'III', 4, 0, v)))['n_type']
    if field == 'versym_ndx':
        return struct_parse(s.Elf_Versym, io.BytesIO(struct.pack(e + 'H', v)))['ndx']
    raise ValueError(field)


def _code(field, v):
    """The code a byte carries in `field`.  DWARF 6.4.2: a call-frame instruction byte whose high two
    bits are non-zero is a primary opcode (the low six bits are an operand)."""
    if field == 'DW_CFA' and v & 0xc0:
        return v & 0xc0
    return v


def _cfg_tables(field, cfg):
    for c, ta, tb in FIELDS[field]:
        if c == cfg:
            return ta, tb
    raise ValueError((field, cfg))


# ---------------------------------------------------------------- evaluate
def evaluate(ctx, cases):
    drv = ctx.driver
    live, defaults = _live_tables()
    live_d = {t: dict(p) for t, p in live}
    live_l = dict(live)
    reg_list = drv.one(['registry'])
    registry = {n: v for n, v in reg_list}
    gen_names = drv.one(['tables'])
    need = sorted({a[0] for k, a in cases if k in ('pair', 'gen')} & set(gen_names))
    gen_tabs = dict(zip(need, drv.batch([['table', t] for t in need])))
    gen_d = {t: {n: v for n, v in p} for t, p in gen_tabs.items()}

    dec = [(i, a) for i, (k, a) in enumerate(cases) if k == 'decode']
    reqs = []
    for i, (field, cfg, v) in [(i, a[:3]) for i, a in dec]:
        ta, tb = _cfg_tables(field, cfg)
        reqs.append(['decode', ta, _code(field, v)] if tb is None else ['decode_upd', ta, tb, v])
    dec_model = dict(zip([i for i, _ in dec], drv.batch(reqs)))

    n_reg = {}
    for i, (kind, a) in enumerate(cases):
        if kind == 'gen':
            t = a[0]
            impl = [[n, v] for n, v in live_l.get(t, [])]
            model = [list(x) for x in gen_tabs.get(t, [])]
            ctx.record(kind, a, impl=impl, spec=impl, model=model, in_domain=True, nontrivial=False,
                       key='C17/gen-table-differs-from-live/%s' % t)
        elif kind == 'pair':
            t, n, v0 = a
            v = live_d.get(t, {}).get(n)
            impl = ['absent'] if v is None else v
            in_reg = n in registry
            spec = registry[n] if in_reg else impl
            model = gen_d.get(t, {}).get(n, 'absent')
            model = ['absent'] if model == 'absent' else model
            ctx.bump('pairs_total', t)
            if in_reg:
                ctx.bump('pairs_in_registry', t)
                fam = 'DWARF' if n.startswith('DW_') else 'ELF'
                n_reg[fam] = n_reg.get(fam, 0) + 1
            # a pair that left the table (replay after a rename) is outside the quantifier
            ctx.record(kind, a, impl=impl, spec=spec, model=model, in_domain=in_reg and v is not None,
                       nontrivial=in_reg, key='C17/%s/%s' % (t, n))
        elif kind == 'decode':
            field, cfg, v = a[:3]
            how = a[3] if len(a) > 3 else None
            ta, tb = _cfg_tables(field, cfg)
            byte_v, v = v, _code(field, v)
            m = dec_model[i]                     # ['name', n] | ['raw', v] | ['err', 'MappingError']
            try:
                got = _observe(field, cfg, byte_v, how)
            except Exception as e:
                got = ('err', type(e).__name__)
            ctx.bump('decode_field', field)
            if isinstance(got, tuple) and got[0] == 'unobservable':
                ctx.bump('decode_unobservable', field)
                ctx.record(kind, a, impl=['unobservable', got[1]], spec=['unobservable', got[1]], model=None,
                           in_domain=False, nontrivial=False, key='C17/decode/%s' % field)
                continue
            if isinstance(got, str):
                # the registry value of the REPORTED name must be the code carried by the file
                impl = ['name', got, registry.get(got, v)]
                spec = ['name', got, v]
                name = got
                if m[0] == 'name' and m[1] != got and registry.get(m[1], v) == v:
                    # several registries name this code (OS- and processor-specific ranges overlap): the name to
                    # report is the one the configuration's own table gives it (decode_upd: the OS/machine table
                    # over the common one), which is a registry name for exactly this code
                    spec = ['name', m[1], v]
                    name = m[1]
            elif isinstance(got, int) and not isinstance(got, bool):
                impl = ['raw', got]
                name = m[1] if m[0] == 'name' else None
                spec = ['name', name, v] if name is not None else ['raw', v]
            else:
                # MappingError surfaces as ELFParseError (struct_parse wraps ConstructError); KeyError for
                # the plain dict lookups of DW_CFA
                cls = got[1]
                impl = ['err', 'MappingError' if cls in ('ELFParseError', 'MappingError', 'KeyError') else cls]
                name = m[1] if m[0] == 'name' else None
                spec = ['name', name, v] if name is not None else ['err', 'MappingError']
            if m[0] == 'name':
                model = ['name', m[1], registry.get(m[1], v)]
            elif m[0] == 'raw':
                model = ['raw', m[1]]
            else:
                model = ['err', 'MappingError']
            if field == 'DW_OP' and m[0] != 'name' and isinstance(got, str) and got.startswith('OP:'):
                impl = spec = model      # parse_expr's own placeholder for an unnamed opcode, not a table name
                name = None
            in_reg = name is not None and (name in registry or (isinstance(got, str) and got in registry))
            table = ta
            if tb and name is not None and name in live_d.get(tb, {}):
                table = tb
            ctx.bump('decode_outcome', impl[0])
            ctx.record(kind, a, impl=impl, spec=spec, model=model, in_domain=in_reg, nontrivial=in_reg,
                       key='C17/%s/%s' % (table, name) if name is not None else 'C17/decode/%s' % field)
        else:
            raise ValueError(kind)
    if any(k == 'pair' for k, _ in cases):
        tot = sum(1 for k, _ in cases if k == 'pair')
        ctx.notes.append('registry: %d names; pairs with a registry counterpart: %d of %d (ELF %d, DWARF %d)' % (
            len(registry), sum(n_reg.values()), tot, n_reg.get('ELF', 0), n_reg.get('DWARF', 0)))
        confl = sorted({n for t, p in live for n, _ in p} & set(_conflict_names(drv, live)))
        ctx.notes.append('library names excluded because glibc and LLVM disagree with each other: %s' % ', '.join(confl))


def _conflict_names(drv, live):
    names = sorted({n for t, p in live for n, _ in p})
    ans = drv.batch([['conflict', n] for n in names])
    return [n for n, a in zip(names, ans) if a]
