"""C11 correspondence: the DWARF view is invariant under container encoding.
impl  = the real ELFFile.has_dwarf_info / get_dwarf_info / get_dwarf_link on BytesIO images;
model = extracted Model/C11Elf.v + Model/C11Dwarf.v (zlib answers and the file system handed over as tables);
spec  = extracted Spec/C11Container.v (debug_view of the ORIGINAL file for every re-encoding, presence formula,
        CRC-32 by polynomial division, the framing encoders that produce every section body used here)."""
import hashlib, io, os, shutil, struct, tempfile, zlib
from concurrent.futures import ThreadPoolExecutor
from tools.lib import framework
from tools.harness import c11_util as U

CLAIMED = True
CONFIG = {'assumptions': [
    'zlib is an oracle: inflate(data, max_length) answers are computed by CPython zlib and handed to the model as a table; '
    'feeding 4096-byte chunks + flush() equals one decompress() call; in Coq it is a Section variable, the theorems assume '
    'only the law deflated(blob, content): inflate blob 0 = (content, eof) and inflate blob n = (content[:n], len(content) <= n)',
    'file system behind stream_loader = dict name -> bytes (an arbitrary function in the theorems)',
    'applying relocations is C08: the view records WHICH relocation section is applied to WHAT content '
    '(observed by wrapping RelocationHandler.apply_section_relocations); full dumps use the real relocation code',
    'section names compared as bytes (ASCII names)',
    '.eh_frame of a file reached through a debug link is not compared with the stripped file (objcopy --only-keep-debug '
    'turns it into NOBITS by construction)']}
LEVEL = {'text': 'Machine-checked, 30 theorems closed under the global context, universally quantified over the zlib oracle, '
                 'the loader and the reader of linked files. Specification level: the view handed to DWARFInfo (configuration, 19 '
                 'section slots with content / size / address / relocation section, supplementary view) of ANY abstract file is '
                 'unchanged by gABI compression of any set of plainly stored sections (any reserved word, alignment, offset, following '
                 'bytes, any complete zlib stream) [C11_view_invariant_gabi], by the legacy .zdebug framing decided per name with '
                 'relocation sections renamed along, mixed namings included [C11_view_invariant_zgnu; the per-name hypothesis is shown '
                 'necessary by an Example], by dropping the contents of every section the reader never asks for '
                 '[C11_view_invariant_keep_debug], and in general depends only on names, relocation roles and the payloads of the '
                 'observed names [C11_view_depends_on_payloads]; through a .gnu_debuglink with the right CRC it IS the linked file\'s '
                 'view, with a wrong CRC there is none, unfollowed links are inert [C11_view_through_debuglink, C11_only_keep_debug_workflow, '
                 'C11_debuglink_crc_mismatch_no_view, C11_debuglink_inert]; .gnu_debugaltlink and .debug_sup give the same supplementary '
                 'view = the supplementary file\'s own view, None without loader/follow_links [C11_view_altlink, C11_view_debugsup]. '
                 'The two link kinds compose: the loader is handed down, so through a debug link one sees the debug file\'s own view '
                 'including the supplementary view [C11_view_two_hop, C11_view_two_hop_altlink, C11_view_two_hop_debugsup]. '
                 'Model level: the transliteration of get_dwarf_info returns a DWARFInfo whose view is the specification\'s debug_view '
                 'and raises exactly when there is none, for every file the model of ELFFile() returns [C11_model_refines_spec], hence '
                 'the invariance holds of the model [C11_model_view_invariant_gabi/_zgnu, C11_transforms_constructible]; any sequence of '
                 'calls on one ELFFile object (state = the cached section name map) answers each call as a fresh object would, with the '
                 'view of that call\'s own flags [C11_calls_stateless, C11_calls_views]; has_dwarf_info = '
                 'the presence formula [C11_presence_exact(_img)]; bitwise CRC-32 = polynomial division, chunked = whole file; the model '
                 'raises ELFError on CRC mismatch, ELFCompressionError on bad legacy framing (repaired in /repo 30d0c52: the checks were assert '
                 'statements, void under python -O), ELFCompressionError when the declared size '
                 'differs from the inflated size in either direction (+ the pre-d25be29 acceptance as a witnessed theorem). '
                 'Code data tied by regeneration: the section-name tuple and DWARFInfo wiring of get_dwarf_info, the names of '
                 'has_dwarf_info / the link section, the legacy-framing constants, the shapes of Gnu_debuglink / Dwarf_debugsup / '
                 'Dwarf_debugaltlink and the tabulated Padding lambda are regenerated from the live code (tools/gen/gen_c11.py -> '
                 'Gen/C11Names.v) and proved equal to what Spec and Model use [C11_gen_tables_match_spec]. '
                 'Pinned by correspondence, not proved: model = code (impl/model/spec compared three ways on every case); parse_image '
                 'vs ELFFile(); applying relocations (C08); the DWARF dump being a function of the view (full DIE/line/CFI dumps of '
                 're-encoded compiler-produced seeds are compared).',
         'design_ref': '4.11', 'technique': 'Coq proof (layout round trip for Elf_Chdr, list/name lemmas, case analysis of the renaming, '
                                            'refinement model -> spec by induction on the link depth) + extracted-model correspondence',
         'note': 'Trusted: Coq kernel, extraction, harness, zlib as an oracle with the stated laws (jointly satisfiable: the stored codec, '
                 'Example C11_ex_oracle_law_satisfiable). No axioms. In-domain for the re-encoding kinds = the extracted Coq hypotheses '
                 '(gabi_choice_ok / zgnu_choice_ok && plain_names && no_phantom) hold. Model drift (out of domain): Section constructors '
                 'of SHT_HASH/SYMTAB... that raise ELFError while the section name map is built are not modelled (C19).'}
RULE = ('cases: every seed object under seeds/c11 and every ELF under test/testfiles_for_unittests, plain and re-encoded '
        '(gABI and legacy framing built by the Coq encoders at zlib levels 0-9, all/some/only-shrinking sections; objcopy '
        'zlib / zlib-gnu / only-keep-debug + debuglink variants; debug links with right and wrong CRC, with and without a '
        'loader, follow_links on/off; .gnu_debugaltlink / .debug_sup; unstripped files with their own info plus a debug link; 300 KB runs inside random data (multi-block zlib streams, real library only); '
        'the stock load_from_path loader on files in a temporary directory with ASCII / UTF-8 / non-UTF-8 link and directory names; '
        'DWARF 5 line tables naming directories/files by strp_sup / GNU_strp_alt into a supplementary file holding both string sections, '
        'against the plain table; relocate_dwarf_sections drawn independently of follow_links through links to relocatable objects; '
        'legacy/gABI declared sizes off by multiples of 2^32 and 2^63; the malformed framings also in the file behind a supplementary / debug link; '
        'a stored checksum word of 0 against a target whose CRC is not 0; call sequences on one ELFFile object (each answer = the stateless view of its own flags); pairs carrying the '
        'same NT_GNU_BUILD_ID note with per-byte CRC corruptions and payload modifications; two-hop chains debug link -> supplementary link (own builders and the '
        'dwz-produced test files whose DIEs use the alt/sup forms); keep-debug = unobserved sections made SHT_NOBITS), presence truth table over all subsets of {.debug_info, .zdebug_info, '
        '.eh_frame, .gnu_debuglink, .gnu_debugaltlink, .debug_sup} x strict x loader x class x byte order on section-only files, '
        'also x the section TYPE of each name (PROGBITS / NOBITS / NOTE / OS-specific) with has_dwarf_info compared to what '
        'get_dwarf_info() then offers; stream kinds (file, small buffer, mmap, gzip, decoy fd ...) drawn for the file and for what the '
        'loader hands out; one unit with DW_FORM_strp and strp_sup / GNU_strp_alt attributes at EQUAL offsets (entry strings against '
        'the same entries with inline strings, two passes); '
        'synthetic images in all class/byte-order '
        'combinations, presence truth table, malformed framings. distinct = hash(kind, abstract); non-trivial = at least '
        'one section re-encoded, a link followed, or an error case')

SEEDS = framework.VERIF / 'seeds' / 'c11' / 'bin'
TESTFILES = framework.REPO / 'test' / 'testfiles_for_unittests'
MODEL_MAX = 70000          # bytes: larger images are compared impl-vs-impl only (dumps)
SLOT_ATTRS = ['debug_info_sec', 'debug_aranges_sec', 'debug_abbrev_sec', 'debug_str_sec', 'debug_line_sec',
              'debug_frame_sec', 'debug_loc_sec', 'debug_ranges_sec', 'debug_pubtypes_sec', 'debug_pubnames_sec',
              'debug_addr_sec', 'debug_str_offsets_sec', 'debug_line_str_sec', 'debug_loclists_sec',
              'debug_rnglists_sec', 'debug_sup_sec', 'gnu_debugaltlink_sec', 'debug_types_sec', 'eh_frame_sec']
REJECT = {'AssertionError', 'ELFError', 'ELFParseError', 'ELFCompressionError', 'ELFRelocationError', 'DWARFError',
          'error', 'FieldError', 'ArrayError', 'FileNotFoundError'}


# ---------------------------------------------------------------- sources
def _src_path(src):
    kind, name = src.split(':', 1)
    return (SEEDS if kind == 'seed' else TESTFILES) / name


_cache = {}


def src_bytes(src):
    if src not in _cache:
        _cache[src] = _src_path(src).read_bytes()
    return _cache[src]


def seed_bases():
    return sorted(p.name for p in SEEDS.iterdir()
                  if not p.name.endswith(('.zlib', '.zgnu', '.dbg', '.stripped', '.zdbg', '.zstripped')))


def test_elfs():
    out = []
    for p in sorted(TESTFILES.iterdir()):
        if p.is_file():
            with open(p, 'rb') as f:
                if f.read(4) == b'\x7fELF':
                    out.append(p.name)
    return out


# ---------------------------------------------------------------- zlib oracle
def oracle_answer(blob, maxlen):
    d = zlib.decompressobj()
    try:
        if maxlen >= 2 ** 63:
            return [blob, maxlen, 'none']                # decompress() raises OverflowError before touching the data
        if maxlen == 0:
            out = b''
            for i in range(0, len(blob), 4096):        # the legacy reader's loop
                out += d.decompress(blob[i:i + 4096])
            out += d.flush()
        else:
            out = d.decompress(blob, maxlen)
        return [blob, maxlen, ['some', out, int(d.eof)]]
    except zlib.error:
        return [blob, maxlen, 'none']


def pbatch(drv, reqs, workers=8):
    if len(reqs) < 16:
        return drv.batch(reqs)
    n = min(workers, len(reqs))
    chunks = [reqs[i::n] for i in range(n)]
    with ThreadPoolExecutor(n) as ex:
        res = list(ex.map(drv.batch, chunks))
    out = [None] * len(reqs)
    for k, r in enumerate(res):
        out[k::n] = r
    return out


# ---------------------------------------------------------------- link names (independent of the library)
def _cstr(b, off=0):
    e = b.find(b'\0', off)
    return b[off:e] if e >= 0 else None


def linked_names(img):
    try:
        elf = U.Elf(img)
    except Exception:                                   # noqa
        return []
    out = []
    for nm, off in ((b'.gnu_debuglink', 0), (b'.gnu_debugaltlink', 0), (b'.debug_sup', 3)):
        i = elf.index(nm)
        if i is not None:
            s = elf.secs[i]
            n = _cstr(elf.img[s['sh_offset']:s['sh_offset'] + 4096], off)
            if n:
                out.append(n)
    return out


def fs_closure(img, lookup, depth=3):
    """name -> bytes for every file reachable through link sections"""
    fs = {}
    todo = [img]
    for _ in range(depth):
        nxt = []
        for im in todo:
            for n in linked_names(im):
                if n not in fs:
                    b = lookup(n)
                    if b is not None:
                        fs[n] = b
                        nxt.append(b)
        todo = nxt
    return fs


def dir_lookup(src):
    d = _src_path(src).parent
    def look(name):
        try:
            p = d / os.path.basename(name.decode('latin-1'))
            return p.read_bytes() if p.is_file() else None
        except Exception:                               # noqa
            return None
    return look


# ---------------------------------------------------------------- observing the implementation
_arch_cache = {}


def arch_of(raw):
    """machine_arch string for a raw e_machine, through the library's own enum and table"""
    if raw not in _arch_cache:
        from elftools.elf.elffile import ELFFile
        from elftools.elf.enums import ENUM_E_MACHINE
        rev = {}
        for k, v in ENUM_E_MACHINE.items():
            if k != '_default_':
                rev[v] = k
        name = rev.get(raw, raw)
        class H:
            def __getitem__(self, k):
                return name
        _arch_cache[raw] = ELFFile.get_machine_arch(H())
    return _arch_cache[raw]


_S = None                                                 # the Streams() of the running evaluate()
# a loader hands out freshly opened streams: only the kinds that start at offset 0
LOADER_KINDS = ('bytesio', 'file', 'file_small', 'mmap', 'gzip', 'decoy_fd')


def _stream(data, sk='bytesio'):
    if sk == 'bytesio' or _S is None:
        return io.BytesIO(data)
    return _S.open(data, sk)


def _loader_of(fs, sk='bytesio'):
    if fs is None:
        return None
    def loader(name):
        if name in fs:
            return _stream(fs[name], sk if sk in LOADER_KINDS else 'file')
        raise FileNotFoundError(name)
    return loader


def _slots_of(di, captured):
    out = []
    for a in SLOT_ATTRS:
        d = getattr(di, a)
        if d is None:
            out.append('none')
            continue
        cap = captured.get(id(d.stream))
        data = cap[1] if cap else d.stream.getvalue()
        out.append([d.name.encode('utf-8'), d.global_offset, data, d.size, d.address, cap[0] if cap else 'none'])
    return out


def impl_view(img, fs, relocate, follow, elffile=None, sk='bytesio'):
    """[cfg, slots, sup] or ['err', class]; relocations are observed, not performed.  With `elffile` the call is made
    on that (already used) ELFFile object instead of a fresh one"""
    from elftools.elf.elffile import ELFFile
    from elftools.elf.relocation import RelocationHandler
    captured = {}
    orig = RelocationHandler.apply_section_relocations
    def spy(self, stream, reloc_section):
        idx = 'none'
        for i, s in enumerate(self.elffile.iter_sections()):
            if s.name == reloc_section.name and s.header == reloc_section.header:
                idx = i
                break
        captured[id(stream)] = (idx, stream.getvalue())
    RelocationHandler.apply_section_relocations = spy
    try:
        e = elffile if elffile is not None else ELFFile(_stream(img, sk), _loader_of(fs, sk))
        di = e.get_dwarf_info(relocate_dwarf_sections=relocate, follow_links=follow)
        cfg = [int(di.config.little_endian), di.config.default_address_size, di.config.machine_arch]
        sup = 'none'
        if di.supplementary_dwarfinfo is not None:
            s = di.supplementary_dwarfinfo
            sup = [[int(s.config.little_endian), s.config.default_address_size, s.config.machine_arch],
                   _slots_of(s, captured)]
        return [cfg, _slots_of(di, captured), sup]
    except RecursionError:
        return ['err', 'RecursionError']
    except Exception as ex:                             # noqa: every class is an observation
        return ['err', type(ex).__name__]
    finally:
        RelocationHandler.apply_section_relocations = orig


def impl_dump(img, fs, follow=True, eh=True, elffile=None, sk='bytesio'):
    from elftools.elf.elffile import ELFFile
    try:
        e = elffile if elffile is not None else ELFFile(_stream(img, sk), _loader_of(fs, sk))
        di = e.get_dwarf_info(follow_links=follow)
        h, c = U.full_dump(di, eh=eh)
        return [h, c['cus'], c['dies'], c['lines'], c['cfi'], c['ehcfi'] if eh else 0, c['tus']]
    except Exception as ex:                             # noqa
        return ['err', type(ex).__name__]


# ---------------------------------------------------------------- canonical shapes
def _cfg_model(c):
    return [c[0], c[1], arch_of(c[2])]


def _dg(b):
    """long contents are recorded as (length, digest): equality is what matters, evidence and replays stay small"""
    if isinstance(b, (bytes, bytearray)) and len(b) > 48:
        return ['bytes', len(b), hashlib.sha256(bytes(b)).hexdigest()[:20]]
    return b


def _dg_slots(slots):
    return [s if s == 'none' else [(_dg(x) if isinstance(x, (bytes, bytearray)) else x) for x in s] for s in slots]


def split_impl(v):
    """impl/model full view -> (spec-level view, extras)"""
    if v[0] == 'err':
        return 'rejected', v[1]
    cfg, slots, sup = v
    slots = _dg_slots(slots)
    if sup != 'none':
        sup = [sup[0], _dg_slots(sup[1])]
    core = [cfg, [s if s == 'none' else s[2:] for s in slots],
            sup if sup == 'none' else [sup[0], [s if s == 'none' else s[2:] for s in sup[1]]]]
    extra = [[s if s == 'none' else s[:2] for s in slots],
             'none' if sup == 'none' else [s if s == 'none' else s[:2] for s in sup[1]]]
    return core, extra


def split_model(m):
    if m[0] == 'err':
        return 'rejected', m[1]
    cfg, slots, sup = m[1]
    v = [_cfg_model(cfg), slots, sup if sup == 'none' else [_cfg_model(sup[0]), sup[1]]]
    return split_impl(v)


def canon_spec(s):
    if s == 'none':
        return 'rejected'
    cfg, slots, sup = s[1]
    return [_cfg_model(cfg), _dg_slots(slots), sup if sup == 'none' else [_cfg_model(sup[0]), _dg_slots(sup[1])]]


def data_slots(core, drop=(15, 16, 18)):
    """the debug-data part of a view: link-carrier slots and .eh_frame left out"""
    if core == 'rejected':
        return core
    return [core[0], [s for i, s in enumerate(core[1]) if i not in drop]]


# ---------------------------------------------------------------- generation
def gen(ctx):
    rng = ctx.rng
    cases = []
    seeds = seed_bases()
    tests = test_elfs()
    thorough = ctx.tier == 'thorough'
    # plain files: identity transform, every loader/follow combination
    for name in seeds:
        cases.append(('plain', ['seed:' + name, 1, 1, 0]))
        cases.append(('plain', ['seed:' + name, 0, 0, 0]))
        for ext in ('zlib', 'zgnu'):
            cases.append(('objcopy', ['seed:' + name, ext]))
    from tools.lib.streams import KINDS as STREAM_KINDS
    picked = [('seed:', n) for n in seeds] + [('test:', n) for n in tests[::ctx.scale(5, 1)]]
    for k, (pre, name) in enumerate(picked):              # every stream kind meets get_dwarf_info (and the loader)
        src = pre + name
        cases.append(('plain', [src, 1, 1, 1, STREAM_KINDS[1 + k % (len(STREAM_KINDS) - 1)]]))
    for name in tests:
        for reloc, follow, ld in ((1, 1, 1), (1, 1, 0), (0, 0, 1), (1, 0, 0)):
            cases.append(('plain', ['test:' + name, reloc, follow, ld]))
        cases.append(('presence_file', ['test:' + name]))
    for name in seeds:
        cases.append(('presence_file', ['seed:' + name]))
        cases.append(('presence_file', ['seed:' + name + '.stripped']))
    # re-encodings by the Coq builders
    levels = list(range(10))
    srcs = ['seed:' + n for n in seeds] + ['test:' + n for n in tests]
    for src in srcs:
        is_seed = src.startswith('seed:')
        per = ctx.scale(3 if is_seed else 1, 10)
        for k in range(per):
            lv = levels[(k * 3 + rng.randrange(10)) % 10] if per < 10 else k
            cases.append(('gabi', [src, lv, rng.choice(['all', 'some']), rng.getrandbits(32)]))
            cases.append(('zgnu', [src, lv, rng.choice(['all', 'some', 'shrink']), rng.getrandbits(32)]))
    # keep-debug: contents of the sections the DWARF reader never asks for are dropped (SHT_NOBITS)
    for src in srcs:
        cases.append(('keepdebug', [src]))
    # debug links
    for name in seeds:
        src = 'seed:' + name
        cases.append(('link', [src, 'objcopy', 'right', 1, 1, 'plain']))
        cases.append(('link', [src, 'objcopy', 'wrong', 1, 1, 'plain']))
        cases.append(('link', [src, 'own', 'right', 1, 1, rng.choice(['plain', 'gabi', 'zgnu'])]))
        cases.append(('link', [src, 'own', rng.choice(['wrong', 'flip']), 1, 1, 'plain']))
        cases.append(('link', [src, 'own', 'right', 0, 1, 'plain']))      # follow_links=False
        cases.append(('link', [src, 'own', 'right', 1, 0, 'plain']))      # no loader
        cases.append(('link', [src, 'own', 'right', 1, 2, 'plain']))      # loader without the file
    for k, name in enumerate(seeds):                      # single-bit CRC errors in every byte of the checksum
        cases.append(('link', ['seed:' + name, 'own', 'flip%d' % [31, 24, 16, 8, 0][k % 5], 1, 1, 'plain']))
    for k, name in enumerate(seeds):                      # pairs carrying the same build-id note: the CRC still decides
        src = 'seed:' + name
        cases.append(('link', [src, 'ownid', 'flip%d' % [0, 8, 16, 24, 31, 5, 13, 21, 29][k % 9], 1, 1, 'plain']))
        cases.append(('link', [src, 'ownid', 'payload', 1, 1, 'plain']))
        cases.append(('link', [src, ['own', 'ownid'][k % 2], 'zero', 1, 1, 'plain']))      # checksum word 0 is a checksum
        if k % 3 == 0:
            cases.append(('link', [src, 'ownid', 'right', 1, 1, 'plain']))
            cases.append(('link', [src, 'ownid', 'wrong', 1, 1, 'plain']))
    cases.append(('link', ['seed:gcc_d5_exe', 'zdbg', 'right', 1, 1, 'plain']))
    cases.append(('link', ['test:debuglink', 'testpair', 'right', 1, 1, 'plain']))
    for name in seeds[:ctx.scale(3, len(seeds))]:
        cases.append(('link_path', ['seed:' + name]))
    # two hops: stripped --.gnu_debuglink--> debug file --.gnu_debugaltlink/.debug_sup--> supplementary file
    for k in range(0, len(seeds), ctx.scale(2, 1)):
        a, b = seeds[k], seeds[(k + 7) % len(seeds)]
        cases.append(('chain', ['seed:' + a, 'seed:' + b, ['alt', 'sup'][(k // 2) % 2], 'own', rng.getrandbits(32)]))
    for name in tests:
        if name.endswith('.debug') and ('altlink' in name or 'debugsup' in name):      # dwz-produced: alt/sup FORMS in the DIEs
            cases.append(('chain', ['test:' + name, '', '', 'test', rng.getrandbits(32)]))
            cases.append(('chain', ['test:' + name, '', '', 'test', rng.getrandbits(32), 0]))
    # the two options are independent: relocate_dwarf_sections=False through a link, the linked file being a
    # relocatable object (its .rela.debug_* must NOT be applied) that has a supplementary link of its own (still followed)
    objs = [n for n in seeds if n.endswith('.o')]
    for k, name in enumerate(objs):
        cases.append(('chain', ['seed:' + name, 'seed:' + seeds[(k + 2) % len(seeds)], ['alt', 'sup'][k % 2], 'own',
                                rng.getrandbits(32), 0]))
        cases.append(('chain', ['seed:' + name, 'seed:' + seeds[(k + 3) % len(seeds)], ['sup', 'alt'][k % 2], 'own',
                                rng.getrandbits(32), k % 2, STREAM_KINDS[1 + k % (len(STREAM_KINDS) - 1)]]))
        cases.append(('link', ['seed:' + name, 'own', 'right', 1, 1, 'plain', 0]))
        if k % 2 == 0:
            cases.append(('chain', ['seed:' + name, 'seed:' + seeds[(k + 5) % len(seeds)], ['sup', 'alt'][k % 2], 'own',
                                    rng.getrandbits(32), 1]))
            cases.append(('link', ['seed:' + name, 'own', 'right', 0, 1, 'plain', 0]))
    # files that carry their OWN debug info (either naming, or gABI-compressed) AND a .gnu_debuglink: the link is inert
    for k, name in enumerate(seeds):
        other = seeds[(k + 4) % len(seeds)]
        cases.append(('link_own', ['seed:' + name, 'seed:' + other, ['zgnu', 'plain', 'gabi'][k % 3],
                                   ['right', 'wrong'][(k // 3) % 2], rng.getrandbits(32)]))
        if k % 4 == 0:
            cases.append(('link_own', ['seed:' + name, 'seed:' + other, 'zgnu', 'right', rng.getrandbits(32)]))
    # long highly compressible runs inside incompressible data: multi-block zlib streams whose middle block expands
    # far beyond any fixed per-block output bound (both framings)
    for le in (0, 1):
        for is64 in (0, 1):
            for T in ('zgnu', 'gabi'):
                for shape in ('zeros', 'repeat'):
                    cases.append(('bigrun', [le, is64, T, shape, rng.choice([1, 6, 9]), rng.getrandbits(32)]))
    # the STOCK stream loader (ELFFile.load_from_path / make_relative_loader) on real files in a temporary directory
    small = [n for n in seeds if n.endswith('_exe')][:3] or seeds[:3]
    k = 0
    for lk in ('debuglink', 'alt', 'sup'):
        for nc in ('ascii', 'utf8', 'latin1', 'subdir'):
            for dc, pt in (('ascii', 'bytes'), ('ascii', 'str'), ('utf8', 'str'), ('latin1', 'bytes')):
                cases.append(('stock_loader', ['seed:' + small[k % len(small)], 'seed:' + small[(k + 1) % len(small)],
                                               lk, nc, dc, pt, rng.getrandbits(32)]))
                k += 1
    # DWARF 5 line tables whose directory / file names are DW_FORM_strp_sup / DW_FORM_GNU_strp_alt references into a
    # supplementary file that has BOTH .debug_str and .debug_line_str (different strings at the same offsets),
    # against the same table stored plainly (DW_FORM_strp / DW_FORM_line_strp into the file's own tables)
    for le in (0, 1):
        for is64 in (0, 1):
            for enc in ('alt', 'sup'):
                for ref in ('strp', 'line_strp'):
                    cases.append(('lnsup', [le, is64, enc, ref, rng.getrandbits(32)]))
                    cases.append(('lnsup', [le, is64, enc, ref, rng.getrandbits(32), rng.choice(STREAM_KINDS[1:])]))
    # call sequences on ONE ELFFile object: the answer to a call depends on its own arguments only
    seqs = [[(1, 1), (1, 0)], [(1, 0), (1, 1)], [(1, 1), (0, 0), (1, 1), (0, 1)], [(0, 0), (1, 1), (1, 0), (0, 1), (0, 0)]]
    for k in range(0, len(seeds), ctx.scale(3, 1)):
        a, b = seeds[k], seeds[(k + 3) % len(seeds)]
        for j, sq in enumerate(seqs[:ctx.scale(2, 4)] if k else seqs):
            for ld in (1, 0):
                cases.append(('seq', ['seed:' + a, 'seed:' + b, ['alt', 'sup'][(k + j) % 2], 'own', ld, sq, rng.getrandbits(32)]))
    for name in tests:
        if name.endswith('.debug') and ('altlink' in name or 'debugsup' in name):
            for sq in seqs[:2]:
                cases.append(('seq', ['test:' + name, '', '', 'test', 1, sq, rng.getrandbits(32)]))
    # supplementary links
    pairs = [(seeds[i], seeds[(i + 5) % len(seeds)]) for i in range(0, len(seeds), ctx.scale(3, 1))]
    for a, b in pairs:
        for enc in ('alt', 'sup', 'both', 'supfile'):
            for follow, ld in ((1, 1), (1, 0), (0, 1)):
                cases.append(('sup', ['seed:' + a, 'seed:' + b, enc, follow, ld, rng.getrandbits(32)]))
    # presence truth table on synthetic images
    for le in (0, 1):
        for is64 in (0, 1):
            for mask in range(8):
                for strict in (0, 1):
                    cases.append(('presence', [le, is64, mask, strict, rng.getrandbits(16)]))
    # full truth table of presence on section-only files: every subset of the six debug-ish section names x strict x
    # loader present or not x class x byte order (files whose ONLY debug-ish section is a link carrier included)
    for le in (0, 1):
        for is64 in (0, 1):
            for mask in range(64):
                for strict in (0, 1):
                    for ld in (0, 1):
                        cases.append(('presence_tt', [le, is64, mask, strict, ld, rng.getrandbits(16)]))
    # ... x the section TYPE of each name (presence is decided by NAMES: an SHT_NOBITS .eh_frame / .debug_info, as
    # objcopy --only-keep-debug leaves them, or any other type, counts) x the stream kind of the file
    TT_TYPES = (1, 8, 7, 0x60000001)
    for le in (0, 1):
        for is64 in (0, 1):
            for mask in range(1, 64):
                for strict in (0, 1):
                    types = [rng.choice(TT_TYPES) for _ in range(6)]
                    types[(mask + strict) % 6] = 8
                    cases.append(('presence_tt', [le, is64, mask, strict, rng.randrange(2), rng.getrandbits(16), types,
                                                  rng.choice(STREAM_KINDS)]))
    for t in TT_TYPES:                                    # each name alone, each type, both modes
        for k in range(6):
            for strict in (0, 1):
                cases.append(('presence_tt', [k % 2, (k // 2) % 2, 1 << k, strict, 0, rng.getrandbits(16),
                                              [t] * 6, 'bytesio']))
    # synthetic payloads, all class / byte order combinations, phantom bytes
    for le in (0, 1):
        for is64 in (0, 1):
            for k in range(ctx.scale(6, 40)):
                mach, fl = rng.choice([(62, 0), (3, 0), (8, 0x70001007), (118, 0), (118, 0x80000000), (40, 0x5000400)])
                cases.append(('synth', [le, is64, mach, fl, rng.getrandbits(32),
                                        rng.choice(['gabi', 'zgnu', 'mixed']), rng.randrange(10)]))
    # malformed legacy framing / gABI framing
    zsrcs = ['seed:gcc_d5_exe', 'seed:clang_d4_exe', 'seed:gcc_d4_m32_obj.o'] + (['seed:' + n for n in seeds] if thorough else [])
    for src in zsrcs:
        for mut in ('magic0', 'magic3', 'magic_lower', 'size+1', 'size-1', 'size0', 'sizeLE', 'size_huge', 'trunc_half',
                    'trunc_1', 'trunc_4', 'trunc_all', 'short12', 'short5', 'garbage', 'trailing', 'empty_payload'):
            cases.append(('zbad', [src, mut, rng.getrandbits(32)]))
        for mut in ('size+2^32', 'size+2^33', 'size+2^40', 'size+2^63', 'size_hi_ones'):     # right low word, wrong high word
            cases.append(('zbad', [src, mut, rng.getrandbits(32)]))
        for mut in ('size+1', 'size-1', 'size1', 'size0', 'size_huge', 'type', 'trunc_half', 'trunc_4', 'garbage', 'trailing',
                    'chdr_short', 'size+2^32', 'size+2^40', 'size_hi_ones'):
            cases.append(('gbad', [src, mut, rng.getrandbits(32)]))
    # the same malformed framings in the file BEHIND a supplementary link / a debug link: still rejected
    for k, src in enumerate(zsrcs[:3]):
        for where in ('sup', 'link'):
            for mut in ('magic0', 'size+1', 'trunc_half', 'size+2^32', 'short5', 'trailing'):
                cases.append(('zbad', [src, mut, rng.getrandbits(32), where]))
            for mut in ('size+1', 'size-1', 'type', 'trunc_half', 'trailing'):
                cases.append(('gbad', [src, mut, rng.getrandbits(32), where]))
    # CRC-32
    cases.append(('crc', [b'123456789']))
    cases.append(('crc', [b'']))
    for n in [1, 2, 3, 4, 5, 31, 32, 33, 255, 4095, 4096, 4097, 8191, 8192, 8193, 12288] + \
             [rng.randrange(0, 20000) for _ in range(ctx.scale(10, 100))]:
        cases.append(('crc_rand', [n, rng.getrandbits(32)]))
    # .gnu_debuglink parsing
    for le in (0, 1):
        for L in range(0, 10):
            nm = bytes(rng.choice(b'abcdefghijklmnopqrstuvwxyz._-/0123456789') for _ in range(L))
            cases.append(('linkparse', [le, nm, 'zero', rng.getrandbits(32), -1]))
            cases.append(('linkparse', [le, nm, 'junk', rng.getrandbits(32), -1]))
            cases.append(('linkparse', [le, nm, 'zero', rng.getrandbits(32), rng.randrange(0, L + 8)]))
    return cases


# ---------------------------------------------------------------- building the inputs of one case
def _debug_secs(elf):
    return [i for i, s in enumerate(elf.secs)
            if s['name'].startswith(b'.debug_') and s['sh_type'] == U.SHT_PROGBITS and not s['sh_flags'] & U.SHF_COMPRESSED]


def _select(elf, mode, rng, level, by_name=False):
    """indices of the sections to re-encode.  by_name (legacy framing renames, so the choice is per NAME):
    sections sharing a name are chosen together, and only if every section of that name is eligible"""
    idx = _debug_secs(elf)
    if by_name:
        names = sorted({elf.secs[i]['name'] for i in idx})
        names = [n for n in names if all(i in idx for i, s in enumerate(elf.secs) if s['name'] == n)]
        if mode == 'some':
            names = [n for n in names if rng.random() < 0.6] or names[:1]
        elif mode == 'shrink':
            names = [n for n in names if all(len(zlib.compress(elf.body(i), level)) + 12 < len(elf.body(i))
                                             for i in idx if elf.secs[i]['name'] == n)]
        return [i for i in idx if elf.secs[i]['name'] in names]
    if mode == 'some':
        idx = [i for i in idx if rng.random() < 0.6] or idx[:1]
    elif mode == 'shrink':
        idx = [i for i in idx if len(zlib.compress(elf.body(i), level)) + 12 < len(elf.body(i))]
    return idx


class Builder:
    """collects the Spec-encoder requests a case needs, so that all bodies come from ONE driver batch"""
    def __init__(self):
        self.reqs = []
    def ask(self, req):
        self.reqs.append(req)
        return len(self.reqs) - 1


def _mk_rng(seed):
    import random
    return random.Random(seed)


def plan_gabi(elf, level, mode, seed, B):
    rng = _mk_rng(seed)
    plan = []
    for i in _select(elf, mode, rng, level):
        body = elf.body(i)
        blob = zlib.compress(body, level)
        rsv = rng.getrandbits(32) if elf.is64 else 0
        align = rng.choice([0, 1, 4, 8, 16, 2 ** 31])
        k = B.ask(['gabi_body', elf.le, elf.is64, rsv, len(body), align, blob])
        plan.append((i, k, rsv, align, blob))
    return plan


def apply_gabi(elf, plan, bodies, junk=b'\xa5\x5a\xc3'):
    edits = {i: {'flags': elf.secs[i]['sh_flags'] | U.SHF_COMPRESSED, 'body': bodies[k]} for i, k, *_ in plan}
    return U.rewrite(elf, edits, junk_after=junk)


def plan_zgnu(elf, level, mode, seed, B):
    rng = _mk_rng(seed)
    plan = []
    for i in _select(elf, mode, rng, level, by_name=True):
        body = elf.body(i)
        blob = zlib.compress(body, level)
        k = B.ask(['zdebug_body', len(body), blob])
        plan.append((i, k, blob))
    return plan


def apply_zgnu(elf, plan, bodies, junk=b'\x5a\xa5'):
    edits = {}
    chosen = set()
    for i, k, _ in plan:
        nm = elf.secs[i]['name']
        chosen.add(nm)
        edits[i] = {'name': b'.z' + nm[1:], 'body': bodies[k]}
    for j, s in enumerate(elf.secs):
        if s['sh_type'] in (U.SHT_REL, U.SHT_RELA):
            for pre in (b'.rela', b'.rel'):
                if s['name'].startswith(pre) and s['name'][len(pre):] in chosen:
                    edits[j] = {'name': pre + b'.z' + s['name'][len(pre) + 1:]}
                    break
    return U.rewrite(elf, edits, junk_after=junk)


def is_debugish(name):
    for pre in (b'', b'.rel', b'.rela'):
        for p in (b'.debug_', b'.zdebug_'):
            if name.startswith(pre + p):
                return True
    return name in (b'.gnu_debugaltlink',)


def strip_debug(elf, link_body):
    drop = {i for i, s in enumerate(elf.secs) if is_debugish(s['name'])}
    return U.rewrite(elf, drop=drop, add=[dict(name=b'.gnu_debuglink', body=link_body, addralign=4)])


# ---------------------------------------------------------------- evaluation
# Every case is a generator: it yields lists of driver requests and receives the answers, so that the
# requests of all cases of a round go to the driver in one (parallel) batch.
def evaluate(ctx, cases):
    global _S
    from tools.lib.streams import Streams
    with Streams(prefix='pv-c11-streams-') as S:
        _S = S
        try:
            _evaluate(ctx, cases)
        finally:
            _S = None


def _evaluate(ctx, cases):
    drv = ctx.driver
    gens = []
    for kind, a in cases:
        kind = base_kind(kind)
        gens.append([kind, a, HANDLERS[kind](ctx, kind, a), None, False])
    # prime
    for g in gens:
        _advance(ctx, g, None)
    while True:
        active = [g for g in gens if not g[4]]
        if not active:
            break
        reqs = []
        spans = []
        for g in active:
            spans.append((len(reqs), len(g[3])))
            reqs.extend(g[3])
        res = pbatch(drv, reqs)
        for g, (st, n) in zip(active, spans):
            _advance(ctx, g, res[st:st + n])
        if _S is not None:
            _S.drop_files()


def base_kind(kind):
    """a replayed record may carry a derived kind (zbad_spec, link_dump, gabi_builder ...): the case that produced
    it is the one of the generating kind, which re-records every derived comparison"""
    if kind in HANDLERS:
        return kind
    if kind in KIND_ALIAS:
        return KIND_ALIAS[kind]
    best = None
    for k in HANDLERS:
        if kind.startswith(k + '_') and (best is None or len(k) > len(best)):
            best = k
    if best is None:
        raise ValueError('unknown case kind %r' % (kind,))
    return best


KIND_ALIAS = {'presence_independent': 'presence_file', 'presence_offer': 'presence_tt'}      # NB 'presence_spec' may stem from presence or presence_tt: the abstract's length tells


def _advance(ctx, g, answers):
    try:
        g[3] = g[2].send(answers) if answers is not None else next(g[2])
    except StopIteration:
        g[4] = True
        ctx.bump('kind', g[0])
    except (Skip, U.RewriteError) as ex:
        g[4] = True
        ctx.notes.append('skipped %s %r: %s' % (g[0], g[1][:2], ex))
        ctx.bump('skipped', g[0])


class Skip(Exception):
    pass


def _tbl_for(imgs):
    """generator helper: the zlib answers for every inflate query the given images can cause"""
    res = yield [['queries', im] for im in imgs]
    tbl, seen = [], set()
    for r in res:
        if r[0] == 'ok':
            for blob, m in r[1]:
                if (blob, m) not in seen:
                    seen.add((blob, m))
                    tbl.append(oracle_answer(blob, m))
    return tbl


def _view_req(img, fs, relocate, follow, has_loader, tbl, fuel=4):
    return ['view', img, fuel, int(relocate), int(follow), int(has_loader),
            [[k, v] for k, v in sorted((fs or {}).items())], tbl]


def _record_view(ctx, kind, a, impl_full, model_ans, spec_core, key=None, in_domain=True, nontrivial=True, detail=None):
    """impl_full: impl_view result; model_ans: the driver's model answer; spec_core: canonical expected view.
    The exact-correspondence part (names, offsets, exception class) is compared impl vs model."""
    icore, iextra = split_impl(impl_full)
    mcore, mextra = split_model(model_ans)
    if icore != spec_core:
        k = key or (kind + '-view-differs')
    else:
        k = kind + '-model-drift'
    ctx.record(kind, a, impl=[icore, iextra], spec=[spec_core, mextra], model=[mcore, mextra], in_domain=in_domain,
               nontrivial=nontrivial, key='C11/' + k, detail=detail)


def _load(src):
    try:
        return src_bytes(src)
    except OSError as ex:
        raise Skip(str(ex))


def _elf(img):
    try:
        return U.Elf(img)
    except Exception as ex:                              # noqa
        raise Skip('independent reader: %s' % ex)


def h_plain(ctx, kind, a):
    src, relocate, follow, ld = a[:4]
    sk = a[4] if len(a) > 4 else 'bytesio'
    ctx.bump('stream_kind', sk)
    img = _load(src)
    fs = fs_closure(img, dir_lookup(src)) if ld else None
    iv = impl_view(img, fs, bool(relocate), bool(follow), sk=sk)
    if len(img) > MODEL_MAX or any(len(v) > MODEL_MAX for v in (fs or {}).values()):
        ctx.bump('model_skipped_large', kind)
        icore, iextra = split_impl(iv)
        ctx.record(kind, a, impl=[icore, iextra], spec=[icore, iextra], model=None, in_domain=False, nontrivial=False)
        return
    tbl = yield from _tbl_for([img] + list((fs or {}).values()))
    (ans,) = yield [_view_req(img, fs, relocate, follow, bool(ld), tbl)]
    m, s = ans
    # containers neither side can read are outside the quantifier
    indom = not (m[0] == 'err' and iv[0] == 'err' and canon_spec(s) == 'rejected')
    _record_view(ctx, kind, a, iv, m, canon_spec(s), in_domain=indom, nontrivial=bool(fs) or iv[0] != 'err')


def h_presence_file(ctx, kind, a):
    from elftools.elf.elffile import ELFFile
    img = _load(a[0])
    def f(strict):
        return int(ELFFile(io.BytesIO(img)).has_dwarf_info(strict))
    impl = [framework.impl_call(f, False), framework.impl_call(f, True)]
    try:
        names = {s['name'] for s in U.Elf(img).secs}
        base = b'.debug_info' in names or b'.zdebug_info' in names
        ind = [int(base or b'.eh_frame' in names), int(base)]         # the formula on the independent reader
    except Exception:                                    # noqa
        ind = None
    if len(img) > MODEL_MAX:
        ctx.record(kind, a, impl=impl, spec=ind if ind is not None else impl, model=None, in_domain=ind is not None,
                   nontrivial=True, key='C11/presence')
        return
    (m0, s0), (m1, s1) = yield [['presence', img, 0], ['presence', img, 1]]
    model = [m0[1] if m0[0] == 'ok' else m0, m1[1] if m1[0] == 'ok' else m1]
    ok = s0 != 'none' and s1 != 'none'
    spec = [s0[1], s1[1]] if ok else model
    ctx.record(kind, a, impl=impl, spec=spec, model=model, in_domain=ok, nontrivial=True, key='C11/presence',
               detail={'independent': ind})
    if ok and ind is not None and ind != spec:
        ctx.record('presence_independent', a, impl=ind, spec=spec, model=None, in_domain=True, key='C11/spec-presence-vs-independent-reader')


def h_reencode(ctx, kind, a):
    """gabi / zgnu: sections re-encoded with bodies from the Coq encoders"""
    src, level, mode, seed = a
    elf = _elf(_load(src))
    B = Builder()
    plan = (plan_gabi if kind == 'gabi' else plan_zgnu)(elf, level, mode, seed, B)
    bodies = yield B.reqs
    orig = elf.img
    timg = (apply_gabi if kind == 'gabi' else apply_zgnu)(elf, plan, bodies)
    nt = len(plan) > 0
    iv = impl_view(timg, None, True, False)
    if len(timg) <= MODEL_MAX:
        tbl = yield from _tbl_for([timg, orig])
        if kind == 'gabi':
            coq = ['t_gabi', orig, [[i, rsv, al, 0, blob] for i, k, rsv, al, blob in plan], tbl]
        else:
            coq = ['t_zgnu', orig, [[i, 0, blob] for i, k, blob in plan], tbl]
        okreq = ['ok_gabi' if kind == 'gabi' else 'ok_zgnu', orig, coq[2]]
        (m, s_t), (mo, s_o), wf, s_coq, ok = yield [_view_req(timg, None, 1, 0, False, tbl),
                                                     _view_req(orig, None, 1, 0, False, tbl), ['wf', orig], coq, okreq]
        spec = canon_spec(s_o)                            # the theorem's right-hand side: the view of the ORIGINAL
        # in the theorem's domain = its executable hypotheses (gabi_choice_ok / zgnu_choice_ok && plain_names &&
        # no_phantom, evaluated by the extracted Coq predicates) hold and the original is readable
        indom = spec != 'rejected' and wf[0] == 'ok' and ok[0] == 'ok' and ok[1] == 1
        ctx.bump('theorem_hypotheses', '%s-%s' % (kind, 'hold' if (ok[0] == 'ok' and ok[1] == 1) else 'fail'))
        _record_view(ctx, kind, a, iv, m, spec, in_domain=indom, nontrivial=nt, detail={'sections': len(plan)})
        if indom:                                         # the Python placement and the Coq transform describe the same file
            ctx.record(kind + '_builder', a, impl=canon_spec(s_t), spec=canon_spec(s_coq), model=None, in_domain=True,
                       nontrivial=nt, key='C11/harness-rewriter-differs-from-coq-transform')
    else:
        ctx.bump('model_skipped_large', kind)
    if ctx.tier == 'thorough' or len(orig) <= 300000:     # end to end: full dumps
        d_o = impl_dump(orig, None)
        ctx.record(kind + '_dump', a, impl=impl_dump(timg, None), spec=d_o, model=None, in_domain=d_o[0] != 'err',
                   nontrivial=nt, key='C11/%s-dump-differs' % kind)


def h_keepdebug(ctx, kind, a):
    """T_keep_debug: every section the Coq predicate `kept` does not keep becomes SHT_NOBITS"""
    src = a[0]
    elf = _elf(_load(src))
    orig = elf.img
    if len(orig) > MODEL_MAX:
        raise Skip('large')
    (kept,) = yield [['kept', orig]]
    if kept[0] != 'ok' or len(kept[1]) != len(elf.secs):
        raise Skip('not readable by the model')
    edits = {i: {'type': 8} for i, k in enumerate(kept[1]) if not k and i != elf.e_shstrndx and elf.secs[i]['sh_type'] != 8}
    timg = U.rewrite(elf, edits)
    tbl = yield from _tbl_for([timg, orig])
    (m, s_t), (mo, s_o), s_coq = yield [_view_req(timg, None, 1, 0, False, tbl), _view_req(orig, None, 1, 0, False, tbl),
                                        ['t_keep', orig, tbl]]
    spec = canon_spec(s_o)
    indom = spec != 'rejected'
    _record_view(ctx, kind, a, impl_view(timg, None, True, False), m, spec, in_domain=indom, nontrivial=len(edits) > 0,
                 detail={'sections': len(edits)})
    if indom:
        ctx.record(kind + '_builder', a, impl=canon_spec(s_t), spec=canon_spec(s_coq), model=None, in_domain=True,
                   nontrivial=len(edits) > 0, key='C11/harness-rewriter-differs-from-coq-transform')
    d_o = impl_dump(orig, None)
    ctx.record(kind + '_dump', a, impl=impl_dump(timg, None), spec=d_o, model=None, in_domain=d_o[0] != 'err',
               nontrivial=len(edits) > 0, key='C11/keepdebug-dump-differs')


def _rname(elf, k):
    if k == 'none':
        return k
    return elf.secs[k]['name'].replace(b'.zdebug_', b'.debug_')


def _reloc_names(core, elf):
    if core == 'rejected':
        return core
    return [core[0], [s if s == 'none' else s[:3] + [_rname(elf, s[3])] for s in core[1]], core[2]]


def _reloc_names_full(v, elf):
    if v[0] == 'err':
        return v
    return [v[0], [s if s == 'none' else s[:5] + [_rname(elf, s[5])] for s in v[1]], v[2]]


def h_objcopy(ctx, kind, a):
    src, ext = a
    orig, timg = _load(src), _load(src + '.' + ext)
    tbl = yield from _tbl_for([timg, orig])
    (m, s_t), (mo, s_o) = yield [_view_req(timg, None, 1, 0, False, tbl), _view_req(orig, None, 1, 0, False, tbl)]
    iv = impl_view(timg, None, True, False)
    # objcopy may drop or reorder sections: name the relocation section instead of numbering it
    et, eo = _elf(timg), _elf(orig)
    spec = _reloc_names(canon_spec(s_o), eo)
    iv = _reloc_names_full(iv, et)
    m = m if m[0] == 'err' else ['ok', _reloc_names_full(m[1], et)]
    _record_view(ctx, kind, a, iv, m, spec, key='objcopy-%s-view-differs' % ext, in_domain=spec != 'rejected')
    d_o = impl_dump(orig, None)
    ctx.record('objcopy_dump', a, impl=impl_dump(timg, None), spec=d_o, model=None, in_domain=d_o[0] != 'err',
               nontrivial=True, key='C11/objcopy-%s-dump-differs' % ext)


def h_link(ctx, kind, a):
    src, variant, crcmode, follow, ld, inner = a[:6]
    relocate = a[6] if len(a) > 6 else 1                  # relocate_dwarf_sections, drawn independently of follow_links
    if variant in ('own', 'ownid'):
        elf = _elf(_load(src))
        if variant == 'ownid':
            # as real ld --build-id + objcopy output: the SAME NT_GNU_BUILD_ID note in the stripped and the debug file
            ident = hashlib.sha1(src.encode()).digest()
            note = struct.pack(('<' if elf.le else '>') + 'III', 4, len(ident), 3) + b'GNU\0' + ident
            elf = _elf(U.rewrite(elf, add=[dict(name=b'.note.gnu.build-id', type=7, flags=2, addr=0x400200, body=note,
                                                addralign=4)]))
        dbg = elf.img
        if inner != 'plain':
            B = Builder()
            plan = plan_gabi(elf, 6, 'all', 7, B) if inner == 'gabi' else plan_zgnu(elf, 6, 'shrink', 7, B)
            bodies = yield B.reqs
            dbg = (apply_gabi if inner == 'gabi' else apply_zgnu)(elf, plan, bodies)
        name = b'dir/the.debug'
        (c,) = yield [['crc', dbg]]
        crc = c[2]                                        # Spec: crc32_poly
        if crcmode == 'wrong':
            crc = (crc + 1) % 2 ** 32
        elif crcmode == 'zero':
            if crc == 0:
                raise Skip('the CRC of the target is 0')
            crc = 0
        elif crcmode == 'flip':
            crc ^= 1 << (len(dbg) % 32)
        elif crcmode.startswith('flip'):
            crc ^= 1 << int(crcmode[4:])
        (body,) = yield [['debuglink_body', elf.le, name, b'\0' * (3 - len(name) % 4), crc]]
        stripped = strip_debug(elf, body)
        orig = elf.img
        if crcmode == 'payload':                          # the target modified outside the note, link CRC of the unmodified file
            dbg = dbg[:9] + bytes([dbg[9] ^ 0x20]) + dbg[10:]
    else:
        if variant == 'objcopy':
            stripped, dbg = _load(src + '.stripped'), _load(src + '.dbg')
            name = src.split(':', 1)[1].encode() + b'.dbg'
            orig = _load(src)
        elif variant == 'zdbg':
            stripped, dbg, name, orig = _load(src + '.zstripped'), _load(src + '.zdbg'), b'gcc_d5_exe.zdbg', _load(src)
        else:
            stripped, dbg, name = _load('test:debuglink'), _load('test:debuglink.debug'), b'debuglink.debug'
            orig = dbg
        if crcmode != 'right':
            dbg = dbg[:-1] + bytes([dbg[-1] ^ 0x40])      # same size, one bit changed
    fs = {name: dbg} if ld == 1 else ({b'some/other.file': dbg} if ld == 2 else None)
    tbl = yield from _tbl_for([stripped, dbg])
    (m, s_s), (md, s_d), (mo, s_own) = yield [_view_req(stripped, fs, relocate, follow, ld != 0, tbl),
                                              _view_req(dbg, fs, relocate, 1, ld != 0, tbl),
                                              _view_req(stripped, None, relocate, 0, False, tbl)]
    iv = impl_view(stripped, fs, bool(relocate), bool(follow))
    followed = bool(follow) and ld == 1
    indom = True
    if followed and crcmode == 'right':
        spec, key = canon_spec(s_d), 'link-view-differs'             # the view through the link IS the debug file's view
    elif followed:
        spec, key = 'rejected', 'link-crc-mismatch-accepted'         # CRC mismatch is rejected
    elif bool(follow) and ld == 2:
        spec, key, indom = canon_spec(s_s), 'link-missing-file', False   # what the loader raises is outside the property
    else:
        spec, key = canon_spec(s_own), 'link-not-followed-view-differs'  # not followed: the file's own view
    _record_view(ctx, kind, a, iv, m, spec, key=key, in_domain=indom)
    if followed and crcmode == 'right' and relocate:
        want = impl_dump(orig, None, eh=False)
        ctx.record('link_dump', a, impl=impl_dump(stripped, fs, eh=False), spec=want, model=None, in_domain=want[0] != 'err',
                   nontrivial=True, key='C11/link-dump-differs')
        # invariance proper: the debug data reached through the link is the original file's
        tbl_o = yield from _tbl_for([orig])
        ((mo2, s_orig),) = yield [_view_req(orig, None, 1, 0, False, tbl_o)]
        o_core = canon_spec(s_orig)
        icore, _ = split_impl(iv)
        if variant in ('own', 'ownid') and inner == 'plain':
            ctx.record('link_data', a, impl=data_slots(icore), spec=data_slots(o_core), model=None, in_domain=o_core != 'rejected',
                       nontrivial=True, key='C11/link-data-differs-from-original')


def h_link_path(ctx, kind, a):
    from elftools.elf.elffile import ELFFile
    src = a[0]
    base = os.path.basename(src.split(':', 1)[1])
    d = tempfile.mkdtemp(prefix='pv-c11-')
    try:
        shutil.copy(_src_path(src + '.stripped'), os.path.join(d, base))
        shutil.copy(_src_path(src + '.dbg'), os.path.join(d, base + '.dbg'))
        def run():
            e = ELFFile.load_from_path(os.path.join(d, base))
            try:
                h, c = U.full_dump(e.get_dwarf_info(), eh=False)
                return [h, c['cus'], c['dies'], c['lines'], c['cfi'], 0, c['tus']]
            finally:
                e.close()
        got = framework.impl_call(run)
    finally:
        shutil.rmtree(d, ignore_errors=True)
    want = impl_dump(_load(src), None, eh=False)
    ctx.record(kind, a, impl=got, spec=want, model=None, in_domain=want[0] != 'err', nontrivial=True,
               key='C11/load_from_path-link-dump-differs')
    return
    yield                                                # noqa: makes this a generator


def h_sup(ctx, kind, a):
    main_src, sup_src, enc, follow, ld, seed = a
    main, supimg = _elf(_load(main_src)), _load(sup_src)
    rng = _mk_rng(seed)
    name = b'sup/' + bytes(rng.choice(b'abcdefgh') for _ in range(rng.randrange(1, 9))) + b'.sup'
    ident = bytes(rng.getrandbits(8) for _ in range(20))
    nz = rng.getrandbits(8) | 1
    alt, sup, supself = yield [['altlink_body', name, ident],
                               ['debugsup_body', main.le, 5, 0, name, bytes([20]) + ident],
                               ['debugsup_body', main.le, 5, nz, b'', bytes([20]) + ident]]
    adds = {'alt': [dict(name=b'.gnu_debugaltlink', body=alt)],
            'sup': [dict(name=b'.debug_sup', body=sup)],
            'both': [dict(name=b'.gnu_debugaltlink', body=alt), dict(name=b'.debug_sup', body=sup)],
            # a file that IS a supplementary file (is_supplementary != 0) and also carries an altlink
            'supfile': [dict(name=b'.debug_sup', body=supself), dict(name=b'.gnu_debugaltlink', body=alt)]}
    timg = U.rewrite(main, add=adds[enc])
    aimg = U.rewrite(main, add=adds['alt'])
    fs = {name: supimg} if ld else None
    tbl = yield from _tbl_for([timg, aimg, supimg, main.img])
    (m, s_t), (_, s_alt), (_, s_sup), (_, s_main) = yield [
        _view_req(timg, fs, 1, follow, bool(ld), tbl), _view_req(aimg, fs, 1, follow, bool(ld), tbl),
        _view_req(supimg, None, 1, 1, False, tbl), _view_req(main.img, None, 1, 0, False, tbl)]
    iv = impl_view(timg, fs, True, bool(follow))
    vm, vs = canon_spec(s_main), canon_spec(s_sup)
    icore, iextra = split_impl(iv)
    # expected: the data slots of the main file and (followed, with a loader) the supplementary file's own view
    want_sup = 'none' if not (follow and ld) or vs == 'rejected' else [vs[0], vs[1]]
    exp = 'rejected' if vm == 'rejected' or (follow and ld and vs == 'rejected') else [data_slots(vm), want_sup]
    got = 'rejected' if icore == 'rejected' else [data_slots(icore), icore[2]]
    mcore, mextra = split_model(m)
    mod = 'rejected' if mcore == 'rejected' else [data_slots(mcore), mcore[2]]
    ctx.record(kind, a, impl=got, spec=exp, model=mod, in_domain=exp != 'rejected', nontrivial=True, key='C11/sup-link-view-differs')
    _record_view(ctx, 'sup_full', a, iv, m, canon_spec(s_t), in_domain=exp != 'rejected')
    a_core = canon_spec(s_alt)
    ctx.record('sup_encodings', a, impl=got, spec='rejected' if a_core == 'rejected' else [data_slots(a_core), a_core[2]],
               model=None, in_domain=exp != 'rejected', nontrivial=True, key='C11/sup-encodings-differ')
    if follow and ld:
        want_d = impl_dump(aimg, fs)
        ctx.record('sup_dump', a, impl=impl_dump(timg, fs), spec=want_d, model=None, in_domain=want_d[0] != 'err',
                   nontrivial=True, key='C11/sup-dump-differs')


def h_chain(ctx, kind, a):
    """composition of the two link kinds: what is seen through a debug link is the debug file's view INCLUDING the
    supplementary file it names, resolved by the same loader (C11_view_two_hop)"""
    main_src, sup_src, enc, variant, seed = a[:5]
    relocate = a[5] if len(a) > 5 else 1
    sk = a[6] if len(a) > 6 else 'bytesio'
    ctx.bump('stream_kind', sk)
    rng = _mk_rng(seed)
    if variant == 'own':
        main, supimg = _elf(_load(main_src)), _load(sup_src)
        supname = b'sup/' + bytes(rng.choice(b'abcdefgh') for _ in range(rng.randrange(1, 9))) + b'.sup'
        ident = bytes(rng.getrandbits(8) for _ in range(20))
        if enc == 'alt':
            (lb,) = yield [['altlink_body', supname, ident]]
            dbg = U.rewrite(main, add=[dict(name=b'.gnu_debugaltlink', body=lb)])
        else:
            (lb,) = yield [['debugsup_body', main.le, 5, 0, supname, bytes([20]) + ident]]
            dbg = U.rewrite(main, add=[dict(name=b'.debug_sup', body=lb)])
        extra = {supname: supimg}
    else:
        dbg = _load(main_src)
        extra = fs_closure(dbg, dir_lookup(main_src))
        if not extra:
            raise Skip('no supplementary file found')
    delf = _elf(dbg)
    dbgname = b'dbg/' + bytes(rng.choice(b'klmnopq') for _ in range(rng.randrange(1, 8))) + b'.debug'
    (c,) = yield [['crc', dbg]]
    (body,) = yield [['debuglink_body', delf.le, dbgname, b'\0' * (3 - len(dbgname) % 4), c[2]]]
    stripped = strip_debug(delf, body)
    fs = dict(extra)
    fs[dbgname] = dbg
    iv = impl_view(stripped, fs, bool(relocate), True, sk=sk)
    if relocate:
        want = impl_dump(dbg, fs, eh=False)              # the debug file opened directly with the same loader
        ctx.record('chain_dump', a, impl=impl_dump(stripped, fs, eh=False), spec=want, model=None, in_domain=want[0] != 'err',
                   nontrivial=True, key='C11/chain-dump-differs')
    if any(len(v) > MODEL_MAX for v in list(fs.values()) + [stripped]):
        ctx.bump('model_skipped_large', kind)
        direct = impl_view(dbg, fs, bool(relocate), True)
        icore, iextra = split_impl(iv)
        dcore, _ = split_impl(direct)
        ctx.record(kind, a, impl=icore, spec=dcore, model=None, in_domain=dcore != 'rejected', nontrivial=True,
                   key='C11/chain-view-differs')
        return
    tbl = yield from _tbl_for([stripped] + list(fs.values()))
    (m, s_s), (md, s_d) = yield [_view_req(stripped, fs, relocate, 1, True, tbl), _view_req(dbg, fs, relocate, 1, True, tbl)]
    spec = canon_spec(s_d)
    _record_view(ctx, kind, a, iv, m, spec, key='chain-view-differs', in_domain=spec != 'rejected',
                 nontrivial=spec != 'rejected' and spec[2] != 'none')
    ctx.bump('chain_sup', 'loaded' if (spec != 'rejected' and spec[2] != 'none') else 'absent')


def h_link_own(ctx, kind, a):
    """an UNSTRIPPED file (own .debug_info / .zdebug_info / gABI-compressed .debug_info) that also carries a
    .gnu_debuglink to another file: the link is not followed, the view is the file's own (C11_debuglink_inert)"""
    src, other_src, naming, crcmode, seed = a
    elf, other = _elf(_load(src)), _load(other_src)
    orig = elf.img
    if naming != 'plain':
        B = Builder()
        plan = plan_gabi(elf, 6, 'all', seed, B) if naming == 'gabi' else plan_zgnu(elf, 6, 'all', seed, B)
        bodies = yield B.reqs
        if not plan:
            raise Skip('nothing to re-encode')
        elf = _elf((apply_gabi if naming == 'gabi' else apply_zgnu)(elf, plan, bodies))
    name = b'other/file.debug'
    (c,) = yield [['crc', other]]
    crc = c[2] if crcmode == 'right' else c[2] ^ 0x00010000
    (body,) = yield [['debuglink_body', elf.le, name, b'\0' * (3 - len(name) % 4), crc]]
    timg = U.rewrite(elf, add=[dict(name=b'.gnu_debuglink', body=body, addralign=4)])
    fs = {name: other}
    iv = impl_view(timg, fs, True, True)
    if len(timg) > MODEL_MAX or len(other) > MODEL_MAX:
        ctx.bump('model_skipped_large', kind)
        want = split_impl(impl_view(orig, None, True, True))[0]
        ctx.record(kind, a, impl=data_slots(split_impl(iv)[0]), spec=data_slots(want), model=None, in_domain=want != 'rejected',
                   nontrivial=True, key='C11/link-own-info-ignored')
        return
    tbl = yield from _tbl_for([timg, orig, other])
    (m, s_t), (mo, s_o) = yield [_view_req(timg, fs, 1, 1, True, tbl), _view_req(orig, None, 1, 1, False, tbl)]
    spec = canon_spec(s_t)
    _record_view(ctx, kind, a, iv, m, spec, key='link-own-info-ignored', in_domain=spec != 'rejected')
    o_core = canon_spec(s_o)
    ctx.record('link_own_data', a, impl=data_slots(split_impl(iv)[0]), spec=data_slots(o_core), model=None,
               in_domain=o_core != 'rejected', nontrivial=True, key='C11/link-own-info-ignored')
    d_o = impl_dump(orig, None, eh=False)
    ctx.record('link_own_dump', a, impl=impl_dump(timg, fs, eh=False), spec=d_o, model=None, in_domain=d_o[0] != 'err',
               nontrivial=True, key='C11/link-own-info-ignored')


def h_bigrun(ctx, kind, a):
    """sections far larger than the model handles: the real library on the re-encoded file against the real library on
    the plain file (bodies still come from the Coq encoders; the zlib streams span several 4096-byte input blocks and a
    middle block inflates to hundreds of KB)"""
    le, is64, T, shape, level, seed = a
    rng = _mk_rng(seed)
    rnd = lambda n: bytes(rng.getrandbits(8) for _ in range(n))
    run = b'\0' * 300000 if shape == 'zeros' else (rnd(7) * 50000)[:300000]
    big = rnd(rng.randrange(4500, 6000)) + run + rnd(rng.randrange(4500, 6000))
    secs = [(b'.text', 1, 6, 0x1000, rnd(16)), (b'.debug_info', 1, 0, 0, big), (b'.debug_abbrev', 1, 0, 0, rnd(40)),
            (b'.debug_str', 1, 0, 0, rnd(3000) + b'\0' * 200000 + rnd(5000))]
    orig = U.build_elf(bool(le), bool(is64), 62, 0, secs)
    elf = U.Elf(orig)
    B = Builder()
    plan = plan_gabi(elf, level, 'all', seed, B) if T == 'gabi' else plan_zgnu(elf, level, 'all', seed, B)
    bodies = yield B.reqs
    timg = (apply_gabi if T == 'gabi' else apply_zgnu)(elf, plan, bodies)
    blocks = max((len(p[-1]) + 4095) // 4096 for p in plan)
    want = split_impl(impl_view(orig, None, True, False))[0]
    got = split_impl(impl_view(timg, None, True, False))[0]
    ctx.record(kind, a, impl=got, spec=want, model=None, in_domain=want != 'rejected', nontrivial=blocks >= 3,
               key='C11/bigrun-%s-view-differs' % T, detail={'input_blocks': blocks})
    ctx.bump('bigrun_blocks', str(min(blocks, 4)) + ('+' if blocks >= 4 else ''))


NAME_CLASSES = {'ascii': b'lnk_plain.debug', 'utf8': 'd\u00e9bug_\u00fcn\u00ef_\u4e2d.debug'.encode('utf-8'),
                'latin1': b'd\xe9bug_\xfc\xff.debug', 'subdir': b'sub/d\xe9r/x.debug'}
DIR_CLASSES = {'ascii': b'work', 'utf8': 'w\u00f6rk'.encode('utf-8'), 'latin1': b'w\xf6rk'}


def h_stock_loader(ctx, kind, a):
    """ELFFile.load_from_path + the stock make_relative_loader on real files: link names are BYTES in the file and need
    not be UTF-8; the view must be the one obtained through an in-memory loader"""
    from elftools.elf.elffile import ELFFile
    main_src, linked_src, lk, nc, dc, pt, seed = a
    elf, linked = _elf(_load(main_src)), _load(linked_src)
    name = NAME_CLASSES[nc]
    if lk == 'debuglink':
        (c,) = yield [['crc', linked]]
        (body,) = yield [['debuglink_body', elf.le, name, b'\0' * (3 - len(name) % 4), c[2]]]
        main = strip_debug(elf, body)
    elif lk == 'alt':
        (body,) = yield [['altlink_body', name, bytes(range(20))]]
        main = U.rewrite(elf, add=[dict(name=b'.gnu_debugaltlink', body=body)])
    else:
        (body,) = yield [['debugsup_body', elf.le, 5, 0, name, bytes([20]) + bytes(range(20))]]
        main = U.rewrite(elf, add=[dict(name=b'.debug_sup', body=body)])
    want = split_impl(impl_view(main, {name: linked}, True, True))[0]
    d = tempfile.mkdtemp(prefix='pv-c11-').encode()
    try:
        base = os.path.join(d, DIR_CLASSES[dc])
        os.makedirs(os.path.dirname(os.path.join(base, name)))
        with open(os.path.join(base, b'main.elf'), 'wb') as f:
            f.write(main)
        with open(os.path.join(base, name), 'wb') as f:
            f.write(linked)
        path = os.path.join(base, b'main.elf')
        if pt == 'str':
            path = path.decode('utf-8')
        try:
            obj = ELFFile.load_from_path(path)
            try:
                got = split_impl(impl_view(None, None, True, True, elffile=obj))[0]
            finally:
                obj.close()
        except Exception as ex:                          # noqa
            got = ['err', type(ex).__name__]
    finally:
        shutil.rmtree(d, ignore_errors=True)
    sup_or_link = want != 'rejected' and (lk == 'debuglink' or want[2] != 'none')
    ctx.record(kind, a, impl=got, spec=want, model=None, in_domain=want != 'rejected', nontrivial=sup_or_link,
               key='C11/stock-loader-view-differs')


def _uleb(n):
    out = bytearray()
    while True:
        b = n & 0x7f
        n >>= 7
        out.append(b | (0x80 if n else 0))
        if not n:
            return bytes(out)


def _line_unit(le, addr_size, form, dir_offs, files):
    """a DWARF 5 (32-bit format) line-number unit: directory entries = (DW_LNCT_path, form), file entries =
    (DW_LNCT_path, form) (DW_LNCT_directory_index, DW_FORM_udata); the program is one DW_LNE_end_sequence"""
    en = '<' if le else '>'
    after = bytes([1, 1, 1, 0xfb, 14, 13]) + bytes([0, 1, 1, 1, 1, 0, 0, 0, 1, 0, 0, 1])
    after += bytes([1]) + _uleb(1) + _uleb(form) + _uleb(len(dir_offs)) + b''.join(struct.pack(en + 'I', o) for o in dir_offs)
    after += bytes([2]) + _uleb(1) + _uleb(form) + _uleb(2) + _uleb(0x0f) + _uleb(len(files))
    after += b''.join(struct.pack(en + 'I', o) + _uleb(d) for o, d in files)
    rest = struct.pack(en + 'H', 5) + bytes([addr_size, 0]) + struct.pack(en + 'I', len(after)) + after + bytes([0, 1, 1])
    return struct.pack(en + 'I', len(rest)) + rest


def _cu_with_stmt_list(le, addr_size, attrs=()):
    """a DWARF 5 compile unit whose only DIE has DW_AT_stmt_list 0 and then `attrs`: (attribute, form, value) with an
    int value written as a 4-byte offset and a bytes value as an inline string"""
    en = '<' if le else '>'
    abbrev = bytes([1, 0x11, 0, 0x10, 0x17])                                  # CU, no children, DW_AT_stmt_list sec_offset
    die = bytes([1]) + struct.pack(en + 'I', 0)
    for at, form, val in attrs:
        abbrev += _uleb(at) + _uleb(form)
        die += struct.pack(en + 'I', val) if isinstance(val, int) else val + b'\0'
    abbrev += bytes([0, 0, 0])
    rest = struct.pack(en + 'H', 5) + bytes([1, addr_size]) + struct.pack(en + 'I', 0) + die
    return abbrev, struct.pack(en + 'I', len(rest)) + rest


def _top_die_strings(img, fs, sk='bytesio', twice=False):
    from elftools.elf.elffile import ELFFile
    e = ELFFile(_stream(img, sk), _loader_of(fs, sk))
    di = e.get_dwarf_info()
    out = []
    for rnd_ in range(2 if twice else 1):                # a second pass over the same unit object
        for cu in di.iter_CUs():
            die = cu.get_top_DIE()
            out.append([[a.name, bytes(a.value)] for a in die.attributes.values() if isinstance(a.value, bytes)])
    return out


def _line_names(img, fs):
    from elftools.elf.elffile import ELFFile
    e = ELFFile(io.BytesIO(img), _loader_of(fs))
    di = e.get_dwarf_info()
    cu = next(di.iter_CUs())
    lp = di.line_program_for_CU(cu)
    return [[bytes(d) for d in lp.header.include_directory],
            [[bytes(f.name), f.dir_index] for f in lp.header.file_entry], len(lp.get_entries())]


def h_lnsup(ctx, kind, a):
    """line tables behind a supplementary link = the same tables stored plainly"""
    le, is64, enc, ref, seed = a[:5]
    sk = a[5] if len(a) > 5 else 'bytesio'
    ctx.bump('stream_kind', sk)
    rng = _mk_rng(seed)
    word = lambda n, alpha: bytes(rng.choice(alpha) for _ in range(n))
    lens = [rng.randrange(1, 12) for _ in range(5)]
    def table(alpha):
        t, offs = b'\0', []
        for n in lens:
            offs.append(len(t))
            t += word(n, alpha) + b'\0'
        return t, offs
    s1, offs = table(b'abcdefghijklm/._')              # the strings the names refer to (sup .debug_str)
    s2, _ = table(b'NOPQRSTUVWXYZ')                      # same offsets, other strings (sup .debug_line_str)
    s3, _ = table(b'0123456789')                         # decoys in the primary file's own tables
    dirs, files = offs[:2], [(offs[2], 0), (offs[3], 1), (offs[4], 1)]
    asz = 8 if is64 else 4
    form = 0x1d if enc == 'sup' else 0x1f21                # DW_FORM_strp_sup / DW_FORM_GNU_strp_alt
    # one unit referring to its own .debug_str (DW_FORM_strp) and to the supplementary one at the SAME offsets, both orders
    cut = lambda t, o: t[o:t.index(b'\0', o)]
    refs = [(0x25, form, offs[0]), (0x03, 0x0e, offs[0]), (0x1b, 0x0e, offs[1]), (0x6e, form, offs[1]),
            (0x5a, form, offs[4]), (0x2007, 0x0e, offs[4])]
    abbrev, info = _cu_with_stmt_list(bool(le), asz, refs)
    abbrev_b, info_b = _cu_with_stmt_list(bool(le), asz, [(at, 0x08, cut(s1 if f == form else s3, o)) for at, f, o in refs])
    supname = b'sup/' + word(rng.randrange(1, 8), b'abcdefgh') + b'.sup'
    ident = bytes(rng.getrandbits(8) for _ in range(20))
    alt, sup0, sup1 = yield [['altlink_body', supname, ident], ['debugsup_body', le, 5, 0, supname, bytes([20]) + ident],
                             ['debugsup_body', le, 5, 1, b'', bytes([20]) + ident]]
    supsecs = [(b'.debug_str', 1, 0x30, 0, s1), (b'.debug_line_str', 1, 0x30, 0, s2)]
    if enc == 'sup':
        supsecs.append((b'.debug_sup', 1, 0, 0, sup1))
    supimg = U.build_elf(bool(le), bool(is64), 62, 0, supsecs)
    link = (b'.debug_sup', 1, 0, 0, sup0) if enc == 'sup' else (b'.gnu_debugaltlink', 1, 0, 0, alt)
    base = [(b'.text', 1, 6, 0x1000, b'\xc3'), (b'.debug_abbrev', 1, 0, 0, abbrev), (b'.debug_info', 1, 0, 0, info)]
    a_img = U.build_elf(bool(le), bool(is64), 62, 0, base + [
        (b'.debug_line', 1, 0, 0, _line_unit(bool(le), asz, form, dirs, files)),
        (b'.debug_str', 1, 0x30, 0, s3), (b'.debug_line_str', 1, 0x30, 0, s3), link])
    pform = 0x0e if ref == 'strp' else 0x1f                # DW_FORM_strp / DW_FORM_line_strp
    base_b = [(b'.text', 1, 6, 0x1000, b'\xc3'), (b'.debug_abbrev', 1, 0, 0, abbrev_b), (b'.debug_info', 1, 0, 0, info_b)]
    b_img = U.build_elf(bool(le), bool(is64), 62, 0, base_b + [
        (b'.debug_line', 1, 0, 0, _line_unit(bool(le), asz, pform, dirs, files)),
        (b'.debug_str', 1, 0x30, 0, s1 if ref == 'strp' else s3), (b'.debug_line_str', 1, 0x30, 0, s3 if ref == 'strp' else s1)])
    literal = [[cut(s1, o) for o in dirs], [[cut(s1, o), d] for o, d in files], 1]
    plain = framework.impl_call(_line_names, b_img, None)
    got = framework.impl_call(_line_names, a_img, {supname: supimg})
    # the entries: strings behind DW_FORM_strp / strp_sup / GNU_strp_alt = the same entries with inline strings
    d_plain = framework.impl_call(_top_die_strings, b_img, None, 'bytesio', True)
    d_got = framework.impl_call(_top_die_strings, a_img, {supname: supimg}, sk, True)
    ctx.record('lnsup_die', a, impl=d_got, spec=d_plain, model=None, in_domain=isinstance(d_plain, list) and d_plain[0] != 'err',
               nontrivial=True, key='C11/entry-strings-behind-sup-link-differ')
    ctx.record(kind, a, impl=got, spec=plain, model=None, in_domain=plain == literal, nontrivial=True,
               key='C11/line-table-behind-sup-link-differs')
    ctx.record('lnsup_plain', a, impl=plain, spec=literal, model=None, in_domain=True, nontrivial=True,
               key='C11/line-table-plain-reference-differs')


def h_seq(ctx, kind, a):
    """several get_dwarf_info calls on the SAME ELFFile object: each answer is the stateless view of its own
    (relocate, follow_links) — the model and the specification are functions of the arguments only"""
    from elftools.elf.elffile import ELFFile
    main_src, sup_src, enc, variant, ld, calls, seed = a
    rng = _mk_rng(seed)
    if variant == 'own':
        main, supimg = _elf(_load(main_src)), _load(sup_src)
        supname = b'sup/' + bytes(rng.choice(b'abcdefgh') for _ in range(rng.randrange(1, 9))) + b'.sup'
        ident = bytes(rng.getrandbits(8) for _ in range(20))
        if enc == 'alt':
            (lb,) = yield [['altlink_body', supname, ident]]
            timg = U.rewrite(main, add=[dict(name=b'.gnu_debugaltlink', body=lb)])
        else:
            (lb,) = yield [['debugsup_body', main.le, 5, 0, supname, bytes([20]) + ident]]
            timg = U.rewrite(main, add=[dict(name=b'.debug_sup', body=lb)])
        fs = {supname: supimg} if ld else None
    else:
        timg = _load(main_src)
        fs = fs_closure(timg, dir_lookup(main_src)) if ld else None
    try:
        obj = ELFFile(io.BytesIO(timg), _loader_of(fs))
    except Exception as ex:                              # noqa
        raise Skip('not an ELF file: %s' % type(ex).__name__)
    got, dumps, fresh = [], [], []
    for rel, fol in calls:
        got.append(split_impl(impl_view(timg, fs, bool(rel), bool(fol), elffile=obj))[0])
        if rel:                                          # full dumps use the real relocation code
            dumps.append(impl_dump(timg, fs, follow=bool(fol), eh=False, elffile=obj))
            fresh.append(impl_dump(timg, fs, follow=bool(fol), eh=False))
    ctx.record('seq_dump', a, impl=dumps, spec=fresh, model=None, in_domain=all(f[0] != 'err' for f in fresh),
               nontrivial=True, key='C11/seq-dump-differs')
    if any(len(v) > MODEL_MAX for v in list((fs or {}).values()) + [timg]):
        ctx.bump('model_skipped_large', kind)
        want = [split_impl(impl_view(timg, fs, bool(rel), bool(fol)))[0] for rel, fol in calls]
        ctx.record(kind, a, impl=got, spec=want, model=None, in_domain=True, nontrivial=True, key='C11/seq-view-differs')
        return
    tbl = yield from _tbl_for([timg] + list((fs or {}).values()))
    fsl = [[k, v] for k, v in sorted((fs or {}).items())]
    res = yield [_view_req(timg, fs, rel, fol, bool(ld), tbl) for rel, fol in calls] + \
                [['seq', timg, 4, int(bool(ld)), fsl, tbl, [[rel, fol] for rel, fol in calls]]]
    answers, run = res[:-1], res[-1]
    spec = [canon_spec(s_) for _, s_ in answers]          # the stateless view of each call's own flags
    # model = obj_run (Model/C11Dwarf.v): the calls made one after the other on one object
    model = [split_model(m_)[0] for m_ in run[1]] if run[0] == 'ok' else ['rejected'] * len(calls)
    ctx.record(kind, a, impl=got, spec=spec, model=model, in_domain=all(x != 'rejected' for x in spec), nontrivial=True,
               key='C11/seq-view-differs')


def h_presence(ctx, kind, a):
    from elftools.elf.elffile import ELFFile
    if len(a) == 6:                                      # a replayed presence_spec record of the truth-table kind
        yield from h_presence_tt(ctx, 'presence_tt', a)
        return
    le, is64, mask, strict, seed = a
    rng = _mk_rng(seed)
    secs = [(b'.text', 1, 6, 0x1000, b'\x90' * 4), (b'.debug_abbrev', 1, 0, 0, b'\1\2'), (b'.zdebug_str', 1, 0, 0, b'x'),
            (b'.debug_infoX', 1, 0, 0, b'q'), (b'.eh_frame_hdr', 1, 2, 0x3000, b'hdr'), (b'debug_info', 1, 0, 0, b'n')]
    if mask & 1:
        secs.append((b'.debug_info', 1, 0, 0, b'\0' * 11))
    if mask & 2:
        secs.append((b'.zdebug_info', 1, 0, 0, b'ZLIB' + b'\0' * 8 + zlib.compress(b'')))
    if mask & 4:
        secs.append((b'.eh_frame', 1, 2, 0x2000, b'\0' * 4))
    rng.shuffle(secs)
    img = U.build_elf(bool(le), bool(is64), 62, 0, secs)
    ((m, s),) = yield [['presence', img, strict]]
    impl = framework.impl_call(lambda: int(ELFFile(io.BytesIO(img)).has_dwarf_info(bool(strict))))
    formula = int(bool(mask & 1) or bool(mask & 2) or (not strict and bool(mask & 4)))
    spec = s[1] if s != 'none' else 'none'
    ctx.record(kind, a, impl=impl, spec=spec, model=m[1] if m[0] == 'ok' else m, in_domain=True, nontrivial=True,
               key='C11/presence')
    if spec != formula:
        ctx.record('presence_spec', a, impl=spec, spec=formula, model=None, in_domain=True, key='C11/spec-presence-vs-mask')


TT_NAMES = [b'.debug_info', b'.zdebug_info', b'.eh_frame', b'.gnu_debuglink', b'.gnu_debugaltlink', b'.debug_sup']


def h_presence_tt(ctx, kind, a):
    """has_dwarf_info(strict) and has_dwarf_link() on a file holding exactly the chosen subset of the debug-ish names
    (plus decoys): presence is reported exactly when .debug_info / .zdebug_info (non-strictly also .eh_frame) exists;
    link carriers do not count"""
    from elftools.elf.elffile import ELFFile
    le, is64, mask, strict, ld, seed = a[:6]
    types = a[6] if len(a) > 6 else [1] * 6
    sk = a[7] if len(a) > 7 else 'bytesio'
    ctx.bump('stream_kind', sk)
    rng = _mk_rng(seed)
    lname = b'x.debug'
    bodies = {b'.debug_info': b'\0' * 11, b'.zdebug_info': b'ZLIB' + b'\0' * 8 + zlib.compress(b''),
              b'.eh_frame': b'\0' * 4,
              b'.gnu_debuglink': lname + b'\0' * (4 - len(lname) % 4) + b'\x12\x34\x56\x78',
              b'.gnu_debugaltlink': b'x.sup\0' + bytes(range(20)),
              b'.debug_sup': b'\5\0\0x.sup\0\x14' + bytes(range(20))}
    secs = [(b'.text', 1, 6, 0x1000, b'\x90' * 4), (b'.debug_abbrev', 1, 0, 0, b'\1\2'), (b'.gnu_debuglinkX', 1, 0, 0, b'q'),
            (b'gnu_debuglink', 1, 0, 0, b'n'), (b'.eh_frame_hdr', 1, 2, 0x3000, b'hdr')]
    for k, nm in enumerate(TT_NAMES):
        if mask >> k & 1:
            secs.append((nm, types[k], 2 if nm == b'.eh_frame' else 0, 0x2000 if nm == b'.eh_frame' else 0, bodies[nm]))
    rng.shuffle(secs)
    img = U.build_elf(bool(le), bool(is64), 62, 0, secs)
    (m, s), (hm, lm) = yield [['presence', img, strict], ['link', img]]
    loader = _loader_of({}) if ld else None
    offered = []
    def run():
        e = ELFFile(_stream(img, sk), loader)
        r = [int(e.has_dwarf_info(bool(strict))), int(e.has_dwarf_link())]
        try:                                             # what get_dwarf_info() then offers
            di = e.get_dwarf_info(follow_links=False)
            offered.append([int(di.debug_info_sec is not None), int(di.eh_frame_sec is not None)])
        except Exception as ex:                          # noqa: e.g. a .zdebug_info without its framing
            offered.append(['err', type(ex).__name__])
        return r
    impl = framework.impl_call(run)
    if offered and offered[0][0] != 'err':
        o = offered[0]
        ctx.record('presence_offer', a, impl=[impl[0] if isinstance(impl, list) else impl, o],
                   spec=[int(bool(o[0]) or (not strict and bool(o[1]))), [int(bool(mask & 3)), int(bool(mask & 4))]],
                   model=None, in_domain=True, nontrivial=True, key='C11/presence-vs-offered-sections')
    ctx.bump('presence_types', ','.join(str(t) for t in sorted(set(types[k] for k in range(6) if mask >> k & 1))) or 'none')
    formula = [int(bool(mask & 1) or bool(mask & 2) or (not strict and bool(mask & 4))), int(bool(mask & 8))]
    spec = [s[1] if s != 'none' else 'none', formula[1]]
    model = [m[1] if m[0] == 'ok' else m, hm[1] if hm[0] == 'ok' else hm]
    ctx.record(kind, a, impl=impl, spec=spec, model=model, in_domain=True, nontrivial=True, key='C11/presence')
    if spec != formula:
        ctx.record('presence_spec', a, impl=spec, spec=formula, model=None, in_domain=True, key='C11/spec-presence-vs-mask')
    ctx.bump('presence_tt', 'only-link-carriers' if (mask & 7) == 0 and mask else ('none' if not mask else 'with-data'))


def h_synth(ctx, kind, a):
    le, is64, mach, fl, seed, T, level = a
    rng = _mk_rng(seed)
    names = [b'.debug_info', b'.debug_abbrev', b'.debug_str', b'.debug_line', b'.debug_frame', b'.debug_loc',
             b'.debug_ranges', b'.debug_aranges', b'.debug_types', b'.debug_rnglists', b'.debug_line_str']
    rng.shuffle(names)
    secs = [(b'.text', 1, 6, 0x1000, bytes(rng.getrandbits(8) for _ in range(rng.randrange(1, 40))))]
    for nm in names[:rng.randrange(1, 8)]:
        L = rng.choice([0, 1, 2, 13, 14, rng.randrange(0, 400), rng.randrange(0, 3000)])
        if rng.random() < 0.5:
            body = bytes(rng.getrandbits(8) for _ in range(L))            # incompressible
        else:
            body = bytes(rng.choice(b'abc\0') for _ in range(L))          # compressible
        secs.append((nm, 1, 0, 0, body))
    if rng.random() < 0.6:
        secs.append((b'.eh_frame', 1, 2, 0x2000 + rng.randrange(0, 0x100) * 8, bytes(rng.getrandbits(8) for _ in range(24))))
    rng.shuffle(secs)
    orig = U.build_elf(bool(le), bool(is64), mach, fl, secs)
    elf = U.Elf(orig)
    B = Builder()
    if T == 'gabi':
        p1, p2 = plan_gabi(elf, level, 'some', seed, B), []
    elif T == 'zgnu':
        p1, p2 = [], plan_zgnu(elf, level, 'some', seed, B)
    else:
        p1 = plan_gabi(elf, level, 'some', seed, B)
        done = {elf.secs[p[0]]['name'] for p in p1}
        p2 = [p for p in plan_zgnu(elf, level, 'some', seed + 1, B) if elf.secs[p[0]]['name'] not in done]
    bodies = yield B.reqs
    timg = apply_gabi(elf, p1, bodies) if p1 else orig
    if p2:
        e2 = U.Elf(timg)
        names2 = {elf.secs[p[0]]['name'] for p in p2}
        p2b = [(e2.index(elf.secs[i]['name']), k, blob) for i, k, blob in p2]
        timg = apply_zgnu(e2, p2b, bodies)
    n = len(p1) + len(p2)
    phantom = mach == 118 and not fl & 0x80000000
    tbl = yield from _tbl_for([timg, orig])
    (m, s_t), (mo, s_o) = yield [_view_req(timg, None, 1, 0, False, tbl), _view_req(orig, None, 1, 0, False, tbl)]
    spec = canon_spec(s_o)
    # legacy framing of a phantom-byte file is outside the theorem (the odd bytes of the FRAMED data are dropped)
    indom = spec != 'rejected' and not (phantom and p2)
    _record_view(ctx, kind, a, impl_view(timg, None, True, False), m, spec, in_domain=indom, nontrivial=n > 0,
                 detail={'sections': n, 'phantom': phantom})
    _record_view(ctx, 'synth_plain', a, impl_view(orig, None, True, False), mo, spec, in_domain=spec != 'rejected')
    ctx.bump('synth_cfg', '%s%s%s' % ('LE' if le else 'BE', 64 if is64 else 32, '-phantom' if phantom else ''))


MUST_REJECT = {'size+2^32', 'size+2^33', 'size+2^40', 'size+2^63', 'size_hi_ones', 'magic0', 'magic3', 'magic_lower', 'size+1', 'size-1', 'size0', 'size1', 'sizeLE', 'size_huge',
               'trunc_half', 'trunc_all', 'short12', 'short5', 'type', 'garbage', 'chdr_short'}
ACCEPT = {'trailing', 'empty_payload'}


def h_bad(ctx, kind, a):
    """malformed legacy (.zdebug) / gABI framings of .debug_info"""
    src, mut, seed = a[:3]
    where = a[3] if len(a) > 3 else 'primary'             # 'sup' / 'link': the bad file is reached through a link
    elf = _elf(_load(src))
    i = elf.index(b'.debug_info')
    if i is None:
        raise Skip('no .debug_info')
    body = elf.body(i)
    blob = zlib.compress(body, 6)
    size = len(body)
    if mut == 'size+1': size += 1
    elif mut == 'size-1': size -= 1
    elif mut == 'size1': size = 1
    elif mut == 'size0': size = 0
    elif mut == 'sizeLE': size = int.from_bytes(len(body).to_bytes(8, 'big'), 'little')
    elif mut == 'size_huge': size = 2 ** (64 if (elf.is64 or kind == 'zbad') else 32) - 1
    elif mut.startswith('size+2^'):
        size += 2 ** int(mut[7:])
    elif mut == 'size_hi_ones': size += 0xffffffff << 32
    elif mut == 'trunc_half': blob = blob[:len(blob) // 2]
    elif mut == 'trunc_1': blob = blob[:-1]
    elif mut == 'trunc_4': blob = blob[:-4]
    elif mut == 'trunc_all': blob = b''
    elif mut == 'garbage': blob = bytes(_mk_rng(seed).getrandbits(8) for _ in range(40))
    elif mut == 'trailing': blob = blob + b'TRAILING GARBAGE'
    elif mut == 'empty_payload':
        blob, size = zlib.compress(b'', 6), 0
    if kind == 'gbad' and size >= 2 ** 32 and not elf.is64:
        raise Skip('ch_size is a 32-bit field in this class')
    if kind == 'zbad':
        (fb,) = yield [['zdebug_body', size, blob]]
        if mut == 'magic0': fb = b'Y' + fb[1:]
        elif mut == 'magic3': fb = fb[:3] + b'C' + fb[4:]
        elif mut == 'magic_lower': fb = b'zlib' + fb[4:]
        elif mut == 'short12': fb = fb[:12]
        elif mut == 'short5': fb = fb[:5]
        edits = {i: {'name': b'.zdebug_info', 'body': fb}}
        # C++ objects carry several .debug_info sections (comdat type units): the name must denote the framed one
        for j, sj in enumerate(elf.secs):
            if j != i and sj['name'] == b'.debug_info':
                edits[j] = {'name': b'.shadowed_debug_info'}
    else:
        (fb,) = yield [['gabi_body', elf.le, elf.is64, 0, size, 1, blob]]
        if mut == 'type':
            fb = (0x7ffffffe).to_bytes(4, 'little' if elf.le else 'big') + fb[4:]
        edits = {i: {'flags': elf.secs[i]['sh_flags'] | U.SHF_COMPRESSED, 'body': fb}}
    timg = U.rewrite(elf, edits)
    if mut == 'chdr_short':
        # the compression header runs into the end of the file: cut the image inside it and keep the tables in front
        e2 = U.Elf(timg)
        timg = _tables_first(e2, i, elf.chdr_size() - 3)
    top, fs = timg, None
    if where != 'primary':
        import binascii
        host = _elf(_load(src))
        lname = b'lnk/the.file'
        if where == 'sup':
            (lb,) = yield [['altlink_body' if seed % 2 else 'debugsup_body'] +
                           ([lname, bytes(range(20))] if seed % 2 else [host.le, 5, 0, lname, bytes([20]) + bytes(range(20))])]
            top = U.rewrite(host, add=[dict(name=b'.gnu_debugaltlink' if seed % 2 else b'.debug_sup', body=lb)])
        else:
            (lb,) = yield [['debuglink_body', host.le, lname, b'\0' * (3 - len(lname) % 4), binascii.crc32(timg)]]
            top = strip_debug(host, lb)
        fs = {lname: timg}
    tbl = yield from _tbl_for([top] + list((fs or {}).values()))
    ((m, s_t),) = yield [_view_req(top, fs, 0, int(bool(fs)), bool(fs), tbl)]
    iv = impl_view(top, fs, False, bool(fs))
    spec = canon_spec(s_t)
    icore, iextra = split_impl(iv)
    mcore, mextra = split_model(m)
    if kind == 'gbad' and mut in ('size-1', 'size1'):
        key = 'gabi-declared-size-smaller-accepted'
    else:
        key = '%s-%s' % (kind, mut)
    if where != 'primary':
        key += '-in-%s-file' % where
    must = mut in MUST_REJECT
    want = 'rejected' if must else ('accepted' if mut in ACCEPT else ('rejected' if spec == 'rejected' else 'accepted'))
    verdict = lambda c: 'rejected' if c == 'rejected' else 'accepted'
    ctx.record(kind, a, impl=[verdict(icore), iextra if icore == 'rejected' else 0],
               spec=[want, mextra if mcore == 'rejected' else 0],
               model=[verdict(mcore), mextra if mcore == 'rejected' else 0],
               in_domain=must or mut in ACCEPT, nontrivial=True, key='C11/' + key,
               detail={'spec_view': verdict(spec)})
    if verdict(spec) != want and (must or mut in ACCEPT):
        ctx.record(kind + '_spec', a, impl=verdict(spec), spec=want, model=None, in_domain=True, key='C11/spec-framing-verdict')
    if icore != 'rejected' and mcore != 'rejected':
        ctx.record(kind + '_content', a, impl=icore, spec=spec, model=mcore, in_domain=mut in ACCEPT, nontrivial=True,
                   key='C11/' + key + '-content')


def _tables_first(e2, i, keep):
    """same sections, but the section header table and string table come BEFORE the body of section i, which
    is the last thing in the file and is cut to `keep` bytes"""
    s = e2.secs[i]
    body = e2.img[s['sh_offset']:s['sh_offset'] + s['sh_size']]
    img = bytearray(e2.img)
    # header table currently at the end: append the body again after it and point the section there
    off = len(img)
    img += body[:keep]
    import struct
    vals = [s[k] for k in ('sh_name', 'sh_type', 'sh_flags', 'sh_addr', 'sh_offset', 'sh_size', 'sh_link', 'sh_info',
                           'sh_addralign', 'sh_entsize')]
    vals[4] = off
    struct.pack_into(e2.shfmt, img, e2.e_shoff + i * e2.e_shentsize, *vals)
    return bytes(img)


def h_crc(ctx, kind, a):
    import binascii
    from elftools.dwarf.dwarf_util import _file_crc32
    data = a[0] if kind == 'crc' else bytes(_mk_rng(a[1]).getrandbits(8) for _ in range(a[0]))
    ((m, mf, sp),) = yield [['crc', data]]
    ctx.record(kind, a, impl=[binascii.crc32(data), _file_crc32(io.BytesIO(data))], spec=[sp, sp], model=[m, mf],
               in_domain=True, nontrivial=len(data) > 0, key='C11/crc32')


def h_linkparse(ctx, kind, a):
    from elftools.elf.elffile import ELFFile
    le, nm, padmode, crc, cut = a
    padlen = 3 - len(nm) % 4
    pad = b'\0' * padlen if padmode == 'zero' else bytes([1 + (crc >> k) % 255 for k in range(padlen)])
    (body,) = yield [['debuglink_body', le, nm, pad, crc]]
    if cut >= 0:
        body = body[:cut]
    base = U.Elf(U.build_elf(bool(le), True, 62, 0, [(b'.text', 1, 6, 0x1000, b'\xc3'), (b'.gnu_debuglink', 1, 0, 0, body)]))
    img = _tables_first(base, base.index(b'.gnu_debuglink'), len(body))      # the link section ends the file
    ((hm, lm),) = yield [['link', img]]
    def run():
        e = ELFFile(io.BytesIO(img))
        l = e.get_dwarf_link()
        return [int(e.has_dwarf_link()), 'none' if l is None else ['some', [l.filename, l.checksum]]]
    impl = framework.impl_call(run)
    model = [hm[1], lm[1]] if hm[0] == 'ok' and lm[0] == 'ok' else ['err', (lm if lm[0] == 'err' else hm)[1]]
    complete = cut < 0 and padmode == 'zero'
    spec = [1, ['some', [nm, crc]]] if complete else model
    ctx.record(kind, a, impl=impl, spec=spec, model=model, in_domain=complete, nontrivial=True, key='C11/debuglink-parse')


HANDLERS = {'plain': h_plain, 'lnsup': h_lnsup, 'link_own': h_link_own, 'bigrun': h_bigrun, 'stock_loader': h_stock_loader, 'seq': h_seq, 'presence_tt': h_presence_tt, 'keepdebug': h_keepdebug, 'chain': h_chain, 'presence_file': h_presence_file, 'gabi': h_reencode, 'zgnu': h_reencode,
            'objcopy': h_objcopy, 'link': h_link, 'link_path': h_link_path, 'sup': h_sup, 'presence': h_presence,
            'synth': h_synth, 'zbad': h_bad, 'gbad': h_bad, 'crc': h_crc, 'crc_rand': h_crc, 'linkparse': h_linkparse}
