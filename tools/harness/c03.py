"""C03 correspondence: symbol tables, lookup by name, SysV and GNU hash sections.

Abstract input = a symbol list + table parameters.  The symbol table, the SHNDX and
syminfo tables and the two hash sections are ENCODED BY THE COQ SPEC (driver ops
enc_*); the hash tables are constructed here with the standard linker constructions
over hash values obtained from the Coq spec, with adversarial parameters, and EVERY
table is certified in-domain by the driver's wf_sysv_hash / wf_gnu_hash / symtab_ok.
The harness only assembles the pieces into a minimal ELF image (ELF header, section
headers, random section order, non-zero garbage in the gaps) and opens it with the real
ELFFile(BytesIO).  impl = SymbolTableSection / SymbolTableIndexSection /
SUNWSyminfoTableSection / ELFHashSection / GNUHashSection observations; model =
extracted Model/C03*.v on the same image; spec = extracted Spec/C03*.v expectations."""
import io, os, random, struct

CLAIMED = True
CONFIG = {'assumptions': [
    'names are compared as UTF-8 bytes; generated names are valid UTF-8 without NUL (the errors=replace path is outside the property)',
    'enum-valued fields (bind, type, visibility, shndx, si_boundto) are compared as integers: the names the library prints are '
    'translated back through the standard tables of Spec/C03Sym.v, which Props/C03.v (C03_sym_enum_tables) proves equivalent to the '
    'tables regenerated from the live code',
    'hash lookups are compared at the level the property states: a returned symbol must be an entry of the hashed part of the '
    'table bearing the queried name; which of several equally named symbols is returned is not constrained',
    'the hashed part of a SysV table is indices 1..n-1 (index 0 is STN_UNDEF, the chain terminator), of a GNU table symoffset..n-1',
    'the ELF header and section headers of the synthesized image are written by the harness (they are C01 subject matter); '
    'linked-section type validation (elffile.py _get_linked_*) is exercised by opening the image but has no theorem here']}
LEVEL = {'text': 'Machine-checked (42 theorems, no axioms), all for unbounded sizes and BOTH classes/byte orders: a symbol table of any '
                 'length and any sh_entsize >= the standard entry, placed anywhere in any image with its string table placed anywhere, '
                 'is enumerated to exactly the encoded entries in index order (every field; names through the string table), '
                 'get_symbol(i) and num_symbols are exact, get_symbol_by_name returns exactly the symbols bearing the name in order or '
                 'None - and does so after ANY history of calls on the section object (num_symbols, get_symbol, enumerations abandoned after any number of steps, earlier lookups): the object\'s one mutable attribute _symbol_name_map is modelled, the invariant None-or-complete-map is proved preserved by every call (C03_history_free, C03_by_name_after_history); the shared stream cursor is explicit in that state machine: every call and every single next() of any number of live iter_symbols generators starts at an ARBITRARY cursor (schedule adv), and the answers are proved independent of it (C03_cursor_free, C03_next_yields_in_order, C03_get_symbol_cursor_free; C03_gnu_count_sequential ties the one sequential read loop, GNU get_number_of_symbols, to the indexed walk); SHT_SYMTAB_SHNDX entry i and the Solaris syminfo enumeration are exact; the code\'s elf_hash and gnu_hash equal '
                 'the standard 32-bit recurrences on every input; for ALL tables satisfying the boolean predicates wf_sysv_hash / '
                 'wf_gnu_hash (no builder is trusted) SysV and GNU lookups are sound (a returned symbol bears the name and lies in the '
                 'hashed part), complete (a present name is found) and return None without error for every absent name (bucket, '
                 'full-hash and bloom collisions, chain ending at end of file), and both symbol counts are exact - proved both for an '
                 'abstract symbol source and for the section classes over a file image of ANY e_machine: the SysV entry width (64-bit on ELF64 Alpha/s390x, else 32-bit) the live code chooses is proved to be the psABI one (C03_hash_entry_width) and the section theorems are stated for that width, while the GNU section has 32-bit words on every machine (header round trip of Elf_Hash/Gnu_Hash '
                 'included). Layouts and enum tables regenerated from the live code are proved equal to the gABI ones. The hand models '
                 '(loops, dict building, cursor handling) are tied to the code by differential correspondence on synthesized ELF '
                 'images with adversarial hash parameters; every generated table is certified in-domain by the extracted wf predicates.',
         'design_ref': '4.3', 'technique': 'Coq proof (generic layout round trip, chain/group induction, bit arithmetic) + extracted-model correspondence',
         'note': 'Trusted: Coq kernel, ExtrOcamlBasic extraction, harness image assembly and the tie model<->code (correspondence, not '
                 'proof). No axioms, nothing _partial. Two genuine defects found and repaired in /repo: eb363f2 (elf_hash wider than '
                 '32 bits) and 3e042b2 (GNU chain walk read from the shared stream cursor; also gave struct.error for some absent names). '
                 'Not covered by a theorem: _get_linked_symtab_section/_get_linked_strtab_section type validation, DynamicSegment as '
                 'symbol source (the abstract-source theorems apply to any object answering get_symbol).'}

RULE = ('cases: (a) hash functions on byte strings (random ASCII/UTF-8/raw bytes, engineered 32-bit-overflow and collision '
        'families); (b) symbol-table scenarios: 0..2000 symbols (quick: mostly 0..12, some up to 200, a few up to 2000), '
        'duplicate/empty/non-ASCII/long names, versioned spellings base@VER / base@@VER / a@b@c with and without a bare twin (queried by their pieces), boundary and random st_info/st_other/st_shndx/value/size, both classes and byte '
        'orders, entry sizes above the standard, shared-suffix string tables, random section order with garbage gaps; '
        '(c) SysV tables (nbucket 1..2n, head- or tail-inserted chains; four with 1-2 buckets over 66..260 symbols, as for GNU) and (d) GNU tables (nbuckets 1.., bloom size 1.., '
        'shift 0..31, symoffset 0..n, forced full-hash collisions, section last in the file so the final chain ends at EOF), '
        'queried with every present name (sampled on large tables) and absent names (random, same bucket, same full hash, bloom '
        'false positive); (e) four real shared objects (GNU ld and gold, ELF32/ELF64, corpus/C03): decoded by the harness with struct, the '
        'Coq spec encoders must reproduce the section bytes and wf_sysv_hash / wf_gnu_hash must accept the linker\'s tables, then all '
        'present names and 40 absent ones are looked up; (f) histories of 1..9 calls on ONE SymbolTableSection object (num_symbols, '
        'get_symbol, enumerations abandoned after 0 / 1 / some / all / more-than-all steps by dropping or closing the generator, '
        'lookups by name before and after, names beyond and on both sides of the stop point) against the stateless spec; (g) interleaved histories of 7..19 calls on the sections of ONE open ELFFile holding .dynstr .dynsym '
        '.symtab_shndx .SUNW_syminfo .hash .gnu.hash: up to three live iter_symbols generators and two syminfo generators advanced one '
        'step at a time and RESUMED after get_symbol, lookups by name, SysV/GNU hash lookups and counts, get_section_index, '
        'get_string, other sections\' data(), get_section and explicit stream.seek; the model runs under the cursor schedule '
        'stream.tell() actually observed before each call. Every table / history / file case hands the library one of the stream '
        'kinds of tools/lib/streams.py (BytesIO half of the time, else real file, warm, at EOF, 16-byte buffer, mmap, gzip, decoy fd), a '
        'function of the case seed; e_machine is drawn from a list that includes EM_S390 and EM_ALPHA (ELF64: 64-bit SysV entries encoded by '
        'the spec, ordinary GNU hash); 30 cases have 65..700-byte names placed about one read-buffer length (4096 / 8192) behind their '
        'entries so that they straddle buffer ends on real files; 4 cases have 1-2 buckets over 66..260 symbols; two forced tables (symtab and SysV hash each) have names of 65535 / 65536 / 70001 bytes; '
        'every list returned by get_symbol_by_name is then consumed and edited in place by the harness as its owner (entries edited, '
        'del / pop / reverse+append / overwrite) and the names are asked again (second pass in the symtab stream, repeated names in the '
        'histories). distinct = hash(kind, abstract); non-trivial = a table with >= 2 symbols, or a hash-function input of '
        '>= 2 bytes')

SHT = {'NULL': 0, 'SYMTAB': 2, 'STRTAB': 3, 'HASH': 5, 'DYNSYM': 11, 'SYMTAB_SHNDX': 18,
       'GNU_HASH': 0x6ffffff6, 'SUNW_LDYNSYM': 0x6ffffff3, 'SUNW_syminfo': 0x6ffffffc}
SYMTYPES = [SHT['DYNSYM'], SHT['SYMTAB'], SHT['SUNW_LDYNSYM']]
# 22 = EM_S390 and 41 = EM_ALPHA: on ELF64 their SysV hash entries are 64-bit (the GNU hash keeps 32-bit words)
MACHINES = [3, 62, 40, 8, 20, 21, 183, 2, 0xfeed, 22, 41, 22, 41]


# ------------------------------------------------------------------ steering hashes (generation only)
def _sysv(bs):
    h = 0
    for c in bs:
        h = ((h << 4) + c) & 0xffffffff
        g = h & 0xf0000000
        if g:
            h ^= g >> 24
        h &= ~g & 0xffffffff
    return h


def _gnu(bs):
    h = 5381
    for c in bs:
        h = (h * 33 + c) & 0xffffffff
    return h


def _sysv_unbounded(bs):
    """the gABI fragment evaluated on unbounded integers (what a 64-bit `unsigned long` or a Python int does)"""
    h = 0
    for c in bs:
        h = (h << 4) + c
        x = h & 0xF0000000
        if x:
            h ^= x >> 24
        h &= ~x
    return h


def _overflow_name(rng):
    """an ASCII name on which (h << 4) + c leaves 32 bits: seven characters whose nibbles add up to
    h = 0x0FFFFFF9..0x0FFFFFFF (no carries: low nibble 8..13 plus next high nibble = 15; the first
    character's high nibble is folded into nibble 1), then a character >= 16 * (2**28 - h)"""
    while True:
        c1h = rng.randint(2, 7)
        lo = [rng.randint(8, 0xD) for _ in range(6)]
        hi = [c1h] + [0xF - lo[i] for i in range(5)]
        c7h = (0xF ^ c1h) - lo[5]
        c7l = rng.randint(9, 0xF)
        if not 2 <= c7h <= 7 or (c7h == 7 and c7l == 0xF):
            continue
        k = 16 - c7l
        name = bytes([16 * hi[i] + lo[i] for i in range(6)] + [16 * c7h + c7l, rng.randint(max(16 * k, 0x21), 0x7e)])
        name += bytes(rng.randint(0x21, 0x7e) for _ in range(rng.choice([0, 0, 1, 3])))
        if _sysv_unbounded(name) != _sysv(name):
            return name


def _utf8_char(rng):
    r = rng.random()
    if r < 0.4:
        cp = rng.randint(0x80, 0x7ff)
    elif r < 0.8:
        cp = rng.choice([rng.randint(0x800, 0xd7ff), rng.randint(0xe000, 0xffff)])
    else:
        cp = rng.randint(0x10000, 0x10ffff)
    return chr(cp).encode('utf-8')


def _name(rng):
    r = rng.random()
    ident = 'abcdefghijklmnopqrstuvwxyzABCDEFGHIJKLMNOPQRSTUVWXYZ0123456789_.$@'
    if r < 0.08:
        return b''
    if r < 0.55:
        return ''.join(rng.choice(ident) for _ in range(rng.randint(1, 12))).encode()
    if r < 0.70:
        return b''.join(_utf8_char(rng) if rng.random() < 0.5 else rng.choice(ident).encode()
                        for _ in range(rng.randint(1, 8)))
    if r < 0.80:   # long: crosses the 64-byte chunks of the string reader
        return ''.join(rng.choice(ident) for _ in range(rng.choice([62, 63, 64, 65, 127, 128, 129, 200]))).encode()
    if r < 0.90:
        return bytes(rng.randint(0x21, 0x7e) for _ in range(rng.randint(1, 6)))
    return _overflow_name(rng) if rng.random() < 0.5 else b'fooAz'


def _gnu_twin(name, rng):
    """a different ASCII-perturbed name with the same GNU hash: (a, b) -> (a + 1, b - 33)"""
    pos = [i for i in range(len(name) - 1)
           if 0x21 <= name[i] < 0x7e and 0x21 + 33 <= name[i + 1] <= 0x7e]
    neg = [i for i in range(len(name) - 1)
           if 0x21 < name[i] <= 0x7e and 0x21 <= name[i + 1] <= 0x7e - 33]
    if pos and (not neg or rng.random() < 0.5):
        i = rng.choice(pos)
        return name[:i] + bytes([name[i] + 1, name[i + 1] - 33]) + name[i + 2:]
    if neg:
        i = rng.choice(neg)
        return name[:i] + bytes([name[i] - 1, name[i + 1] + 33]) + name[i + 2:]
    return None


def _sysv_twin(name, rng):
    """same SysV hash: (a, b) -> (a + 1, b - 16)"""
    pos = [i for i in range(len(name) - 1)
           if 0x21 <= name[i] < 0x7e and 0x21 + 16 <= name[i + 1] <= 0x7e]
    if pos:
        i = rng.choice(pos)
        t = name[:i] + bytes([name[i] + 1, name[i + 1] - 16]) + name[i + 2:]
        if _sysv(t) == _sysv(name):
            return t
    return None


def _sym(rng, name, is64):
    m = 2 ** (64 if is64 else 32)
    bv = [0, 1, m // 2 - 1, m // 2, m - 1, 0x0102030405060708 % m]
    value = rng.choice(bv) if rng.random() < 0.3 else rng.randrange(m)
    size = rng.choice(bv) if rng.random() < 0.3 else rng.randrange(m)
    shndx = rng.choice([0, 1, 0xfeff, 0xff00, 0xff1f, 0xfff1, 0xfff2, 0xffff, 0xffff]) if rng.random() < 0.5 else rng.randrange(65536)
    return [name, value, size, rng.randrange(16), rng.randrange(16), rng.randrange(8), rng.randrange(4),
            rng.randrange(8), shndx]


def _names_for(rng, n):
    names = []
    while len(names) < n:
        r = rng.random()
        if names and r < 0.15:
            names.append(rng.choice(names))                      # duplicate
        elif names and r < 0.30:
            t = _gnu_twin(rng.choice(names), rng)                # present full GNU collision
            names.append(t if t is not None else _name(rng))
        elif names and r < 0.40:
            t = _sysv_twin(rng.choice(names), rng)               # present full SysV collision
            names.append(t if t is not None else _name(rng))
        elif names and r < 0.52:
            # versioned spellings base@VER / base@@VER / a@b@c of a name that may or may not also occur bare
            base = rng.choice(names) if rng.random() < 0.6 else _name(rng)
            base = base.split(b'@')[0] if rng.random() < 0.5 else base
            ver = rng.choice([b'GLIBC_2.14', b'GLIBC_2.2.5', b'V1', b'y', b'b@c', 'ü1'.encode()])
            names.append(base + rng.choice([b'@', b'@@']) + ver)
        else:
            names.append(_name(rng))
    return names


def _absent_queries(rng, names, k):
    present = set(names)
    out = []
    for _ in range(k):
        r = rng.random()
        q = None
        if names and r < 0.3:
            q = _gnu_twin(rng.choice(names), rng)
        elif names and r < 0.5:
            q = _sysv_twin(rng.choice(names), rng)
        elif names and r < 0.6:
            base = rng.choice(names)
            q = base + b'x' if rng.random() < 0.5 else base[:-1]
            if not _is_utf8(q):
                q = None
        elif names and r < 0.8 and any(b'@' in x for x in names):
            # the pieces of a versioned name are not names of the symbol: base, base@, @VER, VER, base@@
            v = rng.choice([x for x in names if b'@' in x])
            base, _, ver = v.partition(b'@')
            q = rng.choice([base, base, base, base + b'@', b'@' + ver, ver.lstrip(b'@'), base + b'@@', v + b'@'])
        if q is None:
            q = _name(rng)
        if q not in present and b'\0' not in q:
            out.append(q)
    return out


def _scenario(rng, n, big=False, long_names=False):
    le = rng.randrange(2)
    is64 = rng.randrange(2)
    names = _names_for(rng, n)
    if long_names:
        ident = 'abcdefghijklmnopqrstuvwxyzABCDEFGHIJKLMNOPQRSTUVWXYZ0123456789_.$@'
        names = [nm if rng.random() < 0.3 else
                 ''.join(rng.choice(ident) for _ in range(rng.choice([65, 66, 127, 129, rng.randint(65, 700), rng.randint(65, 700)]))).encode()
                 for nm in names]
    if n > 0 and rng.random() < 0.8:
        names[0] = b''                                           # the conventional null symbol
    syms = [_sym(rng, nm, is64) for nm in names]
    extra = rng.choice([0, 0, 0, 1, 8])
    common = [le, is64, rng.choice(MACHINES), extra, rng.randrange(3), rng.getrandbits(32), syms]
    nq = min(len(set(names)), 12 if big else 10 ** 6)
    present_q = sorted(set(names))
    if len(present_q) > nq:
        present_q = rng.sample(present_q, nq)
    queries = present_q + _absent_queries(rng, names, 4 if big else min(3 + n, 12))
    rng.shuffle(queries)
    return common, names, queries


def _gnu_params(rng, names, so=None):
    n = len(names)
    if so is None:
        r = rng.random()
        so = 1 if r < 0.4 else (n if r < 0.5 else rng.randint(0, n))
    so = min(so, n)
    if n == 0:
        so = 0
    nb = rng.choice([1, 1, 2, 3, rng.randint(1, max(1, 2 * (n - so) + 1))])
    if so == 0 and n > 0:
        nb = 1                       # with symoffset 0 there is no way to mark a bucket empty
    bloom_size = rng.choice([1, 1, 2, 4, rng.randint(1, 9)])
    shift = rng.choice([0, 0, 5, 6, 31, rng.randint(0, 31), rng.randint(0, 31)])
    empty_mode = rng.randrange(2)    # empty buckets hold 0, or any index below symoffset
    last = rng.randrange(2)          # section placed at the very end of the file
    return [nb, so, bloom_size, shift, empty_mode, last]


def gen(ctx):
    rng = ctx.rng
    cases = []
    T = ctx.scale(1, 10)
    # ---- (a) hash functions
    hn = [b'', b'a', b'main', b'printf', b'exit', 'ïó®123'.encode(), b'\xe4\xbd\xa0\xe5\xa5\xbd',
          b'\xff\x0f\x0f\x0f\x0f\x0f\x12', b'fooAz', b'fooBY', b'\x00', b'\x00\x01', b'\xff' * 9]
    for _ in range(150 * T):
        r = rng.random()
        if r < 0.3:
            hn.append(_name(rng))
        elif r < 0.5:
            hn.append(bytes(rng.getrandbits(8) for _ in range(rng.randint(0, 40))))
        elif r < 0.7:
            hn.append(_overflow_name(rng))
        elif r < 0.85:
            hn.append(bytes(rng.choice([0xff, 0xfe, 0x7f, 0xf0, 0x0f]) for _ in range(rng.randint(5, 30))))
        else:
            hn.append(b''.join(_utf8_char(rng) for _ in range(rng.randint(1, 10))))
    for nm in hn:
        cases.append(('hashfn', [nm]))
    # ---- (b,c,d) table scenarios
    sizes = [0, 0, 1, 1, 2, 2, 2, 3, 3] + [rng.randint(0, 12) for _ in range(90 * T)] + \
            [rng.randint(13, 120) for _ in range(8 * T)]
    # large tables: quick = one of 400..700 symbols for every kind and one of 800 for the symbol table only
    # (the extracted model is quadratic in the file size: 2000 symbols cost ~45 s); thorough = up to 2000 for every kind
    bigs = [rng.randint(400, 700)] + ([rng.randint(500, 2000) for _ in range(6)] + [2000] if T > 1 else [])
    only_symtab = [] if T > 1 else [800]
    for n in sizes + bigs + only_symtab:
        big = n > 200
        common, names, queries = _scenario(rng, n, big)
        xextra = rng.choice([0, 0, 4])
        xrows = [rng.choice([0, 1, 0xffff, 0x10000, 2 ** 32 - 1, rng.getrandbits(32)]) for _ in range(n)]
        iextra = rng.choice([0, 0, 2])
        irows = [[rng.choice([0xffff, 0xfffe, 0xfffd, 0xfffc, 0, rng.randrange(65536)]), rng.randrange(65536)]
                 for _ in range(n)]
        cases.append(('symtab', common + [queries, xextra, xrows, iextra, irows]))
        if n in only_symtab:
            continue
        if n >= 1:
            nb = rng.choice([1, 1, 2, 3, rng.randint(1, 2 * n + 1)])
            if big:
                nb = rng.randint(n // 4, 2 * n)
            cases.append(('sysv', common + [queries, [nb, rng.randrange(2)]]))
        if n == 0:
            continue
        gp = _gnu_params(rng, names)
        if big:
            gp[0] = rng.randint(max(1, n // 8), n)
        cases.append(('gnu', common + [queries, gp]))
        if not big and n <= 12 and rng.random() < 0.5:
            # the same symbols under a second, independent GNU parameter choice
            cases.append(('gnu', common + [queries, _gnu_params(rng, names)]))
    # ---- (i) long chains: one or two buckets over 66..260 hashed symbols (chains longer than any block a reader
    #      might fetch at a time: 64, 128), both hash styles
    for _ in range(4 * T):
        n = rng.choice([66, 67, 130, rng.randint(66, 260), rng.randint(66, 260)])
        common, names, queries = _scenario(rng, n, big=True)
        gp = _gnu_params(rng, names, so=rng.choice([1, 1, 2]))
        gp[0] = rng.choice([1, 1, 2])
        cases.append(('gnu', common + [queries, gp]))
        cases.append(('sysv', common + [queries, [rng.choice([1, 1, 2]), rng.randrange(2)]]))
    # ---- (h) long names (65..700 bytes) thousands of bytes from their entries: on real file objects they straddle the
    #      reader's buffer boundaries (every 8192 bytes from the last refill; every 16 bytes on file_small)
    for j in range(30 * T):
        n = rng.randint(5, 22)
        common, names, queries = _scenario(rng, n, long_names=True)
        common[4] = 3
        if j % 3 == 0:
            cases.append(('symtab', common + [queries, 0, [rng.getrandbits(32) for _ in range(n)], 0,
                                              [[rng.randrange(65536), rng.randrange(65536)] for _ in range(n)]]))
        elif j % 3 == 1:
            cases.append(('sysv', common + [queries, [rng.randint(1, n), rng.randrange(2)]]))
        else:
            gp = _gnu_params(rng, names)
            gp[5] = rng.choice([0, 0, 1])
            cases.append(('gnu', common + [queries, gp]))
    # ---- (f) histories on ONE SymbolTableSection object (its _symbol_name_map is state)
    for _ in range(140 * T):
        n = rng.choice([1, 2, 3, 4, 5, 6, 8, 10, 12, rng.randint(0, 12), rng.randint(13, 60)])
        common, names, _q = _scenario(rng, n)
        cases.append(('symhist', common + [rng.randrange(3), _history(rng, names)]))
    # ---- (g) interleaved histories on ONE ELFFile: live generators resumed after other stream activity
    for _ in range(120 * T):
        n = rng.choice([2, 3, 4, 5, 6, 8, 10, 12, rng.randint(1, 12), rng.randint(13, 40)])
        common, names, _q = _scenario(rng, n)
        gp = _gnu_params(rng, names)
        gp[5] = 0
        nb = rng.choice([1, 2, 3, rng.randint(1, 2 * n + 1)])
        cases.append(('filehist', common + [gp, [nb, rng.randrange(2)], rng.choice([0, 0, 4]), rng.choice([0, 0, 2]),
                                            rng.getrandbits(32), _file_history(rng, names)]))
    return cases


def _file_history(rng, names):
    """calls on the sections of one open file, interleaved.  Symbol table: ['num'] ['get', i] ['iter', k, how]
    ['byname', q] ['next', g] (one step of live generator g); syminfo: ['inext', g]; companion index table:
    ['shndx', i]; hash sections: ['sysv', q] ['gnu', q] ['sysvcount'] ['gnucount']; string table: ['str', i];
    pure disturbances of the shared stream: ['seek', p] ['secdata', j] ['getsec', j]."""
    n = len(names)
    absent = _absent_queries(rng, names, 3) or [b'absent']
    ops = []
    def q():
        prev = [o[1] for o in ops if o[0] == 'byname']
        if prev and rng.random() < 0.3:
            return rng.choice(prev)
        return names[rng.randrange(n)] if rng.random() < 0.7 else rng.choice(absent)
    for _ in range(rng.randint(4, 16)):
        r = rng.random()
        if r < 0.34:
            ops.append(['next', rng.choice([0, 0, 0, 1, 1, 2])])
        elif r < 0.42:
            ops.append(['inext', rng.choice([0, 0, 1])])
        elif r < 0.50:
            ops.append(['get', rng.randrange(n)])
        elif r < 0.56:
            ops.append(['byname', q()])
        elif r < 0.62:
            ops.append(['seek', rng.choice([0, 1, rng.randrange(4096), rng.randrange(64), 10 ** 6])])
        elif r < 0.68:
            ops.append(['secdata', rng.randint(1, 7)])
        elif r < 0.72:
            ops.append(['getsec', rng.randint(1, 7)])
        elif r < 0.78:
            ops.append(['sysv', q()])
        elif r < 0.84:
            ops.append(['gnu', q()])
        elif r < 0.87:
            ops.append([rng.choice(['sysvcount', 'gnucount'])])
        elif r < 0.91:
            ops.append(['shndx', rng.randrange(n)])
        elif r < 0.94:
            ops.append(['str', rng.randrange(n)])
        elif r < 0.96:
            ops.append(['iter', rng.randint(0, n + 1), rng.randrange(3)])
        else:
            ops.append(['num'])
    # make sure some generator is resumed after something else happened
    ops += [['next', 0], rng.choice([['get', rng.randrange(n)], ['seek', 3], ['sysv', q()], ['next', 1], ['secdata', 2]]), ['next', 0]]
    return ops


def _history(rng, names):
    """a sequence of calls: ['num'] ['get', i] ['iter', k, how-abandoned] ['byname', q].  Enumerations stop anywhere
    (0 steps, the first entry, mid-table, the last entry, past the end); lookups prefer names whose occurrences lie
    beyond / on both sides of a previous stop point and absent names."""
    n = len(names)
    ops = []
    absent = _absent_queries(rng, names, 3)
    for _ in range(rng.choice([1, 2, 2, 3, 3, 4, 5, 6, 8])):
        r = rng.random()
        if r < 0.35:
            k = rng.choice([0, 1, 1, 2, rng.randint(0, n), rng.randint(0, n), max(n - 1, 0), n, n + 1])
            ops.append(['iter', k, rng.randrange(3)])
        elif r < 0.78:
            prev = [o[1] for o in ops if o[0] == 'byname']
            if prev and rng.random() < 0.3:
                q = rng.choice(prev)                         # the same name again (its earlier result was consumed by the caller)
            elif names and rng.random() < 0.75:
                q = names[rng.choice([n - 1, rng.randrange(n), rng.randrange(n)])]
            else:
                q = rng.choice(absent) if absent else b'absent'
            ops.append(['byname', q])
        elif r < 0.92 and n > 0:
            ops.append(['get', rng.choice([0, n - 1, rng.randrange(n)])])
        else:
            ops.append(['num'])
    if not any(o[0] == 'byname' for o in ops):
        ops.append(['byname', names[-1] if names else b''])
    return ops


def corpus(ctx):
    """fixed small cases run first: the two defects found by this check, in their smallest form"""
    def s(name, v=0x1000):
        return [name, v, 8, 1, 2, 0, 0, 0, 7]
    out = []
    for le in (1, 0):
        for is64 in (1, 0):
            syms = [s(b'', 0), s(b'fooAz', 0x10), s(b'fooBY', 0x20)]
            common = [le, is64, 62, 0, 0, 7, syms]
            out.append(('gnu', common + [[b'fooAz', b'fooBY', b'fooCX'], [1, 1, 1, 0, 0, 1]]))
            syms2 = [s(b'', 0), s(b'!(xxxvw_!', 0x30), s(b'plain', 0x40)]
            common2 = [le, is64, 62, 0, 0, 9, syms2]
            out.append(('sysv', common2 + [[b'!(xxxvw_!', b'plain', b'absent'], [3, 0]]))
    out.append(('hashfn', [b'!(xxxvw_!']))
    # an enumeration abandoned after its first entry, then lookups of names beyond / around the stop point
    hs = [s(b'', 0), s(b'alpha', 0x10), s(b'dup', 0x20), s(b'', 0x30), s(b'dup', 0x40)]
    for le in (1, 0):
        for is64 in (1, 0):
            out.append(('symhist', [le, is64, 62, 0, 0, 11, hs, 0,
                                    [['iter', 1, 0], ['byname', b'dup'], ['byname', b''], ['byname', b'alpha'], ['byname', b'zz']]]))
    # names of 65535 / 65536 / 70001 bytes (the format has no limit; readers work in 64-byte chunks)
    def big(k, c):
        return bytes((c + 7 * i) % 94 + 33 for i in range(k))
    for le, is64, nm_a, nm_b in ((1, 1, big(65536, 1), b'short'), (0, 0, big(70001, 2), big(65535, 3))):
        sb = [s(b'', 0), s(nm_a, 0x10), s(nm_b, 0x20)]
        cm = [le, is64, 62, 0, 0, 23, sb]
        qs = [nm_a, nm_b, nm_a[:-1], b'', nm_a + b'x']
        out.append(('symtab', cm + [qs, 0, [1, 2, 3], 0, [[1, 2], [3, 4], [5, 6]]]))
        out.append(('sysv', cm + [qs, [2, 0]]))
        # (no GNU-hash case: the model's gnu_hash mirrors the code's UNBOUNDED h*33+c and is quadratic in the name length once
        #  extracted; the GNU walk compares names exactly as the SysV walk does)
    # versioned spellings: memcpy@@GLIBC_2.14 does not bear the name memcpy (with and without a bare twin)
    vs_ = [s(b'', 0), s(b'memcpy@@GLIBC_2.14', 0x10), s(b'x@y', 0x20), s(b'x', 0x30), s(b'a@b@c', 0x40), s(b'tail@', 0x50), s(b'@plt', 0x60)]
    for le in (1, 0):
        out.append(('symhist', [le, 1 - le, 62, 0, 0, 19, vs_, 1,
                                [['byname', b'memcpy'], ['byname', b'x'], ['byname', b'a'], ['byname', b'a@b'], ['byname', b'tail'],
                                 ['byname', b''], ['byname', b'memcpy@@GLIBC_2.14'], ['byname', b'x@y'], ['byname', b'GLIBC_2.14']]]))
    # a walk resumed after the consumer touched the file: get_symbol, a second walk in lock step, a seek
    for le in (1, 0):
        for is64 in (1, 0):
            for mid in (['get', 4], ['next', 1], ['seek', 0], ['sysv', b'dup'], ['secdata', 1]):
                out.append(('filehist', [le, is64, 62, 0, 0, 13, hs, [1, 1, 1, 5, 0, 0], [2, 0], 0, 0, 17,
                                         [['next', 0], mid, ['next', 0], ['next', 1], ['next', 0], ['byname', b'dup']]]))
    # real linker output (GNU ld and gold, both classes): see corpus/C03/README
    from tools.lib import streams
    for f in _corpus_files():
        seed = ctx.rng.getrandbits(32)
        # the two small objects on every stream kind, the two large ones on BytesIO and two drawn kinds
        kinds = streams.KINDS if 'both' in f else ('bytesio',) + tuple(ctx.rng.sample(streams.KINDS[1:], 2))
        for skind in kinds:
            out.append(('elf-file', [f.encode(), seed, skind.encode()]))
    return out


CORPUS_DIR = os.path.join(os.path.dirname(os.path.abspath(__file__)), '..', '..', 'corpus', 'C03')


def _corpus_files():
    return sorted(f for f in os.listdir(CORPUS_DIR) if f.endswith('.so')) if os.path.isdir(CORPUS_DIR) else []


# ------------------------------------------------------------------ image assembly (harness side)
_STREAMS = None          # tools.lib.streams.Streams of the running evaluate()


def _stream_kind(seed, strmode=0):
    """the kind of stream the library is handed, a function of the case's fill seed (so that a case replays)"""
    from tools.lib import streams
    r = random.Random('kind-%d' % seed)
    if strmode == 3:                 # far-apart long names: real buffered readers
        return r.choice(['file', 'file', 'file_warm', 'file_end', 'file', 'gzip'])
    return streams.draw_kind(r, 0.5)


def _open_stream(ctx, img, skind):
    ctx.bump('stream_kind', skind)
    return _STREAMS.open(img, skind)


def _build_strtab(names, mode, rng):
    """returns (strtab bytes, st_name offsets); mode 0: plain; 1: duplicates/suffixes merged; 2: garbage strings between;
    3: a long filler string first (0..9000 bytes) and fillers of 0..600 bytes between, so that names lie thousands of bytes
    from their entries and from each other and straddle the read-buffer boundaries of real file objects"""
    tab = bytearray(b'\0')
    if mode == 3:
        # the names then lie around one read-buffer length behind their entries (open() takes the file system's
        # st_blksize, commonly 4096, else io.DEFAULT_BUFFER_SIZE = 8192)
        total = sum(len(nm) + 1 for nm in names)
        buf = rng.choice([4096, 4096, io.DEFAULT_BUFFER_SIZE])
        tab += _garbage(rng, rng.randint(max(0, buf - total - 600), buf)) + b'\0'
    offs = []
    seen = {}
    for nm in names:
        if nm == b'' and rng.random() < 0.7:
            # any NUL byte will do for an empty name
            zeros = [i for i, b in enumerate(tab) if b == 0]
            offs.append(rng.choice(zeros) if mode else 0)
            continue
        if mode >= 1:
            if nm in seen and rng.random() < 0.8:
                offs.append(seen[nm])
                continue
            # tail merging: reuse the tail of an existing string
            idx = bytes(tab).find(nm + b'\0')
            if idx >= 0 and rng.random() < 0.8:
                offs.append(idx)
                seen[nm] = idx
                continue
        if mode == 2 and rng.random() < 0.3:
            tab += bytes(rng.randint(1, 255) for _ in range(rng.randint(1, 5))) + b'\0'
        if mode == 3 and rng.random() < 0.2:
            tab += _garbage(rng, rng.randint(0, 600)) + b'\0'
        offs.append(len(tab))
        seen[nm] = len(tab)
        tab += nm + b'\0'
    return bytes(tab), offs


def _garbage(rng, n):
    return bytes(rng.randint(1, 255) for _ in range(n))


def _assemble(le, is64, machine, secs, rng, last=None, tight=False):
    """secs: list of dict(name,type,data,link,entsize).  Returns (image, [offset per section]).
    Section 0 is the null section; the section-name string table is appended here."""
    E = '<' if le else '>'
    shstr = bytearray(b'\0')
    name_off = []
    for s in secs:
        name_off.append(len(shstr))
        shstr += s['name'].encode() + b'\0'
    shstr_off_name = len(shstr)
    shstr += b'.shstrtab\0'
    allsecs = secs + [dict(name='.shstrtab', type=SHT['STRTAB'], data=bytes(shstr), link=0, entsize=0)]
    name_off.append(shstr_off_name)
    ehsize = 64 if is64 else 52
    shentsize = 64 if is64 else 40
    order = list(range(len(allsecs)))
    rng.shuffle(order)
    if last is not None:
        order.remove(last)
    img = bytearray(b'\0' * ehsize)
    offs = [0] * len(allsecs)
    shdr_slot = rng.randrange(len(order) + 1)
    shoff = None
    def gap():
        if not tight:
            img.extend(_garbage(rng, rng.choice([0, 1, 3, 7, 16])))
    for k, i in enumerate(order + [None]):
        if k == shdr_slot:
            gap()
            shoff = len(img)
            img.extend(b'\0' * (shentsize * (len(allsecs) + 1)))
        if i is None:
            break
        gap()
        offs[i] = len(img)
        img.extend(allsecs[i]['data'])
    if last is not None:
        gap()
        offs[last] = len(img)
        img.extend(allsecs[last]['data'])          # nothing follows: reads past it hit end of file
    else:
        gap()
    # section headers (index 0 = null)
    hdrs = [b'\0' * shentsize]
    for i, s in enumerate(allsecs):
        f = (name_off[i], s['type'], 0, 0, offs[i], len(s['data']), s.get('link', 0), 0, 1, s.get('entsize', 0))
        hdrs.append(struct.pack(E + ('IIQQQQIIQQ' if is64 else 'IIIIIIIIII'), *f))
    img[shoff:shoff + len(b''.join(hdrs))] = b''.join(hdrs)
    ident = b'\x7fELF' + bytes([2 if is64 else 1, 1 if le else 2, 1, 0, 0]) + b'\0' * 7
    eh = struct.pack(E + ('16sHHIQQQIHHHHHH' if is64 else '16sHHIIIIIHHHHHH'), ident, 3, machine, 1, 0, 0, shoff, 0,
                     ehsize, 0, 0, shentsize, len(allsecs) + 1, len(allsecs))
    img[0:ehsize] = eh
    return bytes(img), offs


# ------------------------------------------------------------------ observations of the implementation
def _num(v, table):
    if isinstance(v, str):
        return table[v]
    return v


def _view(sym, ENUMS):
    e = sym.entry
    return [sym.name.encode('utf-8'),
            [e['st_name'], e['st_value'], e['st_size'], _num(e['st_info']['bind'], ENUMS['bind']),
             _num(e['st_info']['type'], ENUMS['type']), _num(e['st_other']['local'], ENUMS['local']),
             _num(e['st_other']['visibility'], ENUMS['visibility']), _num(e['st_shndx'], ENUMS['shndx'])]]


def _call(f):
    try:
        return f()
    except Exception as e:   # noqa
        return ['err', type(e).__name__]


def _ok(v):
    return ['ok', v]


_SCRAMBLES = [0]


def _scramble_sym(sym):
    """the caller owns what it was given: edit a returned Symbol in place"""
    try:
        sym.entry['st_value'] = 0x5a5a5a5a
        sym.entry['st_info']['bind'] = 'scrambled'
        sym.name = '\x01scrambled'
    except Exception:   # noqa
        pass


def _by_name_obs(symsec, q, ENUMS):
    """get_symbol_by_name(q) observed, and then the returned list CONSUMED / edited in place by its owner (work-list style:
    entries edited, then pop / clear / reverse+append / sort-like reorder): a later lookup must not be affected"""
    r = symsec.get_symbol_by_name(q)
    obs = 'none' if r is None else ['some', [_view(s_, ENUMS) for s_ in r]]
    if isinstance(r, list):
        for s_ in r:
            _scramble_sym(s_)
        _SCRAMBLES[0] += 1
        how = _SCRAMBLES[0] % 4
        if how == 0:
            del r[:]
        elif how == 1:
            r.pop()
        elif how == 2:
            r.reverse()
            r.append(None)
        else:
            r[:] = r[:1] * 3
    return _ok(obs)


class _Failed:
    """stands for a section object whose construction raised: every use of it raises that exception again, so the
    failure shows up as the observed result of each call instead of stopping the harness"""
    def __init__(self, e):
        self._e = e

    def __getattr__(self, name):
        def f(*a, **k):
            raise self._e
        return f


def _section(elf, i):
    try:
        return elf.get_section(i)
    except Exception as e:   # noqa
        return _Failed(e)


def _lookup_obs(res, hashed_views):
    """canonical lookup result: none | (some name member?) | (err X)"""
    if res is None or res == 'none':
        return 'none'
    if isinstance(res, list) and res and res[0] == 'err':
        return res
    return ['some', res[0], int(res in hashed_views)]


def _is_utf8(b):
    try:
        b.decode('utf-8')
        return True
    except UnicodeDecodeError:
        return False


def _enum_tables(drv):
    t = drv.one(['enum_tables'])
    return {name: {nm: v for v, nm in tab} for name, tab in t}


def evaluate(ctx, cases):
    global _STREAMS
    from tools.lib import streams
    drv = ctx.driver
    ENUMS = _enum_tables(drv)
    hf = [(i, c) for i, c in enumerate(cases) if c[0] == 'hashfn']
    if hf:
        _eval_hashfn(ctx, [c for _, c in hf])
    _STREAMS = streams.Streams(prefix='pv-streams-c03-')
    try:
        for k, (kind, a) in enumerate(cases):
            if kind == 'hashfn':
                continue
            if k % 40 == 0:
                _STREAMS.drop_files()
            if kind == 'elf-file':
                _eval_file(ctx, kind, a, ENUMS)
            elif kind == 'symhist':
                _eval_hist(ctx, kind, a, ENUMS)
            elif kind == 'filehist':
                _eval_filehist(ctx, kind, a, ENUMS)
            else:
                _eval_table(ctx, kind, a, ENUMS)
    finally:
        _STREAMS.close()
        _STREAMS = None


def _eval_hashfn(ctx, cases):
    from elftools.elf.hash import ELFHashTable, GNUHashTable
    names = [a[0] for _, a in cases]
    specs = ctx.driver.one(['hashes', names])
    models = ctx.driver.one(['m_hashes', names])
    for (kind, a), s, m in zip(cases, specs, models):
        nm = a[0]
        arg = nm.decode('utf-8') if (_is_utf8(nm) and len(nm) % 2 == 0) else nm     # both accepted argument types
        impl = [_call(lambda: ELFHashTable.elf_hash(arg)), _call(lambda: GNUHashTable.gnu_hash(arg))]
        key = None
        if impl[0] != s[0]:
            key = 'elf-hash-function-wider-than-32-bits' if isinstance(impl[0], int) and impl[0] >= 2 ** 32 else 'elf-hash-function'
        elif impl[1] != s[1]:
            key = 'gnu-hash-function'
        ctx.bump('kind', kind)
        ctx.bump('hashfn_len', min(len(nm), 40))
        # model = the functions TRANSLATED from the live source (Gen/PyFuns.v: gen_elf_hash, gen_gnu_hash), so the
        # correspondence pins the translator; the hand models (m[0], m[1]) are proved equal to them (C03_gen_hash_models)
        model = list(m[3:5])
        if key is None and list(m[:2]) != model:
            key = 'hand-model-differs-from-translated-hash-function'
            model = list(m[:2])
        ctx.record(kind, a, impl=impl, spec=list(s), model=model, in_domain=True, nontrivial=len(nm) >= 2, key=key)


def _eval_table(ctx, kind, a, ENUMS):
    from elftools.elf.elffile import ELFFile
    from elftools.elf.hash import ELFHashTable
    drv = ctx.driver
    le, is64, machine, extra, strmode, fill_seed, syms = a[:7]
    queries = list(a[7])
    rng = random.Random(fill_seed)
    n = len(syms)
    std = 24 if is64 else 16
    entsize = std + extra
    names = [s[0] for s in syms]
    gp = None
    if kind == 'gnu':
        gp = a[8]
        nb, so = gp[0], min(gp[1], n)
        hs = drv.one(['hashes', names])
        # the hashed part is sorted by bucket (stable), as the format requires
        tail = sorted(range(so, n), key=lambda i: hs[i][1] % nb)
        order = list(range(so)) + tail
        syms = [syms[i] for i in order]
        names = [s[0] for s in syms]
    strtab, offs = _build_strtab(names, strmode, rng)
    rows = [[[offs[i]] + list(s[1:]), _garbage(rng, extra)] for i, s in enumerate(syms)]
    symtype = SYMTYPES[0] if kind != 'symtab' else rng.choice(SYMTYPES)
    enc = [['enc_symtab', le, is64, rows], ['symtab_ok', is64, entsize, rows, strtab],
           ['spec_views', strtab, rows], ['hashes', names]]
    symbytes, ok, views, hs = drv.batch(enc)
    in_dom = bool(ok) and all(_is_utf8(q) for q in queries) and all(_is_utf8(x) for x in names)
    secs = [dict(name='.dynstr', type=SHT['STRTAB'], data=strtab, link=0, entsize=0),
            dict(name='.dynsym', type=symtype, data=symbytes, link=1, entsize=entsize)]
    last = None
    tables = {}
    if kind == 'symtab':
        xextra, xvals, iextra, ivals = a[8:12]
        xrows = [[v, _garbage(rng, xextra)] for v in xvals]
        irows = [[b, f, _garbage(rng, iextra)] for b, f in ivals]
        xb, xok, ib, iok, ispec, byspec = drv.batch(
            [['enc_shndx', le, xrows], ['shndx_ok', 4 + xextra, xrows], ['enc_syminfo', le, irows],
             ['syminfo_ok', 4 + iextra, irows], ['spec_syminfo', strtab, rows, irows],
             ['spec_by_name', strtab, rows, queries]])
        in_dom = in_dom and bool(xok) and bool(iok)
        secs.append(dict(name='.symtab_shndx', type=SHT['SYMTAB_SHNDX'], data=xb, link=2, entsize=4 + xextra))
        has_info = symtype != SHT['SUNW_LDYNSYM'] and n >= 1
        if has_info:
            secs.append(dict(name='.SUNW_syminfo', type=SHT['SUNW_syminfo'], data=ib, link=2, entsize=4 + iextra))
    elif kind == 'sysv':
        nb, tail_insert = a[8]
        buckets = [0] * nb
        chains = [0] * n
        idxs = range(1, n) if not tail_insert else range(n - 1, 0, -1)
        for i in idxs:                      # head insertion, in either index order
            b = hs[i][0] % nb
            chains[i] = buckets[b]
            buckets[b] = i
        T = [buckets, chains]
        hb, wf = drv.batch([['enc_sysv_m', le, T, is64, machine], ['wf_sysv', T, strtab, rows]])
        in_dom = in_dom and bool(wf)
        tables['wf'] = bool(wf)
        secs.append(dict(name='.hash', type=SHT['HASH'], data=hb, link=2, entsize=4))
    elif kind == 'gnu':
        nb, so, bloom_size, shift, empty_mode, want_last = gp
        so = min(so, n)
        C = 64 if is64 else 32
        bloom = [0] * bloom_size
        buckets = [0 if (not empty_mode or so == 0) else rng.randrange(so) for _ in range(nb)]
        chain = []
        for i in range(so, n):
            h = hs[i][1]
            bloom[(h // C) % bloom_size] |= (1 << (h % C)) | (1 << ((h >> shift) % C))
            b = h % nb
            if i == so or hs[i - 1][1] % nb != b:
                buckets[b] = i
            lastbit = 1 if (i == n - 1 or hs[i + 1][1] % nb != b) else 0
            chain.append((h & ~1) | lastbit)
        T = [so, shift, bloom, buckets, chain]
        hb, wf = drv.batch([['enc_gnu', le, is64, T], ['wf_gnu', is64, T, strtab, rows]])
        in_dom = in_dom and bool(wf)
        tables['wf'] = bool(wf)
        secs.append(dict(name='.gnu.hash', type=SHT['GNU_HASH'], data=hb, link=2, entsize=0))
        if want_last:
            last = len(secs) - 1
    if strmode == 3 and last is None and rng.random() < 0.75:
        last = 0                                   # string table behind everything else
    img, offs_sec = _assemble(le, is64, machine, secs, rng, last=last, tight=n > 200)
    cfg = [le, is64, [offs_sec[1], len(symbytes), entsize], offs_sec[0]]
    elf = ELFFile(_open_stream(ctx, img, _stream_kind(fill_seed, strmode)))
    symsec = _section(elf, 2)
    qstr = [q.decode('utf-8', errors='replace') for q in queries]
    ctx.bump('kind', kind)
    ctx.bump('nsyms', n if n <= 3 else ('4-12' if n <= 12 else ('13-200' if n <= 200 else '201-2000')))
    ctx.bump('class_order', ('64' if is64 else '32') + ('le' if le else 'be'))
    nontrivial = n >= 2
    if kind == 'symtab':
        xsec = _section(elf, 3)
        m_num, m_iter, m_by, m_x = drv.batch([['m_num', cfg], ['m_iter', img, cfg], ['m_by_name', img, cfg, queries],
                                             ['m_shndx', img, le, [offs_sec[2], len(xb), 4 + xextra], list(range(n))]])
        impl = [_call(symsec.num_symbols),
                _call(lambda: _ok([_view(s, ENUMS) for s in symsec.iter_symbols()])),
                [_call(lambda: _by_name_obs(symsec, q, ENUMS)) for q in qstr],
                [_call(lambda: _ok(xsec.get_section_index(i))) for i in range(n)],
                # every name once more, after the caller consumed / edited the lists it was given
                [_call(lambda: _by_name_obs(symsec, q, ENUMS)) for q in qstr]]
        spec = [n, _ok(views), [_ok(x) for x in byspec], [_ok(v) for v in xvals], [_ok(x) for x in byspec]]
        model = [m_num, m_iter, m_by, m_x, m_by]
        parts = ['symtab-num-symbols', 'symtab-enumeration', 'symtab-by-name', 'symtab-shndx',
                 'symtab-by-name-after-caller-mutated-result']
        if has_info:
            isec = _section(elf, 4)
            m_i = drv.one(['m_syminfo', img, cfg, [offs_sec[3], len(ib), 4 + iextra]])
            impl.append([_call(isec.num_symbols),
                         _call(lambda: _ok([[s.name.encode('utf-8'),
                                             [_num(s.entry['si_boundto'], ENUMS['boundto']), s.entry['si_flags']]]
                                            for s in isec.iter_symbols()]))])
            spec.append([n - 1, _ok(ispec)])
            model.append(m_i)
            parts.append('syminfo')
        ctx.bump('symtype', symtype)
        key = None
        from tools.lib import sx
        for p, i_, s_ in zip(parts, impl, spec):
            if sx.canon(i_) != sx.canon(s_):
                key = p
                break
        ctx.record(kind, a, impl=impl, spec=spec, model=model, in_domain=in_dom, nontrivial=nontrivial, key=key)
        return
    # ---- hash sections
    hsec = _section(elf, 3)
    lo = 1 if kind == 'sysv' else so
    present = drv.one(['spec_present', strtab, rows, lo, queries])
    hashed_views = views[lo:]
    m = drv.one(['m_sysv' if kind == 'sysv' else 'm_gnu', img, cfg, offs_sec[2], queries, machine])
    def canon_model(r):
        if isinstance(r, list) and r and r[0] == 'ok':
            return _ok(_lookup_obs(r[1] if r[1] == 'none' else r[1][1], hashed_views))
        return r
    model = [m[0], [canon_model(r) for r in m[1]]]
    impl_l = []
    for q in qstr:
        r = _call(lambda: hsec.get_symbol(q))
        if isinstance(r, list) and r and r[0] == 'err':
            impl_l.append(r)
        else:
            impl_l.append(_ok(_lookup_obs(None if r is None else _view(r, ENUMS), hashed_views)))
    impl = [_call(lambda: _ok(hsec.get_number_of_symbols())), impl_l]
    spec = [_ok(n), [_ok(['some', q, 1]) if p else _ok('none') for q, p in zip(queries, present)]]
    # classification of the queries (coverage histogram) and of a failure (finding key)
    qh = drv.one(['hashes', queries]) if queries else []
    key = None
    if impl[0] != spec[0]:
        key = kind + '-count'
    for j, (q, p) in enumerate(zip(queries, present)):
        cls = 'present' if p else 'absent'
        if kind == 'gnu':
            h = qh[j][1]
            C = 64 if is64 else 32
            w = T[2][(h // C) % len(T[2])]
            passes = (w >> (h % C)) & 1 and (w >> ((h >> T[1]) % C)) & 1
            start = T[3][h % len(T[3])]
            same_full = any((c | 1) == (h | 1) for c in T[4])
            if not p:
                cls = 'absent-' + ('bloom-rejects' if not passes else
                                   ('bloom-false-positive-empty-bucket' if start < so else
                                    ('full-hash-collision' if same_full else 'bucket-collision')))
            else:
                first = next((i for i in range(so, n) if names[i] == q), None)
                if first is not None and any(names[i] != q and (hs[i][1] | 1) == (h | 1) and hs[i][1] % nb == h % nb
                                             for i in range(so, first)):
                    cls = 'present-after-equal-hash'
        else:
            h = qh[j][0]
            if not p:
                chain_nonempty = T[0][h % len(T[0])] != 0
                same_full = any(hs[i][0] == h for i in range(1, n))
                cls = 'absent-' + ('empty-bucket' if not chain_nonempty else
                                   ('full-hash-collision' if same_full else 'bucket-collision'))
        ctx.bump(kind + '_query', cls)
        if key is None and impl[1][j] != spec[1][j]:
            if kind == 'sysv':
                ih = _call(lambda: ELFHashTable.elf_hash(qstr[j]))
                if isinstance(ih, int) and ih >= 2 ** 32:
                    key = 'elf-hash-function-wider-than-32-bits'
                else:
                    key = 'sysv-lookup-' + ('misses-present-symbol' if p else 'unsound')
            else:
                if cls == 'present-after-equal-hash' and impl[1][j] == _ok('none'):
                    key = 'gnu-lookup-misses-symbol-after-equal-hash-in-chain'
                else:
                    key = 'gnu-lookup-' + ('misses-present-symbol' if p else 'unsound')
    if kind == 'gnu':
        ctx.bump('gnu_nbuckets', nb if nb <= 3 else '4+')
        ctx.bump('gnu_bloom_size', bloom_size if bloom_size <= 2 else '3+')
        ctx.bump('gnu_shift', shift if shift in (0, 31) else 'other')
        ctx.bump('gnu_symoffset', '0' if so == 0 else ('n' if so == n else ('1' if so == 1 else 'other')))
        ctx.bump('gnu_last_in_file', int(bool(want_last)))
    else:
        ctx.bump('sysv_nbucket', nb if nb <= 3 else '4+')
    ctx.record(kind, a, impl=impl, spec=spec, model=model, in_domain=in_dom, nontrivial=nontrivial, key=key)


# ------------------------------------------------------------------ real linker output (corpus/C03/*.so)
def _eval_file(ctx, kind, a, ENUMS):
    """A real shared object.  The harness decodes .dynsym/.dynstr/.hash/.gnu.hash with struct (no pyelftools), the Coq
    spec encoders must reproduce the section bytes from the decoded values, the extracted predicates must accept the
    linker's tables (evidence that wf_* are not narrower than what linkers build), then impl / model / spec are compared."""
    from elftools.elf.elffile import ELFFile
    drv = ctx.driver
    fname = a[0].decode()
    rng = random.Random(a[1])
    img = open(os.path.join(CORPUS_DIR, fname), 'rb').read()
    is64, le = int(img[4] == 2), int(img[5] == 1)
    E = '<' if le else '>'
    if is64:
        shoff, = struct.unpack_from(E + 'Q', img, 0x28)
        shentsize, shnum, _ = struct.unpack_from(E + 'HHH', img, 0x3A)
    else:
        shoff, = struct.unpack_from(E + 'I', img, 0x20)
        shentsize, shnum, _ = struct.unpack_from(E + 'HHH', img, 0x2E)
    secs = []
    for i in range(shnum):
        f = struct.unpack_from(E + ('IIQQQQIIQQ' if is64 else 'IIIIIIIIII'), img, shoff + i * shentsize)
        secs.append(dict(index=i, type=f[1], off=f[4], size=f[5], link=f[6], entsize=f[9]))
    def sec_of(t):
        return next(x for x in secs if x['type'] == t)
    dynsym = sec_of(SHT['DYNSYM'])
    strsec = secs[dynsym['link']]
    strtab = img[strsec['off']:strsec['off'] + strsec['size']]
    std = 24 if is64 else 16
    n = dynsym['size'] // dynsym['entsize']
    rows = []
    for i in range(n):
        o = dynsym['off'] + i * dynsym['entsize']
        if is64:
            nm, info, other, shndx, value, size = struct.unpack_from(E + 'IBBHQQ', img, o)
        else:
            nm, value, size, info, other, shndx = struct.unpack_from(E + 'IIIBBH', img, o)
        rows.append([[nm, value, size, info >> 4, info & 15, other >> 5, (other >> 3) & 3, other & 7, shndx],
                     img[o + std:o + dynsym['entsize']]])
    def cstr(o):
        return strtab[o:strtab.index(b'\0', o)]
    names = [cstr(r[0][0]) for r in rows]
    W = lambda o, k: list(struct.unpack_from(E + 'I' * k, img, o))
    hsec = sec_of(SHT['HASH'])
    nb, nc = W(hsec['off'], 2)
    Ts = [W(hsec['off'] + 8, nb), W(hsec['off'] + 8 + 4 * nb, nc)]
    gsec = sec_of(SHT['GNU_HASH'])
    gnb, so, bsz, shift = W(gsec['off'], 4)
    xw = 8 if is64 else 4
    bloom = list(struct.unpack_from(E + ('Q' if is64 else 'I') * bsz, img, gsec['off'] + 16))
    gb = W(gsec['off'] + 16 + xw * bsz, gnb)
    cpos = gsec['off'] + 16 + xw * bsz + 4 * gnb
    chain = W(cpos, (gsec['off'] + gsec['size'] - cpos) // 4)
    Tg = [so, shift, bloom, gb, chain]
    present = sorted(set(names))
    queries = present + _absent_queries(rng, names, 40)
    rng.shuffle(queries)
    symb, ok, views, hb, wfs, gbts, wfg, byspec, ps, pg = drv.batch(
        [['enc_symtab', le, is64, rows], ['symtab_ok', is64, dynsym['entsize'], rows, strtab], ['spec_views', strtab, rows],
         ['enc_sysv', le, Ts], ['wf_sysv', Ts, strtab, rows], ['enc_gnu', le, is64, Tg], ['wf_gnu', is64, Tg, strtab, rows],
         ['spec_by_name', strtab, rows, queries], ['spec_present', strtab, rows, 1, queries],
         ['spec_present', strtab, rows, so, queries]])
    reencoded = (symb == img[dynsym['off']:dynsym['off'] + dynsym['size']] and
                 hb == img[hsec['off']:hsec['off'] + hsec['size']] and gbts == img[gsec['off']:gsec['off'] + gsec['size']])
    in_dom = bool(ok) and bool(wfs) and bool(wfg) and reencoded
    ctx.bump('kind', kind)
    ctx.bump('elf_file', '%s spec-encoders-reproduce-bytes=%d symtab_ok=%d wf_sysv=%d wf_gnu=%d nsyms=%d' %
             (fname, reencoded, bool(ok), bool(wfs), bool(wfg), n))
    cfg = [le, is64, [dynsym['off'], dynsym['size'], dynsym['entsize']], strsec['off']]
    m_iter, m_by, m_s, m_g = drv.batch([['m_iter', img, cfg], ['m_by_name', img, cfg, queries],
                                        ['m_sysv', img, cfg, hsec['off'], queries], ['m_gnu', img, cfg, gsec['off'], queries]])
    skind = a[2].decode() if len(a) > 2 else 'bytesio'
    ctx.bump('elf_file_stream', fname + ' ' + skind)
    elf = ELFFile(_open_stream(ctx, img, skind))
    symsec = _section(elf, dynsym['index'])
    qstr = [q.decode('utf-8') for q in queries]
    impl = [_call(lambda: _ok([_view(s, ENUMS) for s in symsec.iter_symbols()])),
            [_call(lambda: _by_name_obs(symsec, q, ENUMS)) for q in qstr]]
    spec = [_ok(views), [_ok(x) for x in byspec]]
    model = [m_iter, m_by]
    for sec, lo, m, pres in ((hsec, 1, m_s, ps), (gsec, so, m_g, pg)):
        hv = views[lo:]
        obj = _section(elf, sec['index'])
        lk = []
        for q in qstr:
            r = _call(lambda: obj.get_symbol(q))
            lk.append(r if (isinstance(r, list) and r and r[0] == 'err') else
                      _ok(_lookup_obs(None if r is None else _view(r, ENUMS), hv)))
        impl.append([_call(lambda: _ok(obj.get_number_of_symbols())), lk])
        spec.append([_ok(n), [_ok(['some', q, 1]) if p else _ok('none') for q, p in zip(queries, pres)]])
        model.append([m[0], [(_ok(_lookup_obs(r[1] if r[1] == 'none' else r[1][1], hv))
                              if (isinstance(r, list) and r and r[0] == 'ok') else r) for r in m[1]]])
    key = None
    from tools.lib import sx
    for part, i_, s_ in zip(['file-symtab-enumeration', 'file-by-name', 'file-sysv-hash', 'file-gnu-hash'], impl, spec):
        if sx.canon(i_) != sx.canon(s_):
            key = part
            break
    if not in_dom:
        # a real linker's table outside the theorem's domain would mean the predicates are too narrow: report it
        ctx.notes.append('corpus file %s is NOT certified in-domain (reencoded=%s symtab_ok=%s wf_sysv=%s wf_gnu=%s)' %
                         (fname, reencoded, ok, wfs, wfg))
    ctx.record(kind, a, impl=impl, spec=spec, model=model, in_domain=in_dom, nontrivial=True, key=key)


# ------------------------------------------------------------------ histories on one section object
def _eval_hist(ctx, kind, a, ENUMS):
    """One SymbolTableSection object driven through a sequence of calls.  The property's lookup by name must answer
    the same after ANY history (the object memoizes the name map in _symbol_name_map); model = Model/C03Sections.v
    sym_run on a fresh object, spec = the stateless Spec/C03Sym.v answer (theorem C03_history_free)."""
    from elftools.elf.elffile import ELFFile
    from tools.lib import sx
    drv = ctx.driver
    le, is64, machine, extra, strmode, fill_seed, syms, symtype_i, ops = a
    rng = random.Random(fill_seed)
    n = len(syms)
    entsize = (24 if is64 else 16) + extra
    names = [s_[0] for s_ in syms]
    strtab, offs = _build_strtab(names, strmode, rng)
    rows = [[[offs[i]] + list(s_[1:]), _garbage(rng, extra)] for i, s_ in enumerate(syms)]
    calls = [o[:2] if o[0] == 'iter' else o for o in ops]
    symbytes, ok, (calls_ok, answers) = drv.batch([['enc_symtab', le, is64, rows], ['symtab_ok', is64, entsize, rows, strtab],
                                                    ['spec_hist', strtab, rows, calls]])
    in_dom = bool(ok) and bool(calls_ok) and all(_is_utf8(x) for x in names) and \
        all(_is_utf8(o[1]) for o in ops if o[0] == 'byname')
    secs = [dict(name='.strtab', type=SHT['STRTAB'], data=strtab, link=0, entsize=0),
            dict(name='.symtab', type=SYMTYPES[symtype_i], data=symbytes, link=1, entsize=entsize)]
    img, offs_sec = _assemble(le, is64, machine, secs, rng)
    cfg = [le, is64, [offs_sec[1], len(symbytes), entsize], offs_sec[0]]
    model = drv.one(['m_hist', img, cfg, calls])
    symsec = _section(ELFFile(_open_stream(ctx, img, _stream_kind(fill_seed, strmode))), 2)
    impl = []
    stops = []
    for o in ops:
        if o[0] == 'num':
            impl.append(_call(lambda: _ok(symsec.num_symbols())))
        elif o[0] == 'get':
            impl.append(_call(lambda: _ok(_view(symsec.get_symbol(o[1]), ENUMS))))
        elif o[0] == 'iter':
            def run_iter():
                g = symsec.iter_symbols()
                got = []
                for _ in range(o[1]):
                    try:
                        got.append(_view(next(g), ENUMS))
                    except StopIteration:
                        break
                if o[2] == 1:
                    g.close()
                elif o[2] == 2:
                    g = None                      # dropped while suspended
                return _ok(got)
            impl.append(_call(run_iter))
            stops.append('0' if o[1] == 0 else ('past-end' if o[1] > n else ('all' if o[1] == n else 'mid')))
        else:
            q = o[1].decode('utf-8', errors='replace')
            impl.append(_call(lambda: _by_name_obs(symsec, q, ENUMS)))
    spec = list(answers)
    ctx.bump('kind', kind)
    ctx.bump('hist_len', len(ops) if len(ops) < 6 else '6+')
    first_by = next(i for i, o in enumerate(ops) if o[0] == 'byname')
    before = [o for o in ops[:first_by] if o[0] == 'iter']
    ctx.bump('hist_first_byname_after', 'nothing' if first_by == 0 else
             ('abandoned-enumeration' if any(0 < o[1] < n for o in before) else
              ('full-enumeration' if any(o[1] >= n for o in before) else 'other-calls')))
    for st in stops:
        ctx.bump('hist_iter_stop', st)
    key = None
    for o, i_, s_ in zip(ops, impl, spec):
        if sx.canon(i_) != sx.canon(s_):
            key = 'symtab-history-' + o[0]
            break
    ctx.record(kind, a, impl=impl, spec=spec, model=list(model), in_domain=in_dom, nontrivial=n >= 2 and len(ops) >= 2, key=key)


# ------------------------------------------------------------------ interleaved histories on one open file
def _eval_filehist(ctx, kind, a, ENUMS):
    """One ELFFile with .dynstr .dynsym .symtab_shndx .SUNW_syminfo .hash .gnu.hash; the calls of the history are made
    on ITS section objects in the given order, so live iter_symbols generators are resumed after other sections, other
    generators and explicit seeks have moved the shared stream.  Symbol-table calls are answered by the Coq state machine
    (model: sym_run under the cursor schedule stream.tell() actually observed before each call; spec: answers); the other
    calls by the stateless spec / model functions."""
    from elftools.elf.elffile import ELFFile
    from tools.lib import sx
    drv = ctx.driver
    le, is64, machine, extra, strmode, fill_seed, syms, gp, (snb, tail_insert), xextra, iextra, tseed, ops = a
    rng = random.Random(fill_seed)
    trng = random.Random(tseed)
    n = len(syms)
    entsize = (24 if is64 else 16) + extra
    gnb, so = gp[0], min(gp[1], n)
    names0 = [s_[0] for s_ in syms]
    hs0 = drv.one(['hashes', names0])
    order = list(range(so)) + sorted(range(so, n), key=lambda i: hs0[i][1] % gnb)
    syms = [syms[i] for i in order]
    names = [s_[0] for s_ in syms]
    hs = [hs0[i] for i in order]
    strtab, offs = _build_strtab(names, strmode, rng)
    rows = [[[offs[i]] + list(s_[1:]), _garbage(rng, extra)] for i, s_ in enumerate(syms)]
    xvals = [trng.choice([0, 1, 0xffff, 0x10000, 2 ** 32 - 1, trng.getrandbits(32)]) for _ in range(n)]
    xrows = [[v, _garbage(rng, xextra)] for v in xvals]
    irows = [[trng.choice([0xffff, 0xfffe, 0, trng.randrange(65536)]), trng.randrange(65536), _garbage(rng, iextra)] for _ in range(n)]
    # SysV table (head insertion) and GNU table (standard construction) over the same symbols
    buckets, chains = [0] * snb, [0] * n
    for i in (range(1, n) if not tail_insert else range(n - 1, 0, -1)):
        b = hs[i][0] % snb
        chains[i] = buckets[b]
        buckets[b] = i
    Ts = [buckets, chains]
    _, _, bloom_size, shift, empty_mode, _ = gp
    C = 64 if is64 else 32
    bloom = [0] * bloom_size
    gb = [0 if (not empty_mode or so == 0) else rng.randrange(so) for _ in range(gnb)]
    chain = []
    for i in range(so, n):
        h = hs[i][1]
        bloom[(h // C) % bloom_size] |= (1 << (h % C)) | (1 << ((h >> shift) % C))
        b = h % gnb
        if i == so or hs[i - 1][1] % gnb != b:
            gb[b] = i
        chain.append((h & ~1) | (1 if (i == n - 1 or hs[i + 1][1] % gnb != b) else 0))
    Tg = [so, shift, bloom, gb, chain]
    hq = [o[1] for o in ops if o[0] in ('sysv', 'gnu')]
    calls = [o[:2] if o[0] == 'iter' else o for o in ops if o[0] in ('num', 'get', 'iter', 'byname', 'next')]
    (symbytes, ok, views, xb, xok, ib, iok, ispec, hb, wfs, gbytes, wfg, ps, pg, (calls_ok, answers)) = drv.batch(
        [['enc_symtab', le, is64, rows], ['symtab_ok', is64, entsize, rows, strtab], ['spec_views', strtab, rows],
         ['enc_shndx', le, xrows], ['shndx_ok', 4 + xextra, xrows], ['enc_syminfo', le, irows], ['syminfo_ok', 4 + iextra, irows],
         ['spec_syminfo', strtab, rows, irows], ['enc_sysv_m', le, Ts, is64, machine], ['wf_sysv', Ts, strtab, rows],
         ['enc_gnu', le, is64, Tg], ['wf_gnu', is64, Tg, strtab, rows],
         ['spec_present', strtab, rows, 1, hq], ['spec_present', strtab, rows, so, hq], ['spec_hist', strtab, rows, calls]])
    in_dom = all(bool(x) for x in (ok, xok, iok, wfs, wfg, calls_ok)) and all(_is_utf8(x) for x in names) and \
        all(_is_utf8(o[1]) for o in ops if o[0] in ('byname', 'sysv', 'gnu'))
    secs = [dict(name='.dynstr', type=SHT['STRTAB'], data=strtab, link=0, entsize=0),
            dict(name='.dynsym', type=SHT['DYNSYM'], data=symbytes, link=1, entsize=entsize),
            dict(name='.symtab_shndx', type=SHT['SYMTAB_SHNDX'], data=xb, link=2, entsize=4 + xextra),
            dict(name='.SUNW_syminfo', type=SHT['SUNW_syminfo'], data=ib, link=2, entsize=4 + iextra),
            dict(name='.hash', type=SHT['HASH'], data=hb, link=2, entsize=4),
            dict(name='.gnu.hash', type=SHT['GNU_HASH'], data=gbytes, link=2, entsize=0)]
    img, so_ = _assemble(le, is64, machine, secs, rng)
    cfg = [le, is64, [so_[1], len(symbytes), entsize], so_[0]]
    skind = _stream_kind(fill_seed, strmode)
    elf = ELFFile(_open_stream(ctx, img, skind))
    symsec, xsec, isec, hsec, gsec = (_section(elf, i) for i in (2, 3, 4, 5, 6))
    gens, igens, ipos = {}, {}, {}
    impl, spec, tags, cursors = [], [], [], []
    hqi = 0
    ai = 0
    def lookup(sec, q, lo):
        r = _call(lambda: sec.get_symbol(q.decode('utf-8', errors='replace')))
        return r if (isinstance(r, list) and r and r[0] == 'err') else _ok(_lookup_obs(None if r is None else _view(r, ENUMS), views[lo:]))
    for o in ops:
        t = o[0]
        if t in ('num', 'get', 'iter', 'byname', 'next'):
            cursors.append(elf.stream.tell())
            want = answers[ai]
            ai += 1
            if t == 'num':
                got = _call(lambda: _ok(symsec.num_symbols()))
            elif t == 'get':
                got = _call(lambda: _ok(_view(symsec.get_symbol(o[1]), ENUMS)))
            elif t == 'byname':
                got = _call(lambda: _by_name_obs(symsec, o[1].decode('utf-8', errors='replace'), ENUMS))
            elif t == 'iter':
                def run_iter():
                    g = symsec.iter_symbols()
                    got_ = []
                    for _ in range(o[1]):
                        try:
                            got_.append(_view(next(g), ENUMS))
                        except StopIteration:
                            break
                    if o[2] == 1:
                        g.close()
                    return _ok(got_)
                got = _call(run_iter)
            else:
                def step():
                    if o[1] not in gens:
                        gens[o[1]] = symsec.iter_symbols()
                    try:
                        return _ok(_view(next(gens[o[1]]), ENUMS))
                    except StopIteration:
                        return 'stop'
                got = _call(step)
            impl.append(got); spec.append(want); tags.append(t)
        elif t == 'inext':
            if o[1] not in ipos:
                ipos[o[1]] = 0
            def istep():
                if o[1] not in igens:
                    igens[o[1]] = isec.iter_symbols()
                try:
                    s_ = next(igens[o[1]])
                    return _ok([s_.name.encode('utf-8'), [_num(s_.entry['si_boundto'], ENUMS['boundto']), s_.entry['si_flags']]])
                except StopIteration:
                    return 'stop'
            impl.append(_call(istep))
            spec.append(_ok(ispec[ipos[o[1]]]) if ipos[o[1]] < len(ispec) else 'stop')
            ipos[o[1]] += 1
            tags.append(t)
        elif t == 'shndx':
            impl.append(_call(lambda: _ok(xsec.get_section_index(o[1])))); spec.append(_ok(xvals[o[1]])); tags.append(t)
        elif t == 'str':
            impl.append(_call(lambda: _ok(symsec.stringtable.get_string(rows[o[1]][0][0]).encode('utf-8'))))
            spec.append(_ok(views[o[1]][0])); tags.append(t)
        elif t in ('sysv', 'gnu'):
            pres = (ps if t == 'sysv' else pg)[hqi]
            impl.append(lookup(hsec if t == 'sysv' else gsec, o[1], 1 if t == 'sysv' else so))
            spec.append(_ok(['some', o[1], 1]) if pres else _ok('none'))
            hqi += 1
            tags.append(t)
        elif t in ('sysvcount', 'gnucount'):
            sec = hsec if t == 'sysvcount' else gsec
            impl.append(_call(lambda: _ok(sec.get_number_of_symbols()))); spec.append(_ok(n)); tags.append(t)
        elif t == 'seek':
            elf.stream.seek(o[1] % (len(img) + 1) if skind == 'mmap' else o[1])      # mmap refuses to seek past its end
        elif t == 'secdata':
            _call(lambda: elf.get_section(o[1]).data())
        elif t == 'getsec':
            _call(lambda: elf.get_section(o[1]))
    model_sym = drv.one(['m_hist', img, cfg, calls, cursors])
    m_x, m_i, m_s, m_g = drv.batch([['m_shndx', img, le, [so_[2], len(xb), 4 + xextra], list(range(n))],
                                    ['m_syminfo', img, cfg, [so_[3], len(ib), 4 + iextra]],
                                    ['m_sysv', img, cfg, so_[4], hq, machine], ['m_gnu', img, cfg, so_[5], hq]])
    m_views = drv.one(['m_get', img, cfg, list(range(n))])
    model = []
    ai = hqi = 0
    ip = {}
    for o in ops:
        t = o[0]
        if t in ('num', 'get', 'iter', 'byname', 'next'):
            model.append(model_sym[ai]); ai += 1
        elif t == 'inext':
            j = ip.get(o[1], 0)
            ip[o[1]] = j + 1
            lst = m_i[1][1] if (isinstance(m_i[1], list) and m_i[1] and m_i[1][0] == 'ok') else None
            model.append(m_i[1] if lst is None else (_ok(lst[j]) if j < len(lst) else 'stop'))
        elif t == 'shndx':
            model.append(m_x[o[1]])
        elif t == 'str':
            r = m_views[o[1]]
            model.append(_ok(r[1][0]) if (isinstance(r, list) and r and r[0] == 'ok') else r)
        elif t in ('sysv', 'gnu'):
            r = (m_s if t == 'sysv' else m_g)[1][hqi]
            hqi += 1
            lo = 1 if t == 'sysv' else so
            model.append(_ok(_lookup_obs(r[1] if r[1] == 'none' else r[1][1], views[lo:]))
                         if (isinstance(r, list) and r and r[0] == 'ok') else r)
        elif t == 'sysvcount':
            model.append(m_s[0])
        elif t == 'gnucount':
            model.append(m_g[0])
    ctx.bump('kind', kind)
    ctx.bump('filehist_len', len(ops) if len(ops) < 10 else ('10-14' if len(ops) < 15 else '15+'))
    # what separated two consecutive steps of the same live symbol-table generator
    last = {}
    for i, o in enumerate(ops):
        if o[0] == 'next':
            if o[1] in last:
                between = sorted(set(x[0] for x in ops[last[o[1]] + 1:i]))
                for b in (between or ['nothing']):
                    ctx.bump('filehist_between_steps', b)
            last[o[1]] = i
    key = None
    for tg, i_, s_ in zip(tags, impl, spec):
        if sx.canon(i_) != sx.canon(s_):
            key = 'interleaved-' + tg
            break
    ctx.record(kind, a, impl=impl, spec=spec, model=model, in_domain=in_dom, nontrivial=n >= 2, key=key)
