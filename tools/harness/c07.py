"""C07 correspondence: location and range lists.

impl  = the real library: LocationLists / RangeLists constructed directly over BytesIO ('list4', 'list5'),
        and DWARFInfo built over BytesIO sections with synthesized units whose DIEs carry
        DW_AT_location / DW_AT_GNU_locviews / DW_AT_ranges / DW_AT_*_base ('file'): location_lists(),
        range_lists(), get_*_list_at_offset(_ex), LocationParser.parse_from_attribute, iter_location_lists,
        iter_range_lists, iter_CUs, iter_CU_range_lists_ex, translate_v5_entry;  LocationParser's three
        predicates over every attribute name x form x version ('classify');  'session' = a scripted sequence
        of API calls on ONE freshly built DWARFInfo (nothing parsed yet unless the script warms it up): DIE
        parsing (get_top_DIE / partially or fully consumed iter_DIEs), fetches through DIE attributes,
        get_range_list_at_offset_ex, and every enumeration entry point consumed yield by yield with further
        calls between two yields (Model/C07Session.v: stream cursors and DIE caches explicit).
spec  = Spec/C07Lists.v, Spec/C07Sections.v: the list sections are produced by the Coq encoders and the
        expected entries by the Coq meaning functions;  model = Model/C07Lists.v over Gen/C07Tables.v."""
import io
import random
from tools.lib.framework import impl_call
from tools.lib import streams as ST
from tools.harness import c07_build as B

_STREAMS = None      # one tools/lib/streams.Streams per evaluate() call


def _open(data, kind='bytesio'):
    return io.BytesIO(data) if _STREAMS is None else _STREAMS.open(data, kind)


def _drop():
    if _STREAMS is not None:
        _STREAMS.drop_files()

CLAIMED = True
CONFIG = {'assumptions': [
    'the unit DIEs are only the carrier of the list references: .debug_info/.debug_abbrev are assembled by the '
    'harness (DIE decoding is property C04); every list section comes from the Coq encoders',
    'address size of the units, of the v5 unit-block headers and the container default address size agree; a unit '
    'and the unit block its DW_AT_*lists_base points into use the same DWARF format (DWARF 5 section 7.4)',
    'a list item that carries location-view pairs is referenced together with DW_AT_GNU_locviews; list items do not '
    'overlap, but an attribute or an offset-table slot may designate the 2nd.. entry of an item (a list sharing the tail '
    'of another one): it is fetched and enumerated as a list of its own (Spec/C07Sections.v designated)',
    'iter_CU_range_lists_ex is observed on unit blocks whose body is exactly their lists back to back',
    'range BaseAddressEntry has no entry_length field in the API: only offset and base address are compared',
    'an empty offset table is reported by iter_CUs as False (API convention, mirrored by the spec)',
    'LocationListsPair/RangeListsPair refuse enumeration by design (documented DWARFError): with both generations '
    'present the enumeration is observed on LocationLists/RangeLists built over each section',
    'session: an enumeration is required to be exact under every interleaving of calls that do not read the '
    'enumerated section between two yields (Model/C07Session.v op_in_domain); a consumer that fetches lists of '
    '.debug_loclists between two yields of the v5 iter_location_lists, or of .debug_rnglists between two yields of '
    'iter_CU_range_lists_ex, moves the stream the generator reads from: those sessions are compared with the model only',
    'split: the list sections of the file that holds the lists are the same bytes as those of the unit\'s file (only the '
    '.debug_addr differs or is absent); enumerations scan the section object\'s own DWARFInfo and are not observed across files',
    'classification: in domain exactly where the DWARF 2-5 attribute/form class tables give the combination a unique '
    'reading (Spec/C07Lists.v std_classify); DW_AT_data_member_location with data4/data8 in DWARF 3 is ambiguous']}
LEVEL = {'text': 'Machine-checked: round trip of .debug_loc/.debug_ranges lists (base-selection entries, any expression '
                 'length) and of .debug_loclists/.debug_rnglists lists over every DW_LLE/DW_RLE kind and every valid '
                 'ULEB128 operand encoding, with entry offsets/lengths, placed anywhere in a section with any tail; '
                 'address-table and offset-table resolution; unit-block iteration with offset tables of any size; '
                 'enumeration = lists referenced by the debugging entries, once, in offset order, from any reachable '
                 'state of the shared section streams and DIE caches and under interleaved DIE parsing; attribute '
                 'classification swept over every name x form x version 2..5 against the DWARF class tables. The v5 '
                 'entry structs, enum values, unit headers and entry_translate tables are regenerated from the live '
                 'modules and proved equal to the standard tables; loops are pinned by correspondence.',
         'design_ref': '4.7', 'technique': 'Coq proof (induction, table-driven decoder) + extracted-model correspondence',
         'note': 'Trusted: Coq kernel, extraction, harness, the transcription of DWARF 2-5 list formats and class '
                 'tables in Spec/C07*.v. Modelled not verified: construct machinery, BytesIO, DIE parsing (C04).'}
RULE = ('cases: list4/list5 = one list from the Coq encoder (address size 4/8 x byte order, base-selection entries, '
        'expression lengths 0..65535, every DW_LLE/DW_RLE kind, padded ULEB128 operands, boundary addresses) placed '
        'after a random prefix and before a random tail, decoded by LocationLists/RangeLists over BytesIO; file = a '
        'whole DWARFInfo: v4 sections and/or v5 sections (1..4 unit blocks, DWARF32/64, offset tables with 0..n '
        'entries, gaps, location-view pairs, .debug_addr tables) and 1..4 units (versions 2-5) whose DIEs reference '
        'the lists by sec_offset/data4/data8/loclistx/rnglistx, observed through every public entry point; classify '
        '= one (version, attribute name) against every form; session = a whole file plus a script run on a fresh '
        'DWARFInfo: optional warm-up (every DIE parsed), then 1..4 calls among DIE parsing of a unit (top DIE / a '
        'prefix / all), fetch through a random DIE attribute, get_range_list_at_offset_ex, and the enumerations '
        'iter_location_lists / iter_range_lists (both generations), LocationLists.iter_CUs, RangeLists.iter_CUs, '
        'iter_CU_range_lists_ex, each with 0..2 such calls after each of the first 0..6 yields, or (enumerations that '
        'seek to every list: iter_range_lists, pre-v5 iter_location_lists) a fetch of a DIFFERENT list of the same '
        'section through the same object after each yield; 60 of them on DWARF 2-4 files with 2.. lists back to back; '
        'tail sharing = 40 files + 40 sessions where attributes (sec_offset/data4/data8) and offset-table slots '
        '(loclistx/rnglistx) designate the 2nd.. entry of another list, in all four section kinds; long = pre-v5 '
        'lists of 129/130/257/1000 entries (quick: one size per address size x byte order); indirect = 30 files + 30 '
        'sessions where about half of the attributes are declared DW_FORM_indirect and carry the real form in the DIE; '
        'split = 40 files whose v5 lists are fetched (parse_from_attribute, get_range_list_at_offset, translate_v5_entry) from '
        'the LocationLists/RangeLists of ANOTHER DWARFInfo (same list sections, .debug_addr absent or with other addresses) '
        'with the units/DIEs of this one; stream kind = every section of every file/session/split/list case is handed to '
        'the library as a stream of a kind drawn from tools/lib/streams.py (bytesio, file, file_warm, file_end, file_small, '
        'mmap, gzip, decoy_fd), list sections and the other sections independently; '
        'collide = 25 files + 25 sessions with both generations where a pre-v5 and a v5 unit designate numerically equal '
        'offsets in .debug_ranges/.debug_rnglists and .debug_loc/.debug_loclists; malformed = truncations and unknown kinds (model vs '
        'implementation only). distinct = hash(kind, abstract); non-trivial = at least one list entry or one '
        'in-domain classification')

LOC_ATTRS = ['DW_AT_location', 'DW_AT_string_length', 'DW_AT_return_addr', 'DW_AT_frame_base', 'DW_AT_segment',
             'DW_AT_static_link', 'DW_AT_use_location', 'DW_AT_vtable_elem_location', 'DW_AT_data_member_location']


# ------------------------------------------------------------------ generators
def _addr(rng, asz, allow_max=True):
    m = 2 ** (8 * asz)
    r = rng.random()
    if r < 0.25:
        return rng.choice([0, 1, 2, m // 2 - 1, m // 2, m - 2] + ([m - 1] if allow_max else []))
    if r < 0.6:
        return rng.randrange(0, 0x10000)
    return rng.randrange(m)


def _uleb(rng):
    r = rng.random()
    if r < 0.5:
        v = rng.randint(0, 300)
    elif r < 0.8:
        v = rng.choice([0, 1, 127, 128, 16383, 16384, 2 ** 32 - 1, 2 ** 32, 2 ** 63, 2 ** 64 - 1, 2 ** 64, 2 ** 70])
    else:
        v = rng.getrandbits(rng.choice([7, 14, 21, 32, 64]))
    return [v, rng.choice([0, 0, 0, 1, 2, 5])]


def _bytes(rng, n):
    return bytes(rng.getrandbits(8) for _ in range(n))


def _expr(rng, big=False):
    r = rng.random()
    if big:
        n = rng.choice([65535, 65534, 40000, 128, 16384])
    elif r < 0.15:
        n = 0
    elif r < 0.8:
        n = rng.randint(1, 12)
    else:
        n = rng.choice([127, 128, 129, 255, 256, 300])
    return _bytes(rng, n)


def _counted(rng, big=False):
    return [rng.choice([0, 0, 0, 1, 3]), _expr(rng, big)]


def _idx(rng, ntbl):
    return [rng.randrange(ntbl), rng.choice([0, 0, 1, 3])]


def gen_v4loc(rng, asz, n, big=False):
    out = []
    m = 2 ** (8 * asz)
    for _ in range(n):
        if rng.random() < 0.25:
            out.append(['base', _addr(rng, asz)])
        else:
            while True:
                b, e = _addr(rng, asz, False), _addr(rng, asz)
                if (b, e) != (0, 0):
                    break
            out.append(['loc', b, e, _expr(rng, big and rng.random() < 0.5)])
    return out


def gen_v4rng(rng, asz, n):
    out = []
    for _ in range(n):
        if rng.random() < 0.25:
            out.append(['base', _addr(rng, asz)])
        else:
            while True:
                b, e = _addr(rng, asz, False), _addr(rng, asz)
                if (b, e) != (0, 0):
                    break
            out.append(['range', b, e])
    return out


LLE_KINDS = ['base_addressx', 'startx_endx', 'startx_length', 'offset_pair', 'default_location', 'base_address',
             'start_end', 'start_length']
RLE_KINDS = ['base_addressx', 'startx_endx', 'startx_length', 'offset_pair', 'base_address', 'start_end', 'start_length']


def gen_lle(rng, asz, ntbl, n, kinds=None, big=False):
    out = []
    for _ in range(n):
        k = rng.choice(kinds or LLE_KINDS)
        if ntbl == 0 and k in ('base_addressx', 'startx_endx', 'startx_length'):
            k = 'offset_pair'
        c = _counted(rng, big and rng.random() < 0.3)
        if k == 'base_addressx':
            out.append([k, _idx(rng, ntbl)])
        elif k == 'startx_endx':
            out.append([k, _idx(rng, ntbl), _idx(rng, ntbl), c])
        elif k == 'startx_length':
            out.append([k, _idx(rng, ntbl), _uleb(rng), c])
        elif k == 'offset_pair':
            out.append([k, _uleb(rng), _uleb(rng), c])
        elif k == 'default_location':
            out.append([k, c])
        elif k == 'base_address':
            out.append([k, _addr(rng, asz)])
        elif k == 'start_end':
            out.append([k, _addr(rng, asz), _addr(rng, asz), c])
        else:
            out.append([k, _addr(rng, asz), _uleb(rng), c])
    return out


def gen_rle(rng, asz, ntbl, n, kinds=None):
    out = []
    for _ in range(n):
        k = rng.choice(kinds or RLE_KINDS)
        if ntbl == 0 and k in ('base_addressx', 'startx_endx', 'startx_length'):
            k = 'offset_pair'
        if k == 'base_addressx':
            out.append([k, _idx(rng, ntbl)])
        elif k == 'startx_endx':
            out.append([k, _idx(rng, ntbl), _idx(rng, ntbl)])
        elif k == 'startx_length':
            out.append([k, _idx(rng, ntbl), _uleb(rng)])
        elif k == 'offset_pair':
            out.append([k, _uleb(rng), _uleb(rng)])
        elif k == 'base_address':
            out.append([k, _addr(rng, asz)])
        elif k == 'start_end':
            out.append([k, _addr(rng, asz), _addr(rng, asz)])
        else:
            out.append([k, _addr(rng, asz), _uleb(rng)])
    return out


def _nlen(rng):
    return rng.choice([0, 1, 1, 2, 2, 3, 4, 6])


def _items(rng, gen_list, views_ok, nlists, gaps=True):
    """[('gap', bytes) | ('list', views, entries)]"""
    its = []
    for _ in range(nlists):
        if gaps and rng.random() < 0.35:
            its.append(['gap', _bytes(rng, rng.randint(1, 9))])
        views = []
        if views_ok and rng.random() < 0.3:
            views = [[_uleb(rng), _uleb(rng)] for _ in range(rng.randint(1, 3))]
        its.append(['list', views, gen_list()])
    if gaps and rng.random() < 0.4:
        its.append(['gap', _bytes(rng, rng.randint(1, 9))])
    return its


def _list_items(its):
    return [it for it in its if it[0] == 'list']


def gen_file(rng, size, indexed=False, dense=False, overlap=False, indirect=False, collide=False):
    """One whole-file scenario (see module docstring).  size: 0 small .. 2 large.
    indirect: about half of the attributes are declared DW_FORM_indirect in the abbreviation and carry their real
    form (sec_offset, data4/8, loclistx, rnglistx, exprloc, ...) in the DIE ("<form>@indirect").
    collide: both generations present; a pre-v5 unit and a v5 unit designate numerically EQUAL offsets in
    .debug_ranges / .debug_rnglists and in .debug_loc / .debug_loclists (the two offset spaces are unrelated).
    overlap: debugging entries and offset-table slots also designate lists that start at the 2nd.. entry of another
    list (tail sharing: ['sub', name, section, form, unit block|None, list, entry, slot|None]).
    indexed: favour v5 sections with non-empty offset tables referenced through DW_FORM_loclistx/rnglistx.
    dense: a DWARF 2-4 file whose .debug_loc/.debug_ranges hold 2.. lists back to back (no gaps), referenced
    by many debugging entries."""
    le = rng.random() < 0.5
    asz = rng.choice([4, 8])
    has4 = dense or collide or rng.random() < (0.3 if indexed else 0.55)
    has5 = collide or (not dense and ((not has4) or rng.random() < 0.5))
    nl = [1, 3, 5][size]
    sc = {'le': le, 'asz': asz}
    nlen = (lambda: rng.choice([2, 2, 3, 4, 6])) if overlap else (lambda: _nlen(rng))
    if dense:
        sc['loc4'] = _items(rng, lambda: gen_v4loc(rng, asz, _nlen(rng)), True, rng.randint(2, nl + 2), gaps=False)
        sc['rng4'] = _items(rng, lambda: gen_v4rng(rng, asz, _nlen(rng)), False, rng.randint(2, nl + 2), gaps=False)
    elif has4:
        sc['loc4'] = _items(rng, lambda: gen_v4loc(rng, asz, nlen()), True, rng.randint(0, nl)) if collide or rng.random() < 0.85 else None
        sc['rng4'] = _items(rng, lambda: gen_v4rng(rng, asz, nlen()), False, rng.randint(0, nl)) if collide or rng.random() < 0.85 else None
        if sc['loc4'] is None and sc['rng4'] is None:
            sc['loc4'] = _items(rng, lambda: gen_v4loc(rng, asz, _nlen(rng)), True, 1)
    else:
        sc['loc4'] = sc['rng4'] = None
    if has5:
        ntab = 1 if collide else rng.choice([1, 1, 2])
        tables = []
        for _ in range(ntab):
            tables.append({'pre': _bytes(rng, rng.choice([0, 8, 8, 12, 3])),
                           'tbl': [_addr(rng, asz) for _ in range(rng.randint(0, 5))]})
        sc['tables'] = [[t['pre'], t['tbl']] for t in tables]

        def units(gen_list, views_ok, contiguous_ok):
            us = []
            for _ in range(rng.randint(1, [1, 2, 4][size])):
                ti = rng.randrange(ntab)
                ntbl = len(tables[ti]['tbl'])
                contiguous = contiguous_ok and rng.random() < 0.6
                its = _items(rng, lambda: gen_list(ntbl), views_ok and not contiguous, rng.randint(0, nl), gaps=not contiguous)
                nlist = len(_list_items(its))
                if indexed:
                    cnt = rng.choice([nlist, nlist, nlist + 2, rng.randint(1, 6)]) if nlist else 0
                else:
                    cnt = rng.choice([0, 0, 1, nlist, nlist + 2, rng.randint(0, 6)]) if nlist else 0
                index = [rng.randrange(nlist) for _ in range(cnt)]
                if overlap:        # some slots designate the tail of a list: [list, entry]
                    for j, li in enumerate(index):
                        n = len(_list_items(its)[li][2])
                        if n >= 2 and rng.random() < 0.5:
                            index[j] = [li, rng.randint(1, n - 1)]
                us.append([rng.random() < 0.3, 5, asz, 0, index, its, ti])
            return us
        sc['loc5'] = units(lambda ntbl: gen_lle(rng, asz, ntbl, nlen()), True, False) if collide or rng.random() < 0.8 else None
        sc['rng5'] = units(lambda ntbl: gen_rle(rng, asz, ntbl, nlen()), False, True) if collide or rng.random() < 0.8 else None
        if sc['loc5'] is None and sc['rng5'] is None:
            sc['rng5'] = units(lambda ntbl: gen_rle(rng, asz, ntbl, nlen()), False, True)
    else:
        sc['tables'] = []
        sc['loc5'] = sc['rng5'] = None
    if collide:
        # the first list of the first v5 block sits right after the header and the offset table; put a pre-v5
        # list at the same offset of the pre-v5 section (after a gap of that many bytes)
        for k5, k4, g5, g4 in (('rng5', 'rng4', lambda: gen_rle(rng, asz, len(tables[0]['tbl']), rng.randint(1, 3)),
                                lambda: gen_v4rng(rng, asz, rng.randint(1, 3))),
                               ('loc5', 'loc4', lambda: gen_lle(rng, asz, len(tables[0]['tbl']), rng.randint(1, 3)),
                                lambda: gen_v4loc(rng, asz, rng.randint(1, 3)))):
            u0 = sc[k5][0]
            u0[5].insert(0, ['list', [], g5()])
            u0[4][:] = [[x[0] + 1, x[1]] if isinstance(x, list) else x + 1 for x in u0[4]]
            o5 = (20 + 8 * len(u0[4])) if u0[0] else (12 + 4 * len(u0[4]))
            sc[k4][:0] = [['gap', _bytes(rng, o5)], ['list', [], g4()]]
    # ---- units of .debug_info
    p_base, p_x = (0.95, 0.85) if indexed else (0.8, 0.6)
    cus = []
    ncus = rng.randint(1, [2, 3, 4][size])
    forced = []
    if collide:
        ncus = max(ncus, 2)
        forced = [rng.choice([3, 4]), 5]
        rng.shuffle(forced)
    for cui in range(ncus):
        if cui < len(forced):
            ver = forced[cui]
        elif has4 and has5:
            ver = rng.choice([2, 3, 4, 5, 5])
        elif has5:
            ver = 5
        else:
            ver = rng.choice([2, 3, 4, 4])
        is64 = rng.random() < 0.3
        cu = {'version': ver, 'is64': is64, 'dies': []}
        top = []
        lu = ru = None
        if ver >= 5:
            ti = rng.randrange(len(sc['tables']))
            cu['table'] = ti
            top.append(['base', 'DW_AT_addr_base', ti])
            if sc['loc5']:
                cands = [i for i, u in enumerate(sc['loc5']) if u[0] == is64 and u[6] == ti]
                if cands and rng.random() < p_base:
                    lu = rng.choice(cands)
                    top.append(['base', 'DW_AT_loclists_base', lu])
            if sc['rng5']:
                cands = [i for i, u in enumerate(sc['rng5']) if u[0] == is64 and u[6] == ti]
                if cands and rng.random() < p_base:
                    ru = rng.choice(cands)
                    top.append(['base', 'DW_AT_rnglists_base', ru])

        def loc_ref(used):
            """a DW_AT_location-like reference to a random location list item, or None"""
            if ver >= 5:
                if not sc['loc5']:
                    return None
                us = [i for i, u in enumerate(sc['loc5']) if u[6] == cu['table'] and _list_items(u[5])]
                if not us:
                    return None
                ui = rng.choice(us)
                u = sc['loc5'][ui]
                li = rng.randrange(len(_list_items(u[5])))
                form = 'DW_FORM_sec_offset'
                k = None
                if ui == lu and li in u[4] and rng.random() < p_x:
                    form = 'DW_FORM_loclistx'
                    k = rng.choice([j for j, x in enumerate(u[4]) if x == li])
                has_views = bool(_list_items(u[5])[li][1])
                return ['loc5', form, ui, li, k, has_views]
            if not sc['loc4'] or not _list_items(sc['loc4']):
                return None
            li = rng.randrange(len(_list_items(sc['loc4'])))
            form = 'DW_FORM_sec_offset' if ver == 4 else rng.choice(['DW_FORM_data4', 'DW_FORM_data8'])
            return ['loc4', form, li, bool(_list_items(sc['loc4'])[li][1])]

        def rng_ref():
            if ver >= 5:
                if not sc['rng5']:
                    return None
                us = [i for i, u in enumerate(sc['rng5']) if u[6] == cu['table'] and _list_items(u[5])]
                if not us:
                    return None
                ui = rng.choice(us)
                u = sc['rng5'][ui]
                li = rng.randrange(len(_list_items(u[5])))
                form = 'DW_FORM_sec_offset'
                k = None
                if ui == ru and li in u[4] and rng.random() < p_x:
                    form = 'DW_FORM_rnglistx'
                    k = rng.choice([j for j, x in enumerate(u[4]) if x == li])
                return ['rng5', form, ui, li, k]
            if ver < 3 or not sc['rng4'] or not _list_items(sc['rng4']):
                return None
            li = rng.randrange(len(_list_items(sc['rng4'])))
            form = 'DW_FORM_sec_offset' if ver == 4 else rng.choice(['DW_FORM_data4', 'DW_FORM_data8'])
            return ['rng4', form, li]

        def sub_ref(loc):
            """a reference to the tail of a list: [section, form, unit block|None, list, entry, slot|None], or None"""
            if ver >= 5:
                sec, base_u = ('loc5', lu) if loc else ('rng5', ru)
                if not sc[sec]:
                    return None
                cands = [(ui, li, len(it[2])) for ui, u in enumerate(sc[sec]) if u[6] == cu['table']
                         for li, it in enumerate(_list_items(u[5])) if len(it[2]) >= 2]
                if not cands:
                    return None
                ui, li, n = rng.choice(cands)
                u = sc[sec][ui]
                slots = [j for j, x in enumerate(u[4]) if isinstance(x, list) and x[0] == li]
                if ui == base_u and slots and rng.random() < 0.7:
                    j = rng.choice(slots)
                    return [sec, 'DW_FORM_loclistx' if loc else 'DW_FORM_rnglistx', ui, li, u[4][j][1], j]
                return [sec, 'DW_FORM_sec_offset', ui, li, rng.randint(1, n - 1), None]
            sec = 'loc4' if loc else 'rng4'
            if (not loc and ver < 3) or not sc[sec]:
                return None
            cands = [(li, len(it[2])) for li, it in enumerate(_list_items(sc[sec])) if len(it[2]) >= 2]
            if not cands:
                return None
            li, n = rng.choice(cands)
            form = 'DW_FORM_sec_offset' if ver == 4 else rng.choice(['DW_FORM_data4', 'DW_FORM_data8'])
            return [sec, form, None, li, rng.randint(1, n - 1), None]

        def die_attrs(is_top):
            attrs = []
            names = set()
            for _ in range(rng.choice([0, 1, 1, 2, 3])):
                r = loc_ref(names)
                if r is None:
                    break
                has_views = r[-1]
                if has_views:
                    name = 'DW_AT_location'
                else:
                    name = rng.choice(LOC_ATTRS if ver >= 4 else LOC_ATTRS[:8] if ver == 3 else LOC_ATTRS[:7])
                if name in names or (has_views and 'DW_AT_GNU_locviews' in names):
                    continue
                names.add(name)
                a = ['ref', name] + r
                if has_views:
                    names.add('DW_AT_GNU_locviews')
                    v = ['views', 'DW_AT_GNU_locviews'] + r
                    attrs.extend([a, v] if rng.random() < 0.6 else [v, a])
                else:
                    attrs.append(a)
            if overlap and rng.random() < 0.6:
                r = sub_ref(True)
                name = rng.choice(LOC_ATTRS if ver >= 4 else LOC_ATTRS[:8] if ver == 3 else LOC_ATTRS[:7])
                if r is not None and name not in names:
                    names.add(name)
                    attrs.append(['sub', name] + r)
            r = sub_ref(False) if overlap and rng.random() < 0.5 else None
            if r is not None:
                attrs.append(['sub', 'DW_AT_ranges'] + r)
            elif rng.random() < 0.6:
                r = rng_ref()
                if r is not None:
                    attrs.append(['ref', 'DW_AT_ranges'] + r)
            # literal attributes: expressions and plain constants
            if rng.random() < 0.4:
                if ver >= 4:
                    lit = rng.choice([['DW_AT_frame_base', 'DW_FORM_exprloc', _expr(rng)],
                                      ['DW_AT_data_member_location', 'DW_FORM_data1', rng.randrange(256)],
                                      ['DW_AT_data_member_location', 'DW_FORM_udata', rng.randrange(5000)],
                                      ['DW_AT_const_value', 'DW_FORM_data4', rng.randrange(2 ** 32)],
                                      ['DW_AT_upper_bound', 'DW_FORM_exprloc', _expr(rng)],
                                      ['DW_AT_count', 'DW_FORM_data2', rng.randrange(65536)],
                                      ['DW_AT_const_value', 'DW_FORM_block1', _bytes(rng, 3)]])
                else:
                    lit = rng.choice([['DW_AT_frame_base', 'DW_FORM_block1', _expr(rng)[:200]],
                                      ['DW_AT_static_link', 'DW_FORM_block', _expr(rng)],
                                      ['DW_AT_const_value', 'DW_FORM_data4', rng.randrange(2 ** 32)],
                                      ['DW_AT_const_value', 'DW_FORM_block2', _bytes(rng, 3)],
                                      ['DW_AT_upper_bound', 'DW_FORM_data1', rng.randrange(256)]] +
                                     ([['DW_AT_data_member_location', 'DW_FORM_data1', rng.randrange(256)],
                                       ['DW_AT_count', 'DW_FORM_block1', _expr(rng)[:200]]] if ver == 3 else []))
                if lit[0] not in names:
                    names.add(lit[0])
                    attrs.append(['lit'] + lit)
            return attrs
        extra = die_attrs(True) if rng.random() < 0.5 else []
        # only range references and literals are kept on the unit DIE next to the bases
        top += [a for a in extra if a[1] == 'DW_AT_ranges' or a[0] == 'lit']
        rng.shuffle(top)
        cu['dies'].append(top)
        for _ in range(rng.randint(3, 6) if dense else rng.randint(0, [2, 3, 5][size])):
            cu['dies'].append(die_attrs(False))
        if cui < len(forced):       # the colliding designations: list 0 of either generation's sections
            f4 = 'DW_FORM_sec_offset' if ver == 4 else 'DW_FORM_data4'
            cu['dies'].append([['ref', 'DW_AT_ranges', 'rng5', 'DW_FORM_sec_offset', 0, 0, None],
                               ['ref', 'DW_AT_frame_base', 'loc5', 'DW_FORM_sec_offset', 0, 0, None, False]] if ver >= 5 else
                              [['ref', 'DW_AT_ranges', 'rng4', f4, 0], ['ref', 'DW_AT_frame_base', 'loc4', f4, 0, False]])
        if indirect:
            for attrs in cu['dies']:
                for at in attrs:
                    if at[0] != 'base' and rng.random() < 0.5:
                        fi = 2 if at[0] == 'lit' else 3
                        at[fi] += '@indirect'
        cus.append(cu)
    sc['cus'] = [[c['version'], c['is64'], c.get('table', -1), c['dies']] for c in cus]
    return ['file', [sc['le'], sc['asz'], sc['loc4'], sc['rng4'], sc['tables'], sc['loc5'], sc['rng5'], sc['cus']]]


def gen_script(rng, a, focus=False):
    """focus: favour enumerations interleaved with fetches of other lists of the same section.
    a script for one whole-file scenario: top-level ops
         ['act', simple] | ['iter_loc', gen, sched] | ['iter_rng', gen, sched] | ['cus_loc', sched] | ['cus_rng', sched]
         | ['cu_ex', unit block index, sched]
       simple = ['parse', unit, n DIEs] | ['fetch', unit, die, attribute name] | ['get_ex', unit block, list]
       sched = [[simple...] after yield 0, [simple...] after yield 1, ...]"""
    le, asz, loc4, rng4, tables, loc5, rng5, cus = a[:8]
    ncu = len(cus)
    fetchables = [[k, d, at[1]] for k, cu in enumerate(cus) for d, attrs in enumerate(cu[3]) for at in attrs
                  if at[0] in ('ref', 'sub')]
    ex_lists = [[ui, li] for ui, u in enumerate(rng5 or []) for li in range(len(_list_items(u[5])))]
    contiguous = [ui for ui, u in enumerate(rng5 or []) if all(it[0] == 'list' and not it[1] for it in u[5])]

    def parse():
        k = rng.randrange(ncu)
        nd = len(cus[k][3])
        return ['parse', k, rng.choice([1, nd + 1, rng.randint(1, nd + 1)])]

    def simple(p_parse):
        if rng.random() < p_parse or not (fetchables or ex_lists):
            return parse()
        if ex_lists and (not fetchables or rng.random() < 0.25):
            return ['get_ex'] + rng.choice(ex_lists)
        return ['fetch'] + rng.choice(fetchables)

    def sched():
        # mostly DIE parsing between the yields, sometimes fetches (which may read the enumerated section)
        p = rng.choice([1.0, 1.0, 0.8, 0.5])
        return [[simple(p) for _ in range(rng.choice([0, 1, 1, 2]))] for _ in range(rng.randint(0, 6))]

    def target(at):
        if at[0] == 'sub':
            return (at[2], at[4], at[5])
        return (at[2], None, at[4]) if at[2] in ('loc4', 'rng4') else (at[2], at[4], at[5])
    # every reference of the debugging entries: (unit is v5, section, item, fetch op or None for a locviews reference)
    refs = [(cu[0] >= 5, target(at), [k, d, at[1]] if at[0] != 'views' else None)
            for k, cu in enumerate(cus) for d, attrs in enumerate(cu[3]) for at in attrs if at[0] in ('ref', 'views', 'sub')]

    def sched_other(sec, gen_):
        """after the i-th yield of the enumeration of section sec, fetch through a DIE attribute an item of the SAME
        section other than the one just yielded (the enumeration yields the referenced items in section order)"""
        order = sorted({t[1:] for v5, t, _ in refs if t[0] == sec and v5 == (gen_ == 5)}, key=lambda x: (x[0] or 0, x[1]))
        out = []
        for item in order[:8]:
            cands = [f for v5, t, f in refs if f is not None and t[0] == sec and t[1:] != item and v5 == (gen_ == 5)]
            hook = [['fetch'] + rng.choice(cands)] if cands and rng.random() < 0.85 else []
            if rng.random() < 0.2:
                hook.append(parse())
            out.append(hook)
        return out

    def any_calls(op, sec, gen_):
        # enumerations that reach every list by an absolute seek: the consumer may use the same object in between
        return lambda: [op, gen_, sched_other(sec, gen_) if rng.random() < (0.9 if focus else 0.4) else sched()]
    enums = []
    if loc4 is not None:
        enums += [any_calls('iter_loc', 'loc4', 4)] * (3 if focus else 1)
    if rng4 is not None:
        enums.append(any_calls('iter_rng', 'rng4', 4))
    if loc5 is not None:
        enums += [lambda: ['iter_loc', 5, sched()]] * 3 + [lambda: ['cus_loc', sched()]]
    if rng5 is not None:
        enums += [any_calls('iter_rng', 'rng5', 5), lambda: ['cus_rng', sched()]]
        if contiguous:
            enums += [lambda: ['cu_ex', rng.choice(contiguous), sched()]] * 3
    ops = []
    if rng.random() < 0.3:          # warmed-up: everything parsed before the first observation
        ops += [['act', ['parse', k, len(cu[3]) + 1]] for k, cu in enumerate(cus)]
    elif rng.random() < 0.3:        # partly warmed-up
        ops += [['act', parse()] for _ in range(rng.randint(1, 2))]
    n = rng.randint(1, 4)
    first = rng.randrange(n)
    for i in range(n):
        if enums and (i == first or rng.random() < 0.5):
            ops.append(rng.choice(enums)())
        else:
            ops.append(['act', simple(0.3)])
    return ops


def gen(ctx):
    rng = ctx.rng
    cases = []
    T = ctx.scale(1, 6)
    # ---- single lists
    for le in (True, False):
        for asz in (4, 8):
            m = 2 ** (8 * asz)
            fixed4 = [[], [['base', 0]], [['base', m - 1]], [['loc', 0, 1, b'']], [['loc', 1, 0, b'\x50']],
                      [['loc', m - 2, m - 1, b'\x00\x00']], [['base', 5], ['loc', 0, m - 1, b'\x91\x7f'], ['base', 0]]]
            for ents in fixed4 + [gen_v4loc(rng, asz, rng.randint(1, 8)) for _ in range(25 * T)]:
                cases.append(('list4', ['loc', le, asz, _bytes(rng, rng.choice([0, 1, 7, 16])), ents, _bytes(rng, rng.choice([0, 3, 16]))]))
            cases.append(('list4', ['loc', le, asz, b'\x01', gen_v4loc(rng, asz, 2, big=True) + [['loc', 3, 4, _bytes(rng, 65535)]], b'']))
            fixedr = [[], [['base', 0]], [['base', m - 1]], [['range', 0, 1]], [['range', 1, 0]], [['range', m - 2, m - 1]]]
            for ents in fixedr + [gen_v4rng(rng, asz, rng.randint(1, 10)) for _ in range(20 * T)]:
                cases.append(('list4', ['rng', le, asz, _bytes(rng, rng.choice([0, 1, 7, 16])), ents, _bytes(rng, rng.choice([0, 3, 16]))]))
            nox_l = [k for k in LLE_KINDS if k not in ('base_addressx', 'startx_endx', 'startx_length')]
            nox_r = [k for k in RLE_KINDS if k not in ('base_addressx', 'startx_endx', 'startx_length')]
            for k in nox_l:
                cases.append(('list5', ['loc', le, asz, _bytes(rng, 5), gen_lle(rng, asz, 0, 1, [k]), b'\x07']))
            for k in nox_r:
                cases.append(('list5', ['rng', le, asz, _bytes(rng, 5), gen_rle(rng, asz, 0, 1, [k]), b'\x07']))
            for _ in range(20 * T):
                cases.append(('list5', ['loc', le, asz, _bytes(rng, rng.choice([0, 2, 12])), gen_lle(rng, asz, 0, rng.randint(0, 8), nox_l), _bytes(rng, rng.choice([0, 4]))]))
                cases.append(('list5', ['rng', le, asz, _bytes(rng, rng.choice([0, 2, 12])), gen_rle(rng, asz, 0, rng.randint(0, 8), nox_r), _bytes(rng, rng.choice([0, 4]))]))
            cases.append(('list5', ['loc', le, asz, b'', gen_lle(rng, asz, 0, 3, nox_l, big=True), b'']))
    # ---- whole files
    for size, n in ((0, 120 * T), (1, 120 * T), (2, 40 * T)):
        for _ in range(n):
            cases.append(tuple(gen_file(rng, size)))
    # ---- malformed (out of domain: model vs implementation only)
    for le in (True, False):
        for asz in (4, 8):
            for _ in range(6 * T):
                ents = gen_v4loc(rng, asz, rng.randint(1, 3))
                cases.append(('bad4', ['loc', le, asz, ents, rng.randint(1, 12)]))
                cases.append(('bad4', ['rng', le, asz, gen_v4rng(rng, asz, rng.randint(1, 3)), rng.randint(1, 12)]))
                cases.append(('bad5', ['rng', le, asz, gen_rle(rng, asz, 0, rng.randint(0, 3), ['offset_pair', 'base_address', 'start_length']),
                                       rng.choice([b'', b'\x08', b'\x63\x00', b'\x04\x80', b'\x05\x01'])]))
                cases.append(('bad5', ['loc', le, asz, gen_lle(rng, asz, 0, rng.randint(0, 3), ['offset_pair', 'base_address', 'default_location']),
                                       rng.choice([b'', b'\x09', b'\x63\x00', b'\x04\x80', b'\x05\x05\x01', b'\x06\x01'])]))
    # ---- sessions: call orders on one fresh DWARFInfo (after everything else: the cases above keep their seeds)
    for size, n in ((0, 60 * T), (1, 110 * T), (2, 50 * T)):
        for _ in range(n):
            a = gen_file(rng, size, indexed=rng.random() < 0.6)[1]
            cases.append(('session', [a, gen_script(rng, a)]))
    # pre-v5 files with lists back to back, enumerated while the consumer fetches OTHER lists of the same section
    # through the same object between consecutive yields
    for size, n in ((1, 30 * T), (2, 30 * T)):
        for _ in range(n):
            a = gen_file(rng, size, dense=True)[1]
            cases.append(('session', [a, gen_script(rng, a, focus=True)]))
    # ---- tail sharing: offsets (attributes, offset-table slots) that designate the 2nd.. entry of another list
    for size, n in ((1, 25 * T), (2, 15 * T)):
        for _ in range(n):
            cases.append(tuple(gen_file(rng, size, indexed=rng.random() < 0.6, overlap=True)))
    for size, n in ((1, 25 * T), (2, 15 * T)):
        for _ in range(n):
            a = gen_file(rng, size, indexed=rng.random() < 0.6, overlap=True)[1]
            cases.append(('session', [a, gen_script(rng, a)]))
    # ---- attributes declared DW_FORM_indirect; numerically equal offsets in the sections of the two generations
    for size, n in ((1, 20 * T), (2, 10 * T)):
        for _ in range(n):
            cases.append(tuple(gen_file(rng, size, indexed=True, indirect=True, overlap=rng.random() < 0.3)))
            a = gen_file(rng, size, indexed=True, indirect=True)[1]
            cases.append(('session', [a, gen_script(rng, a)]))
    for size, n in ((0, 10 * T), (1, 15 * T)):
        for _ in range(n):
            cases.append(tuple(gen_file(rng, size, collide=True, indirect=rng.random() < 0.2)))
            a = gen_file(rng, size, collide=True)[1]
            cases.append(('session', [a, gen_script(rng, a)]))
    # ---- long pre-v5 lists (entry offsets and lengths of every entry, far into the list)
    sizes = [129, 130, 257, 1000]
    for i, (le, asz) in enumerate([(True, 4), (False, 8), (True, 8), (False, 4)]):
        for n in (sizes if T > 1 else [sizes[i]]):
            cases.append(('list4', ['rng', le, asz, _bytes(rng, rng.choice([0, 5, 16])), gen_v4rng(rng, asz, n), _bytes(rng, 3)]))
        for n in (sizes if T > 1 else [sizes[(i + 1) % 4]]):
            ents = gen_v4loc(rng, asz, n)
            ents = [['loc', e[1], e[2], e[3][:6]] if e[0] == 'loc' else e for e in ents]
            cases.append(('list4', ['loc', le, asz, _bytes(rng, rng.choice([0, 5, 16])), ents, _bytes(rng, 3)]))
    # ---- split DWARF: the lists are fetched from ANOTHER DWARFInfo's section objects with the units of this one
    for size, n in ((0, 15 * T), (1, 25 * T)):
        for _ in range(n):
            cases.append(('split', gen_file(rng, size, indexed=True, overlap=rng.random() < 0.2)[1]))
    # ---- classification: every name x version, all forms in one case
    for v in (2, 3, 4, 5):
        cases.append(('classify', [v]))
    # ---- the kind of stream every section is handed to the library as (tools/lib/streams.py); drawn last, from
    # its own generator, so that the cases themselves do not depend on it
    krng = random.Random(rng.getrandbits(64))
    out = []
    for kind, a in cases:
        if kind in ('file', 'split'):
            a = list(a) + [[ST.draw_kind(krng, 0.5), ST.draw_kind(krng, 0.8)]]
        elif kind == 'session':
            a = [list(a[0]) + [[ST.draw_kind(krng, 0.5), ST.draw_kind(krng, 0.8)]], a[1]]
        elif kind in ('list4', 'list5'):
            a = list(a) + [ST.draw_kind(krng, 0.7)]
        out.append((kind, a))
    return out


# ------------------------------------------------------------------ canonical views of implementation objects
def c_val(name, v):
    if isinstance(v, bool):
        return ['bool', int(v)]
    if name == 'loc_expr':
        return bytes(v)
    if isinstance(v, (list, tuple)):
        return [int(x) for x in v]
    return v


def c_tup(t):
    if isinstance(t, list) and t and t[0] == 'err':
        return t
    return [type(t).__name__] + [c_val(f, v) for f, v in zip(t._fields, t)]


def c_tups(r):
    if isinstance(r, list) and len(r) == 2 and r[0] == 'err' and isinstance(r[1], str):
        return r
    return ['ok', [c_tup(t) for t in r]]


def c_container(c):
    return sorted([k, c_val(k, v)] for k, v in c.items())


def c_sorted_container(pairs):
    return sorted([k, v] for k, v in pairs)


def _ok(x):
    return ['ok', x]


def _structs(le, asz):
    from elftools.dwarf.structs import DWARFStructs
    return DWARFStructs(little_endian=le, dwarf_format=32, address_size=asz)


# ------------------------------------------------------------------ evaluation
def evaluate(ctx, cases):
    global _STREAMS
    _STREAMS = ST.Streams(prefix='pv-c07-streams-')
    try:
        _evaluate(ctx, cases)
    finally:
        _STREAMS.close()
        _STREAMS = None


def _evaluate(ctx, cases):
    by = {}
    for i, (kind, a) in enumerate(cases):
        by.setdefault(kind, []).append((i, a))
    for kind in ('list4', 'list5', 'bad4', 'bad5'):
        if kind in by:
            _eval_lists(ctx, kind, [a for _, a in by[kind]])
    if 'file' in by:
        _eval_files(ctx, [a for _, a in by['file']])
    if 'session' in by:
        _eval_sessions(ctx, [a for _, a in by['session']])
    if 'split' in by:
        _eval_split(ctx, [a for _, a in by['split']])
    if 'classify' in by:
        _eval_classify(ctx, [a for _, a in by['classify']])


def _sections(le, asz, loc=None, ranges=None, loclists=None, rnglists=None, addr=None):
    return [le, asz] + [('none' if x is None else x) for x in (loc, ranges, loclists, rnglists, addr)]


def _eval_lists(ctx, kind, cases):
    from elftools.dwarf.locationlists import LocationLists
    from elftools.dwarf.ranges import RangeLists
    import types
    drv = ctx.driver
    v5 = kind in ('list5', 'bad5')
    bad = kind.startswith('bad')
    encs = drv.batch([['enc_' + ({'loc': 'lle', 'rng': 'rle'}[a[0]] if v5 else 'v4' + a[0]), a[1], a[2], a[4 if not bad else 3]]
                      for a in cases])
    reqs = []
    work = []
    for a, e in zip(cases, encs):
        which, le, asz = a[0], a[1], a[2]
        if bad:
            ents = a[3]
            if v5:
                data = e[:-1] + a[4]          # terminator replaced by a malformed continuation
            else:
                data = e[:max(0, len(e) - a[4])]
            pre, off = b'', 0
        else:
            pre, ents, tail = a[3], a[4], a[5]
            data = pre + e + tail
            off = len(pre)
        secs = _sections(le, asz, **{({'loc': 'loclists', 'rng': 'rnglists'} if v5 else {'loc': 'loc', 'rng': 'ranges'})[which]: data})
        cu = [5, False, asz, 'none', 'none', 'none']
        reqs.append(['m_get_' + which, secs, 5 if v5 else 4, off, cu if v5 else 'none'])
        if v5:
            reqs.append(['wf_' + ('lle' if which == 'loc' else 'rle'), asz, 0, ents])
            reqs.append(['mean_' + ('lle' if which == 'loc' else 'rle'), le, asz, [], off, ents])
        else:
            reqs.append(['wf_v4' + which, asz, ents])
            reqs.append(['mean_v4' + which, le, asz, off, ents])
        work.append((which, le, asz, data, off, ents))
    ans = drv.batch(reqs)
    for i, (a, w) in enumerate(zip(cases, work)):
        which, le, asz, data, off, ents = w
        model, wf, mean = ans[3 * i], ans[3 * i + 1], ans[3 * i + 2]
        st = _structs(le, asz)
        skind = a[6] if not bad and len(a) > 6 else 'bytesio'
        ctx.bump('stream_kind', skind)
        if which == 'loc':
            obj = LocationLists(_open(data, skind), st, 5 if v5 else 4, None)
            die = types.SimpleNamespace(cu=None) if v5 else None
            impl = c_tups(impl_call(obj.get_location_list_at_offset, off, die))
        else:
            obj = RangeLists(_open(data, skind), st, 5 if v5 else 4, None)
            impl = c_tups(impl_call(obj.get_range_list_at_offset, off, None))
        spec = ['ok', mean]
        _drop()
        ctx.bump('kind', kind + '-' + which)
        ctx.bump('entries', min(len(ents), 8))
        ctx.record(kind, a, impl=impl, spec=spec if not bad else model, model=model,
                   in_domain=(not bad) and bool(wf), nontrivial=len(ents) > 0,
                   key=kind + '/' + ('get_location_list_at_offset' if which == 'loc' else 'get_range_list_at_offset'))


# ---- whole files
def _file_plan(drv, cases):
    """first driver round: build every list section of every scenario"""
    reqs = []
    slots = []
    for a in cases:
        le, asz, loc4, rng4, tables, loc5, rng5, cus = a[:8]
        s = {}
        if loc4 is not None:
            s['loc4'] = len(reqs)
            reqs.append(['sec_loc4', le, asz, loc4])
        if rng4 is not None:
            s['rng4'] = len(reqs)
            reqs.append(['sec_rng4', le, asz, rng4])
        for nm, us in (('loc5', loc5), ('rng5', rng5)):
            if us is not None:
                s[nm] = []
                for ti, (pre, tbl) in enumerate(tables):
                    s[nm].append(len(reqs))
                    reqs.append(['sec_' + nm, le, asz, tbl, [u[:6] for u in us]])
        s['addr'] = []
        for pre, tbl in tables:
            s['addr'].append(len(reqs))
            reqs.append(['enc_addr', le, asz, tbl])
            reqs.append(['wf_addr', asz, tbl])
        slots.append(s)
    return reqs, slots


def _eval_files(ctx, cases):
    drv = ctx.driver
    reqs, slots = _file_plan(drv, cases)
    built = drv.batch(reqs)
    # second round: attribute values by the model; third: every model observation
    files = []
    reqs2 = []
    for a, s in zip(cases, slots):
        f = _assemble(a, s, built)
        f['attr_slot'] = len(reqs2)
        for cv in f['cuviews']:
            reqs2.append(['m_attr_values', f['secs'], cv])
        files.append(f)
    vals = drv.batch(reqs2)
    reqs3 = []
    for f in files:
        f['mvals'] = vals[f['attr_slot']:f['attr_slot'] + len(f['cuviews'])]
        _plan_observations(f, reqs3)
    ans = drv.batch(reqs3)
    # fourth round (depends on the model's own raw entries): translate_v5_entry
    reqs4 = []
    for f in files:
        _plan_translate(f, ans, reqs4)
    ans4 = drv.batch(reqs4)
    for a, f in zip(cases, files):
        impl = _observe_impl(f)
        _drop()
        for k_ in f['kinds']:
            ctx.bump('stream_kind', k_)
        spec, model = _collect(f, ans, ans4)
        key = 'file/ok'
        for (lab, iv), (_, sv) in zip(impl, spec):
            if iv != sv:
                key = 'file/' + lab
                break
        nlists = sum(len(x) for x in f['nontrivial'])
        ctx.bump('sections', ''.join(c for c, k in (('l', 'loc'), ('r', 'ranges'), ('L', 'loclists'), ('R', 'rnglists')) if f['bytes'].get(k) is not None))
        ctx.bump('units', len(a[7]))
        ctx.bump('observations', min(len(impl) // 5 * 5, 40))
        ctx.record('file', a, impl=impl, spec=spec, model=model, in_domain=f['wf'], nontrivial=nlists > 0, key=key)


def _assemble(a, s, built):
    """section bytes, positions of every list item, DIE attribute values, the abstract views for the model"""
    le, asz, loc4, rng4, tables, loc5, rng5, cus = a[:8]
    f = {'le': le, 'asz': asz, 'a': a, 'wf': True, 'bytes': {}, 'nontrivial': [],
         'kinds': tuple(a[8]) if len(a) > 8 else ('bytesio', 'bytesio')}
    # .debug_addr: every table after its own prefix
    addr = b''
    bases = []
    for (pre, tbl), slot in zip(tables, s['addr']):
        addr += pre
        bases.append(len(addr))
        addr += built[slot]
        f['wf'] = f['wf'] and bool(built[slot + 1])
    f['bases'] = bases
    f['bytes']['addr'] = addr if tables else None
    for nm, key in (('loc4', 'loc'), ('rng4', 'ranges')):
        if s.get(nm) is not None:
            data, expect, wf = built[s[nm]]
            f['bytes'][key] = data
            f[nm] = expect                       # [(start, list_off, tups)]
            f['wf'] = f['wf'] and bool(wf)
            f['nontrivial'].append([e for e in expect if e[2]])
        else:
            f['bytes'][key] = None
            f[nm] = None
    for nm, key, us in (('loc5', 'loclists', loc5), ('rng5', 'rnglists', rng5)):
        if s.get(nm) is not None:
            per_table = [built[i] for i in s[nm]]
            data = per_table[0][0]
            f['bytes'][key] = data
            units = []
            for ui, u in enumerate(us):
                upos, tab_off, expect = per_table[u[6]][1][ui]
                units.append({'pos': upos, 'table': tab_off, 'expect': expect, 'u': u})
                f['wf'] = f['wf'] and bool(per_table[u[6]][2])
                f['nontrivial'].append([e for e in expect if e[2]])
            f[nm] = units
            f[nm + '_headers'] = per_table[0][3]
        else:
            f['bytes'][key] = None
            f[nm] = None
    f['secs'] = _sections(le, asz, f['bytes']['loc'], f['bytes']['ranges'], f['bytes']['loclists'],
                          f['bytes']['rnglists'], f['bytes']['addr'])
    # ---- DIE attributes, concrete
    f['cus'] = []
    f['cuviews'] = []
    for ver, is64, ti, dies in cus:
        cdies = []
        inds = set()
        for attrs in dies:
            out = []
            for at in attrs:
                # "<form>@indirect": declared DW_FORM_indirect in the abbreviation, <form> is the real form in the DIE
                fi = 2 if at[0] == 'lit' else 3
                if at[0] != 'base' and at[fi].endswith('@indirect'):
                    at = list(at)
                    at[fi] = at[fi][:-len('@indirect')]
                    inds.add((len(cdies), len(out)))
                if at[0] == 'base':
                    name, i = at[1], at[2]
                    v = bases[i] if name == 'DW_AT_addr_base' else \
                        (f['loc5'][i]['table'] if name == 'DW_AT_loclists_base' else f['rng5'][i]['table'])
                    out.append((name, 'DW_FORM_sec_offset', v, None))
                elif at[0] == 'lit':
                    out.append((at[1], at[2], at[3], None))
                elif at[0] == 'sub':
                    role, name, sec, form, ui, li, ent, k = at
                    tgt = ('sub', sec, ui, li, ent)
                    if form in ('DW_FORM_loclistx', 'DW_FORM_rnglistx'):
                        out.append((name, form, k, tgt))
                    else:
                        out.append((name, form, _designated(f, tgt)[0][1], tgt))
                else:
                    role, name, sec, form = at[0], at[1], at[2], at[3]
                    if sec in ('loc4', 'rng4'):
                        e = f[sec][at[4]]
                        tgt = (sec, None, at[4])
                        k = None
                    else:
                        e = f[sec][at[4]]['expect'][at[5]]
                        tgt = (sec, at[4], at[5])
                        k = at[6]
                    if role == 'views':
                        out.append((name, 'DW_FORM_sec_offset' if ver >= 4 else form, e[0], ('views',) + tgt))
                    elif form in ('DW_FORM_loclistx', 'DW_FORM_rnglistx'):
                        out.append((name, form, k, ('list',) + tgt))
                    else:
                        out.append((name, form, e[1], ('list',) + tgt))
            cdies.append(out)
        f['cus'].append({'version': ver, 'is64': is64, 'asz': asz, 'table': ti,
                         'dies': [[(n, fm, v) for n, fm, v, _ in d] for d in cdies], 'meta': cdies,
                         # what the .debug_info builder writes (the model and the API see the real form)
                         'bdies': [[(n, ('DW_FORM_indirect>' + fm) if (di_, ai) in inds else fm, v)
                                    for ai, (n, fm, v, _) in enumerate(d)] for di_, d in enumerate(cdies)]})
        f['cuviews'].append([ver, is64, asz, [[[n, fm, v] for n, fm, v, _ in d] for d in cdies]])
    return f


def _cuinfo(f, ci):
    cu = f['cus'][ci]
    top = {n: v for n, fm, v in cu['dies'][0]}
    return [cu['version'], cu['is64'], cu['asz'], top.get('DW_AT_addr_base', 'none'),
            top.get('DW_AT_loclists_base', 'none'), top.get('DW_AT_rnglists_base', 'none')]


def _expect_of(f, tgt):
    sec, ui, li = tgt
    return f[sec][li] if ui is None else f[sec][ui]['expect'][li]


def _designated(f, tgt):
    """the entries a 'list' / 'sub' target designates through a fetch (view pairs are never part of a fetch)"""
    e = _expect_of(f, tgt[1:4])
    ents = e[2][_nviews(f, tgt[1:4]):]
    return ents[tgt[4]:] if tgt[0] == 'sub' else ents


def _nviews(f, tgt):
    sec, ui, li = tgt
    its = f['a'][{'loc4': 2, 'rng4': 3, 'loc5': 5, 'rng5': 6}[sec]]
    its = its if ui is None else its[ui][5]
    return len(_list_items(its)[li][1])


def _enum_expected_req(f, gen_, ranges):
    """the spec request for what an enumeration of the generation's location / range section must yield: the items
    whose first byte a debugging entry of a unit of that generation references"""
    same = [ci for ci, cu in enumerate(f['cus']) if (cu['version'] >= 5) == (gen_ == 5)]
    refs = set()
    for ci in same:
        for d in f['cus'][ci]['meta']:
            has_views = any(t is not None and t[0] == 'views' for _, _, _, t in d)
            for name, form, raw, tgt in d:
                if tgt is None or ranges != (name == 'DW_AT_ranges'):
                    continue
                if tgt[0] == 'sub':
                    refs.add(_designated(f, tgt)[0][1])          # the offset of the entry the tail starts with
                elif ranges or tgt[0] == 'views' or not (has_views and name == 'DW_AT_location'):
                    refs.add(_expect_of(f, tgt[1:])[0])
    key = {(4, False): 'loc4', (4, True): 'rng4', (5, False): 'loc5', (5, True): 'rng5'}[(gen_, ranges)]
    flat = f[key] if gen_ == 4 else [e for u in f[key] for e in u['expect']]
    return ['enum_designated', sorted(refs), flat]


def _plan_observations(f, reqs):
    """model requests for one file; remembers the slots in f['plan'] as (label, slot, spec)"""
    plan = []
    secs = f['secs']
    has4l, has5l = f['bytes']['loc'] is not None, f['bytes']['loclists'] is not None
    has4r, has5r = f['bytes']['ranges'] is not None, f['bytes']['rnglists'] is not None
    plan.append(('lists_object', len(reqs), ['single', 5] if has5l and not has4l else ['single', 4] if has4l and not has5l
                 else 'pair' if has4l else 'none'))
    reqs.append(['m_lists_object', has4l, has5l])
    plan.append(('lists_object', len(reqs), ['single', 5] if has5r and not has4r else ['single', 4] if has4r and not has5r
                 else 'pair' if has4r else 'none'))
    reqs.append(['m_lists_object', has4r, has5r])
    # every attribute of every DIE
    for ci, cu in enumerate(f['cus']):
        ver = cu['version']
        for di, d in enumerate(cu['meta']):
            for ai, (name, form, raw, tgt) in enumerate(d):
                mval = f['mvals'][ci]
                val = mval[1][di][ai] if mval[0] == 'ok' else None
                if name == 'DW_AT_ranges' and tgt is not None:
                    plan.append(('get_range_list_at_offset', len(reqs), _ok(_designated(f, tgt))))
                    reqs.append(['m_get_rng', secs, 5 if ver >= 5 else 4, val if val is not None else 0, _cuinfo(f, ci)])
                elif tgt is not None and tgt[0] in ('list', 'sub'):
                    entries = _designated(f, tgt)
                    plan.append(('parse_from_attribute', len(reqs), _ok(entries)))
                    reqs.append(['m_get_loc', secs, 5 if ver >= 5 else 4, val if val is not None else 0, _cuinfo(f, ci)])
                elif tgt is None and name not in ('DW_AT_addr_base', 'DW_AT_loclists_base', 'DW_AT_rnglists_base'):
                    plan.append(('classify:%s:%s:%d' % (name, form, ver), len(reqs), None))
                    reqs.append(['m_classify', name, form, ver])
                    plan.append(('std', len(reqs), None))
                    reqs.append(['std_classify', ver, name, form])
    # enumerations
    for gen_, lkey, rkey in ((4, 'loc4', 'rng4'), (5, 'loc5', 'rng5')):
        if f[lkey] is not None:
            plan.append(('iter_location_lists', len(reqs), None))
            reqs.append(['m_iter_loc', secs, gen_, f['cuviews']])
            plan.append(('enum', len(reqs), None))
            reqs.append(_enum_expected_req(f, gen_, False))
        if f[rkey] is not None:
            plan.append(('iter_range_lists', len(reqs), None))
            reqs.append(['m_iter_rng', secs, gen_, f['cuviews']])
            plan.append(('enum', len(reqs), None))
            reqs.append(_enum_expected_req(f, gen_, True))
    # unit blocks
    if f['loc5'] is not None:
        plan.append(('LocationLists.iter_CUs', len(reqs), _ok([c_sorted_container(h) for h in f['loc5_headers']])))
        reqs.append(['m_iter_cus_loc', secs, 5])
    if f['rng5'] is not None:
        plan.append(('RangeLists.iter_CUs', len(reqs), _ok([c_sorted_container(h) for h in f['rng5_headers']])))
        reqs.append(['m_iter_cus_rng', secs, 5])
        for ui, u in enumerate(f['rng5']):
            its = u['u'][5]
            if all(it[0] == 'list' and not it[1] for it in its):
                plan.append(('iter_CU_range_lists_ex', len(reqs), None))
                reqs.append(['m_iter_cu_rng_ex', secs, f['rng5_headers'][ui]])
                for it, e in zip(its, u['expect']):
                    plan.append(('raw', len(reqs), None))
                    reqs.append(['raw_rle', f['le'], f['asz'], e[1], it[2]])
            for li, e in enumerate(u['expect']):
                plan.append(('get_range_list_at_offset_ex', len(reqs), None))
                reqs.append(['m_get_rng_ex', secs, e[1]])
                plan.append(('raw', len(reqs), None))
                reqs.append(['raw_rle', f['le'], f['asz'], e[1], _list_items(u['u'][5])[li][2]])
    f['plan'] = plan


def _unit_cu(f, ui):
    """an info unit that uses the same address table as rnglists unit block ui (for translate_v5_entry)"""
    ti = f['rng5'][ui]['u'][6]
    for ci, cu in enumerate(f['cus']):
        if cu['version'] >= 5 and cu['table'] == ti:
            return ci
    return None


def _plan_translate(f, ans, reqs4):
    f['tr'] = []
    if f['rng5'] is None:
        return
    plan = f['plan']
    k = 0
    for idx, (lab, slot, spec) in enumerate(plan):
        if lab == 'get_range_list_at_offset_ex':
            k += 1
    # walk the units again in the same order as _plan_observations
    gets = [(lab, slot) for lab, slot, _ in plan if lab == 'get_range_list_at_offset_ex']
    gi = 0
    for ui, u in enumerate(f['rng5']):
        ci = _unit_cu(f, ui)
        for li, e in enumerate(u['expect']):
            lab, slot = gets[gi]
            gi += 1
            if ci is None:
                continue
            raw = ans[slot]
            if raw[0] != 'ok':
                continue
            start = len(reqs4)
            for c in raw[1]:
                reqs4.append(['m_translate_rng', f['secs'], _cuinfo(f, ci), c])
            f['tr'].append((ui, li, ci, start, len(raw[1]), e))


def _collect(f, ans, ans4):
    """spec and model observation lists, aligned with _observe_impl"""
    spec, model = [], []
    plan = f['plan']
    i = 0
    while i < len(plan):
        lab, slot, sp = plan[i]
        m = ans[slot]
        if lab.startswith('classify:'):
            std = ans[plan[i + 1][1]]
            cls = m[3]
            mv = _class_view(cls, None)
            if std == 'none':
                spec.append((lab, mv))           # outside the standard's tables: nothing demanded
                f.setdefault('undemanded', 0)
            else:
                spec.append((lab, _class_view(std[1], None)))
            model.append((lab, mv))
            i += 2
        elif lab in ('iter_location_lists', 'iter_range_lists'):
            spec.append((lab, _ok(ans[plan[i + 1][1]])))
            model.append((lab, m))
            i += 2
        elif lab == 'iter_CU_range_lists_ex':
            j = i + 1
            raws = []
            while j < len(plan) and plan[j][0] == 'raw':
                raws.append([c_sorted_container(c) for c in ans[plan[j][1]]])
                j += 1
            spec.append((lab, _ok(raws)))
            model.append((lab, ['ok', [[c_sorted_container(c) for c in l] for l in m[1]]] if m[0] == 'ok' else m))
            i = j
        elif lab == 'get_range_list_at_offset_ex':
            spec.append((lab, _ok([c_sorted_container(c) for c in ans[plan[i + 1][1]]])))
            model.append((lab, ['ok', [c_sorted_container(c) for c in m[1]]] if m[0] == 'ok' else m))
            i += 2
        elif lab in ('LocationLists.iter_CUs', 'RangeLists.iter_CUs'):
            spec.append((lab, sp))
            model.append((lab, ['ok', [c_sorted_container(c) for c in m[1]]] if m[0] == 'ok' else m))
            i += 1
        else:
            spec.append((lab, sp))
            model.append((lab, m))
            i += 1
    for ui, li, ci, start, n, e in f['tr']:
        spec.append(('translate_v5_entry', e[2]))
        model.append(('translate_v5_entry', [(r[1] if r[0] == 'ok' else r) for r in ans4[start:start + n]]))
    return [list(x) for x in spec], [list(x) for x in model]


def _class_view(cls, value):
    return {0: ['err', 'ValueError'], 1: 'expr', 2: 'list'}.get(cls, ['class', cls])


def _observe_impl(f):
    """the same observations on the real library, in plan order"""
    from elftools.dwarf.locationlists import LocationLists, LocationListsPair, LocationParser, LocationExpr
    from elftools.dwarf.ranges import RangeLists, RangeListsPair
    le, asz = f['le'], f['asz']
    info, abbrev, cu_offs = B.build_info(le, [{'version': c['version'], 'is64': c['is64'], 'asz': c['asz'], 'dies': c['bdies']}
                                              for c in f['cus']])
    di = B.make_dwarfinfo(le, asz, dict(info=info, abbrev=abbrev, loc=f['bytes']['loc'], ranges=f['bytes']['ranges'],
                                        loclists=f['bytes']['loclists'], rnglists=f['bytes']['rnglists'], addr=f['bytes']['addr']),
                          opener=_open, kinds=f['kinds'])
    out = []

    def obj_view(o, single, pair):
        if o is None:
            return 'none'
        if type(o) is pair:
            return 'pair'
        if type(o) is single:
            return ['single', 5 if o.version >= 5 else 4]
        return ['other', type(o).__name__]
    ll = impl_call(di.location_lists)
    rl = impl_call(di.range_lists)
    out.append(('lists_object', obj_view(ll, LocationLists, LocationListsPair)))
    out.append(('lists_object', obj_view(rl, RangeLists, RangeListsPair)))
    cus = impl_call(lambda: list(di.iter_CUs()))
    parser = LocationParser(ll)
    for ci, cu in enumerate(f['cus']):
        ver = cu['version']
        dies = impl_call(lambda: [d for d in cus[ci].iter_DIEs() if not d.is_null()]) if isinstance(cus, list) and cus and cus[0] != 'err' else cus
        for di_, d in enumerate(cu['meta']):
            for ai, (name, form, raw, tgt) in enumerate(d):
                if isinstance(dies, list) and len(dies) == 2 and dies[0] == 'err':
                    attr = None
                else:
                    die = dies[di_]
                    attr = die.attributes.get(name)
                if name == 'DW_AT_ranges' and tgt is not None:
                    out.append(('get_range_list_at_offset',
                                dies if attr is None else c_tups(impl_call(rl.get_range_list_at_offset, attr.value, cus[ci]))))
                elif tgt is not None and tgt[0] in ('list', 'sub'):
                    out.append(('parse_from_attribute',
                                dies if attr is None else c_tups(impl_call(parser.parse_from_attribute, attr, ver, die))))
                elif tgt is None and name not in ('DW_AT_addr_base', 'DW_AT_loclists_base', 'DW_AT_rnglists_base'):
                    if attr is None:
                        out.append(('classify:%s:%s:%d' % (name, form, ver), dies))
                        continue
                    r = impl_call(parser.parse_from_attribute, attr, ver, die)
                    if isinstance(r, LocationExpr):
                        v = 'expr' if (bytes(r.loc_expr) if isinstance(r.loc_expr, list) else r.loc_expr) == raw else ['expr-value', r.loc_expr]
                    elif isinstance(r, list) and r and r[0] == 'err':
                        v = r
                    else:
                        v = 'list'
                    has = impl_call(LocationParser.attribute_has_location, attr, ver)
                    if (v in ('expr', 'list')) != bool(has):
                        v = ['inconsistent', v, has]
                    out.append(('classify:%s:%s:%d' % (name, form, ver), v))
    for gen_, lkey, rkey, lsec, rsec in ((4, 'loc4', 'rng4', 'loc', 'ranges'), (5, 'loc5', 'rng5', 'loclists', 'rnglists')):
        if f[lkey] is not None:
            o = ll if isinstance(ll, LocationLists) else LocationLists(_open(f['bytes'][lsec], f['kinds'][0]), di.structs, gen_, di)
            out.append(('iter_location_lists', _iter_view(lambda: list(o.iter_location_lists()))))
        if f[rkey] is not None:
            o = rl if isinstance(rl, RangeLists) else RangeLists(_open(f['bytes'][rsec], f['kinds'][0]), di.structs, gen_, di)
            out.append(('iter_range_lists', _iter_view(lambda: list(o.iter_range_lists()))))
    if f['loc5'] is not None:
        o = ll if isinstance(ll, LocationLists) else LocationLists(_open(f['bytes']['loclists'], f['kinds'][0]), di.structs, 5, di)
        r = impl_call(lambda: list(o.iter_CUs()))
        out.append(('LocationLists.iter_CUs', r if _is_err(r) else _ok([c_container(h) for h in r])))
    tr = {}
    if f['rng5'] is not None:
        o = rl          # RangeLists or RangeListsPair: both forward these calls
        r = impl_call(lambda: list(o.iter_CUs()))
        out.append(('RangeLists.iter_CUs', r if _is_err(r) else _ok([c_container(h) for h in r])))
        for ui, u in enumerate(f['rng5']):
            its = u['u'][5]
            if all(it[0] == 'list' and not it[1] for it in its):
                if _is_err(r):
                    out.append(('iter_CU_range_lists_ex', r))
                else:
                    x = impl_call(lambda: list(o.iter_CU_range_lists_ex(r[ui])))
                    out.append(('iter_CU_range_lists_ex', x if _is_err(x) else _ok([[c_container(c) for c in l] for l in x])))
            for li, e in enumerate(u['expect']):
                x = impl_call(o.get_range_list_at_offset_ex, e[1])
                out.append(('get_range_list_at_offset_ex', x if _is_err(x) else _ok([c_container(c) for c in x])))
                tr[(ui, li)] = x
    for ui, li, ci, start, n, e in f['tr']:
        x = tr[(ui, li)]
        if _is_err(x):
            out.append(('translate_v5_entry', x))
        else:
            out.append(('translate_v5_entry', [c_tup(impl_call(rl.translate_v5_entry, c, cus[ci])) for c in x]))
    return [list(x) for x in out]


def _is_err(r):
    return isinstance(r, list) and len(r) == 2 and r[0] == 'err' and isinstance(r[1], str)


def _iter_view(f):
    r = impl_call(f)
    if _is_err(r):
        return r
    return _ok([[c_tup(t) for t in l] for l in r])


# ---- sessions
_RAW_LABELS = ('get_range_list_at_offset_ex', 'iter_CU_range_lists_ex')
_HDR_LABELS = ('LocationLists.iter_CUs', 'RangeLists.iter_CUs')


def _eval_sessions(ctx, cases):
    drv = ctx.driver
    files_a = [a[0] for a in cases]
    reqs, slots = _file_plan(drv, files_a)
    built = drv.batch(reqs)
    reqs2 = []
    work = []
    for (a, script), s in zip(cases, slots):
        f = _assemble(a, s, built)
        mops = [_model_op(f, op) for op in script]
        w = {'f': f, 'script': script, 'model': len(reqs2)}
        reqs2.append(['m_session', f['secs'], f['cuviews'], mops])
        reqs2.append(['wf_session', f['secs'], f['cuviews'], mops])
        w['emit'] = [_spec_op(f, op, reqs2) for op in script]
        work.append(w)
    ans = drv.batch(reqs2)
    for (a, script), w in zip(cases, work):
        f = w['f']
        mev, merr = ans[w['model']]
        model = [_model_event(e) for e in mev] + ([merr] if merr != 'none' else [])
        ok_script = bool(ans[w['model'] + 1])
        spec = [e for emit in w['emit'] for e in emit(ans)]
        impl = _impl_session(f, script)
        _drop()
        for k_ in f['kinds']:
            ctx.bump('stream_kind', k_)
        key = 'session/ok'
        for i in range(max(len(impl), len(spec))):
            iv = impl[i] if i < len(impl) else None
            sv = spec[i] if i < len(spec) else None
            if iv != sv:
                key = 'session/' + str((iv or sv)[0])
                break
        kinds = [op[0] for op in script]
        ctx.bump('session-start', 'warm' if kinds[0] == 'act' and script[0][1][0] == 'parse' else 'fresh')
        for op in script:
            if op[0] != 'act':
                ctx.bump('session-enum', op[0] + ('-hooks' if any(op[-1]) else ''))
        ctx.bump('session-domain', 'in' if ok_script else 'model-only')
        nlists = sum(len(x) for x in f['nontrivial'])
        ctx.record('session', [a, script], impl=impl, spec=spec if ok_script else model, model=model,
                   in_domain=f['wf'] and ok_script, nontrivial=nlists > 0, key=key)


def _model_simple(f, h):
    if h[0] == 'get_ex':
        return ['get_ex', f['rng5'][h[1]]['expect'][h[2]][1]]
    return h


def _model_op(f, op):
    if op[0] == 'act':
        return ['act', _model_simple(f, op[1])]
    return op[:-1] + [[[_model_simple(f, h) for h in hook] for hook in op[-1]]]


def _model_event(e):
    lab, v = e
    if lab in _RAW_LABELS:
        return [lab, [c_sorted_container(c) for c in v]]
    if lab in _HDR_LABELS:
        return [lab, c_sorted_container(v)]
    return [lab, v]


def _spec_simple(f, h, reqs):
    """what a simple call must return, as a function of the driver's answers"""
    if h[0] == 'parse':
        return lambda ans: []
    if h[0] == 'get_ex':
        u = f['rng5'][h[1]]
        slot = len(reqs)
        reqs.append(['raw_rle', f['le'], f['asz'], u['expect'][h[2]][1], _list_items(u['u'][5])[h[2]][2]])
        return lambda ans: [['get_range_list_at_offset_ex', [c_sorted_container(c) for c in ans[slot]]]]
    k, d, name = h[1:]
    tgt = [t for n, fm, raw, t in f['cus'][k]['meta'][d] if n == name][0]
    val = _designated(f, tgt)
    return lambda ans: [['fetch', val]]


def _spec_op(f, op, reqs):
    if op[0] == 'act':
        return _spec_simple(f, op[1], reqs)
    hooks = [[_spec_simple(f, h, reqs) for h in hook] for hook in op[-1]]
    if op[0] in ('iter_loc', 'iter_rng'):
        label = 'iter_location_lists' if op[0] == 'iter_loc' else 'iter_range_lists'
        slot = len(reqs)
        reqs.append(_enum_expected_req(f, op[1], op[0] == 'iter_rng'))
        yields = lambda ans: ans[slot]
    elif op[0] in ('cus_loc', 'cus_rng'):
        label = 'LocationLists.iter_CUs' if op[0] == 'cus_loc' else 'RangeLists.iter_CUs'
        hs = [c_sorted_container(h) for h in f['loc5_headers' if op[0] == 'cus_loc' else 'rng5_headers']]
        yields = lambda ans: hs
    else:
        label = 'iter_CU_range_lists_ex'
        u = f['rng5'][op[1]]
        sl = []
        for it, e in zip(u['u'][5], u['expect']):
            sl.append(len(reqs))
            reqs.append(['raw_rle', f['le'], f['asz'], e[1], it[2]])
        yields = lambda ans: [[c_sorted_container(c) for c in ans[i]] for i in sl]

    def emit(ans):
        out = []
        for i, y in enumerate(yields(ans)):
            out.append([label, y])
            if i < len(hooks):
                for h in hooks[i]:
                    out += h(ans)
        return out
    return emit


def _impl_session(f, script):
    """the script on the real library, one fresh DWARFInfo; events of the calls that completed, then the
    exception that ended the session (if any)"""
    from elftools.dwarf.locationlists import LocationLists, LocationParser
    from elftools.dwarf.ranges import RangeLists
    le, asz = f['le'], f['asz']
    info, abbrev, cu_offs = B.build_info(le, [{'version': c['version'], 'is64': c['is64'], 'asz': c['asz'], 'dies': c['bdies']}
                                              for c in f['cus']])
    di = B.make_dwarfinfo(le, asz, dict(info=info, abbrev=abbrev, loc=f['bytes']['loc'], ranges=f['bytes']['ranges'],
                                        loclists=f['bytes']['loclists'], rnglists=f['bytes']['rnglists'], addr=f['bytes']['addr']),
                          opener=_open, kinds=f['kinds'])
    st = {}

    def setup():
        st['cus'] = list(di.iter_CUs())          # unit headers only: no DIE is parsed here
        st['ll'] = di.location_lists()
        st['rl'] = di.range_lists()
        st['parser'] = LocationParser(st['ll'])
        return True
    r = impl_call(setup)
    if _is_err(r):
        return [r]

    def loc_obj(gen_):
        # the object of one generation over the DWARFInfo's own stream (what LocationListsPair holds)
        if isinstance(st['ll'], LocationLists):
            return st['ll']
        sec = di.debug_loclists_sec if gen_ == 5 else di.debug_loc_sec
        return LocationLists(sec.stream, di.structs, gen_, di)

    def rng_obj(gen_):
        if isinstance(st['rl'], RangeLists):
            return st['rl']
        sec = di.debug_rnglists_sec if gen_ == 5 else di.debug_ranges_sec
        return RangeLists(sec.stream, di.structs, gen_, di)

    def simple(h, out):
        if h[0] == 'parse':
            it = st['cus'][h[1]].iter_DIEs()
            for _ in range(h[2]):
                next(it, None)
        elif h[0] == 'get_ex':
            off = f['rng5'][h[1]]['expect'][h[2]][1]
            out.append(['get_range_list_at_offset_ex', [c_container(c) for c in st['rl'].get_range_list_at_offset_ex(off)]])
        else:
            k, d, name = h[1:]
            cu = st['cus'][k]
            it = cu.iter_DIEs()
            die = None
            for _ in range(d + 1):
                die = next(it)
            attr = die.attributes[name]
            if name == 'DW_AT_ranges':
                r = st['rl'].get_range_list_at_offset(attr.value, cu)
            else:
                r = st['parser'].parse_from_attribute(attr, cu['version'], die)
            out.append(['fetch', [c_tup(t) for t in r]])

    def run(op):
        out = []
        if op[0] == 'act':
            simple(op[1], out)
            return out
        sched = op[-1]
        if op[0] == 'iter_loc':
            label, g, view = 'iter_location_lists', loc_obj(op[1]).iter_location_lists(), lambda l: [c_tup(t) for t in l]
        elif op[0] == 'iter_rng':
            label, g, view = 'iter_range_lists', rng_obj(op[1]).iter_range_lists(), lambda l: [c_tup(t) for t in l]
        elif op[0] == 'cus_loc':
            label, g, view = 'LocationLists.iter_CUs', loc_obj(5).iter_CUs(), c_container
        elif op[0] == 'cus_rng':
            label, g, view = 'RangeLists.iter_CUs', st['rl'].iter_CUs(), c_container
        else:
            blocks = list(st['rl'].iter_CUs())
            label, g, view = 'iter_CU_range_lists_ex', st['rl'].iter_CU_range_lists_ex(blocks[op[1]]), \
                lambda l: [c_container(c) for c in l]
        for i, y in enumerate(g):
            out.append([label, view(y)])
            if i < len(sched):
                for h in sched[i]:
                    simple(h, out)
        return out
    events = []
    for op in script:
        r = impl_call(run, op)
        if _is_err(r):
            events.append(r)
            break
        events += r
    return events


# ---- split DWARF
def _eval_split(ctx, cases):
    """the unit (and its DIEs, its .debug_addr) live in one DWARFInfo, the LocationLists/RangeLists objects come from
    another DWARFInfo over the same list sections whose .debug_addr is absent or holds other addresses: indexed
    entries must be resolved through the address table of the UNIT that is passed"""
    from elftools.dwarf.locationlists import LocationParser
    drv = ctx.driver
    reqs, slots = _file_plan(drv, cases)
    built = drv.batch(reqs)
    files = []
    reqs2 = []
    for a, s in zip(cases, slots):
        f = _assemble(a, s, built)
        f['attr_slot'] = len(reqs2)
        for cv in f['cuviews']:
            reqs2.append(['m_attr_values', f['secs'], cv])
        f['alt_slot'] = len(reqs2)
        m = 2 ** (8 * f['asz'])
        for pre, tbl in a[4]:
            reqs2.append(['enc_addr', f['le'], f['asz'], [(x * 7 + 0x1111) % m for x in tbl]])
        files.append(f)
    ans2 = drv.batch(reqs2)
    reqs3 = []
    for f in files:
        mvals = ans2[f['attr_slot']:f['attr_slot'] + len(f['cuviews'])]
        f['obs'] = []
        for ci, cu in enumerate(f['cus']):
            if cu['version'] < 5 or mvals[ci][0] != 'ok':
                continue
            for di_, d in enumerate(cu['meta']):
                for ai, (name, form, raw, tgt) in enumerate(d):
                    if tgt is None or tgt[0] not in ('list', 'sub'):
                        continue
                    op = 'm_get_rng' if name == 'DW_AT_ranges' else 'm_get_loc'
                    f['obs'].append((ci, di_, name, tgt, len(reqs3)))
                    reqs3.append([op, f['secs'], 5, mvals[ci][1][di_][ai], _cuinfo(f, ci)])
    ans3 = drv.batch(reqs3)
    for a, f in zip(cases, files):
        le, asz = f['le'], f['asz']
        alt = None
        if a[4] and len(repr(a[:8])) % 3:      # two cases in three: the lists' file has an address table of its own
            alt = b''.join(pre + enc for (pre, tbl), enc in zip(a[4], ans2[f['alt_slot']:f['alt_slot'] + len(a[4])]))
        info, abbrev, cu_offs = B.build_info(le, [{'version': c['version'], 'is64': c['is64'], 'asz': c['asz'], 'dies': c['bdies']}
                                                  for c in f['cus']])
        sec = dict(loc=f['bytes']['loc'], ranges=f['bytes']['ranges'], loclists=f['bytes']['loclists'],
                   rnglists=f['bytes']['rnglists'])
        spec, model, impl = [], [], []

        def setup():
            unit_file = B.make_dwarfinfo(le, asz, dict(sec, info=info, abbrev=abbrev, addr=f['bytes']['addr']),
                                         opener=_open, kinds=f['kinds'])
            lists_file = B.make_dwarfinfo(le, asz, dict(sec, addr=alt), opener=_open, kinds=f['kinds'])
            return list(unit_file.iter_CUs()), lists_file.location_lists(), lists_file.range_lists()
        r = impl_call(setup)
        for ci, di_, name, tgt, slot in f['obs']:
            want = _designated(f, tgt)
            n0 = len(spec)
            if name == 'DW_AT_ranges':
                spec += [['get_range_list_at_offset', _ok(want)], ['translate_v5_entry', _ok(want)]]
                model += [['get_range_list_at_offset', ans3[slot]], ['translate_v5_entry', ans3[slot]]]
            else:
                spec.append(['parse_from_attribute', _ok(want)])
                model.append(['parse_from_attribute', ans3[slot]])
            if _is_err(r):
                impl += [[lab, r] for lab, _ in spec[n0:]]
                continue
            cus, ll, rl = r

            def die_attr():
                it = cus[ci].iter_DIEs()
                die = None
                for _ in range(di_ + 1):
                    die = next(it)
                return die, die.attributes[name]
            da = impl_call(die_attr)
            if _is_err(da):
                impl += [[lab, da] for lab, _ in spec[n0:]]
            elif name == 'DW_AT_ranges':
                impl.append(['get_range_list_at_offset', c_tups(impl_call(rl.get_range_list_at_offset, da[1].value, cus[ci]))])
                impl.append(['translate_v5_entry', c_tups(impl_call(
                    lambda: [rl.translate_v5_entry(e, cus[ci]) for e in rl.get_range_list_at_offset_ex(da[1].value)]))])
            else:
                impl.append(['parse_from_attribute',
                             c_tups(impl_call(LocationParser(ll).parse_from_attribute, da[1], 5, da[0]))])
        _drop()
        key = 'split/ok'
        for (lab, iv), (_, sv) in zip(impl, spec):
            if iv != sv:
                key = 'split/' + lab
                break
        ctx.bump('kind', 'split-' + ('other-table' if alt is not None else 'no-table'))
        for k_ in f['kinds']:
            ctx.bump('stream_kind', k_)
        ctx.record('split', a, impl=impl, spec=spec, model=model, in_domain=f['wf'],
                   nontrivial=bool(f['obs']), key=key)


# ---- classification sweep
def _eval_classify(ctx, cases):
    from elftools.dwarf.enums import ENUM_DW_AT, ENUM_DW_FORM
    from elftools.dwarf.die import AttributeValue
    from elftools.dwarf.locationlists import LocationParser, LocationExpr
    drv = ctx.driver
    names = [k for k in ENUM_DW_AT if k != '_default_']
    forms = [k for k in ENUM_DW_FORM if k != '_default_']

    class Probe:
        def get_location_list_at_offset(self, offset, die=None):
            return ['LIST', offset]
    parser = LocationParser(Probe())
    for a in cases:
        v = a[0]
        reqs = []
        for n in names:
            for fm in forms:
                reqs.append(['m_classify', n, fm, v])
                reqs.append(['std_classify', v, n, fm])
        ans = drv.batch(reqs)
        impl, spec, model = [], [], []
        k = 0
        demanded = 0
        for n in names:
            for fm in forms:
                m, std = ans[k], ans[k + 1]
                k += 2
                attr = AttributeValue(name=n, form=fm, value=77, raw_value=77, offset=0, indirection_length=0)
                has = impl_call(LocationParser.attribute_has_location, attr, v)
                ex = impl_call(LocationParser._attribute_has_loc_expr, attr, v)
                ls = impl_call(LocationParser._attribute_has_loc_list, attr, v)
                r = impl_call(parser.parse_from_attribute, attr, v, None)
                cls = 1 if isinstance(r, LocationExpr) else 2 if r == ['LIST', 77] else 0 if r == ['err', 'ValueError'] else r
                iv = [int(has) if isinstance(has, bool) else has, cls]
                mv = [m[0], m[3]]
                if std != 'none':
                    demanded += 1
                    sv = [int(std[1] != 0), std[1]]
                else:
                    sv = mv
                # the raw predicates are compared with the model only (they are not the property's subject
                # outside the location class)
                if [int(x) if isinstance(x, bool) else x for x in (ex, ls)] != [m[1], m[2]]:
                    iv = iv + ['raw-predicates', ex, ls]
                if iv != sv or mv != sv:
                    impl.append([n, fm, iv])
                    spec.append([n, fm, sv])
                    model.append([n, fm, mv])
        ctx.bump('kind', 'classify')
        ctx.bump('classify-demanded', demanded)
        ctx.record('classify', a, impl=impl, spec=spec, model=model, in_domain=True, nontrivial=demanded > 0,
                   key='classify/attribute_has_location')
