#!/bin/sh
# build helper for the C07 files: make the given targets with their dependencies
cd /verif && /venv/bin/python -c "
import sys; sys.path.insert(0,'.')
from tools.lib import framework as F
ok,out=F.step_make(sys.argv[1:])
print(out[-3500:] if not ok else 'OK')
" "$@"
