"""C14 correspondence: notes and stabs.
An abstract note extent (list of notes with every free padding byte chosen by the generator) is
encoded by the Coq spec (Spec/C14Notes.v encode_notes), placed by this harness into a minimal
synthesized ELF file (ELF header, one PT_NOTE program header, sections: null, .note (SHT_NOTE),
.stab, .shstrtab) and read back through the REAL NoteSection.iter_notes and NoteSegment.iter_notes
of ELFFile(BytesIO).  model = extracted Model/C14Notes.v over the same image (it decodes the
section / program header itself), spec = expected_notes.  Same for StabSection.iter_stabs.
The program header and the .note / .stab section headers are the bytes of the Coq encoders
encode_phdr / encode_shdr; every field of them that does not locate the extent (sh_flags, sh_addr,
sh_link, sh_info, sh_addralign, sh_entsize; p_flags, p_vaddr, p_paddr, p_memsz, p_align) is drawn
by the generator: the theorems C14_stabs_file_exact / C14_notes_file_exact quantify over them.
Every generator is observed twice on the same ELFFile: consumed at once, and consumed one yield at a
time while a consumer drawn by the generator uses the stream before each next() (seeks, data() of
other sections, header re-reads, another note / stab walk in lock step).  The model carries the
stream cursor; it is run under the cursor positions recorded at each resumption (theorems
C14_notes_cursor_free / C14_stabs_cursor_free: the yields do not depend on them).
Kind 'multi': one ELFFile with several adjacent note sections and the PT_NOTE spanning them; the views
are walked in drawn orders on that one object and each is compared with its own extent (theorems
C14_sub_extent_exact / C14_spanning_extent_concat)."""
import io, struct
from tools.lib.framework import impl_call
from tools.lib.streams import Streams, draw_kind, KINDS
from tools.lib.sx import canon as sx_canon

CLAIMED = True
CONFIG = {'assumptions': ['names are compared as latin-1 bytes (bytes2str); build ids as the ASCII hex text',
                          'the ELF container around the extent is assembled by the harness (C01 covers its decoding); the program '
                          'header and the .note/.stab section headers are bytes of the Coq encoders',
                          'sh_flags never carries SHF_COMPRESSED (Section.__init__ would read a compression header: C-other)',
                          'in a core file the kind of a descriptor is taken from n_type alone (the code ignores the owner)'],
          'trusted_extra': ['harness ELF assembler tools/harness/c14.py mk_elf (container only; the note/stab bytes '
                            'come from the Coq encoders)']}
LEVEL = {'text': 'Machine-checked theorems for unbounded inputs: iterating any well-formed note extent (any number of '
                 'notes, every name/descriptor size and residue mod 4, empty fields, header-only final note, arbitrary '
                 'padding bytes, any surrounding bytes, both classes/byte orders, ET_CORE or not) yields exactly the '
                 'encoded notes with offsets and padded sizes and consumes the whole extent; section view = segment '
                 'view; the six known descriptor kinds (GNU ABI tag, build id, gold version, GNU property list with '
                 'class-dependent padding, NT_PRPSINFO, NT_FILE) decode to their encoded fields; stab tables enumerate '
                 'exactly their 12-byte records whatever sh_entsize says (the section / program header fields other '
                 'than offset and size are universally quantified in the file-level theorems); the model carries the '
                 'stream cursor and the yields are proved independent of where the consumer leaves it between two '
                 'yields (every read of a step is absolute or follows a seek of the same step); roundup (body regenerated from the live function) is the least multiple of 2^b above n. '
                 'The hand model is pinned to the code by the differential correspondence through real '
                 'NoteSection/NoteSegment/StabSection objects.',
         'design_ref': '4.14', 'technique': 'Coq proof (generic layout round trip, induction over the note list) + '
                                            'extracted-model correspondence',
         'note': 'Trusted: Coq kernel, translator tools/gen/gen_c14.py + gen_elf_layouts.py, ExtrOcamlBasic extraction, '
                 'harness. No axioms. The loop guard defect (header-only final note dropped) was repaired in /repo '
                 '(fix: commit) and the model mirrors the repaired code.'}

RULE = ('cases: abstract note extents drawn from the seeded PRNG (0..8 notes; names absent/empty/1..9 bytes/GNU/CORE; '
        'descriptor sizes 0..40; a sweep of all (namesz mod 4, descsz mod 4) residues incl. 0 sizes, one and two notes, '
        'header-only final notes; unknown owners and types; both classes and byte orders; e_type CORE vs REL/EXEC/DYN/'
        'NONE/raw; machines with 16-bit and 32-bit uid; known descriptors: ABI tag, build id, gold version, property '
        'lists of 0..6 properties of every kind with garbage padding (also x86/AArch64 bit-mask types declaring 0, 8, 12... '
        'bytes, followed by further properties), NT_PRPSINFO, NT_FILE), every free padding byte '
        'non-zero garbage; extent placed mid-file or at EOF at a random (unaligned) offset; every header field that does '
        'not locate the extent is drawn (typical / 0 / 1 / maximum / random of the field width): sh_flags (without '
        'SHF_COMPRESSED), sh_addr, sh_link, sh_info, sh_addralign, sh_entsize, p_flags, p_vaddr, p_paddr, p_memsz, '
        'p_align; the image is presented to the library as a drawn stream kind (tools/lib/streams.py: BytesIO, buffered file '
        'fresh / warm / at EOF / 16-byte buffer, mmap, gzip stream, stream with an unrelated fileno; every kind on every entry '
        'point incl. a 150-400 entry NT_FILE whose name table crosses the 8192-byte read-ahead buffer); name fields with counted bytes after the first NUL (Go: Go NUL NUL, n_namesz 4); owner FDO / type '
        '0xcafe1a7e notes with JSON, Latin-1, invalid UTF-8 and empty payloads; one file with 2-3 adjacent note sections (also empty ones) under one spanning PT_NOTE, the views walked on the '
        'same ELFFile in drawn orders with repetitions (section first / segment first / shuffled) and in lock step, each '
        'compared with its own extent; note tables and a stab table longer than 64 KiB (one big descriptor crossing the '
        'boundary, 40 notes of ~1.7 KB, ~2800 small notes, 5500-6000 stab records; on the two long walks the model is run in the '
        'thorough tier only, impl vs spec always); stab records with n_type N_UNDF (unit headers, any n_desc) anywhere in the table; each walk is also consumed one yield at a time under a drawn consumer schedule (cyclic list of: seek '
        'to a header / extent / EOF / past-EOF position, data() of .stab/.note/.shstrtab, section header re-read, a '
        'second walk of the other view one note ahead or of the stab table in lock step); stab tables of 0..20 records, and every count 0..5 under sh_entsize 0, 12, 20, 1, 6, 24, 13, the '
        'table size, one more, the maximum; '
        'roundup on boundary values; a malformed stream (truncated extents, unterminated names, random bytes) outside '
        'the domain. distinct = hash(kind, abstract); non-trivial = >=2 notes, or a size with residue != 0 mod 4, or an '
        'empty field, or a known descriptor kind, or >=2 stabs')

ET = {'ET_NONE': 0, 'ET_REL': 1, 'ET_EXEC': 2, 'ET_DYN': 3, 'ET_CORE': 4, 'raw': 0x1234}
EM = {'EM_386': 3, 'EM_X86_64': 62, 'EM_ARM': 40, 'EM_SPARC': 2, 'EM_68K': 4, 'EM_S390': 22, 'EM_SH': 42,
      'EM_AARCH64': 183, 'EM_MIPS': 8, 'EM_PPC': 20, 'EM_RISCV': 243, 'raw': 0xfeed}
WORD_PROPS = [0xc0000002, 0xc0008002, 0xc0010001, 0xc0010002, 0xc0000000]
NT_FILE = 0x46494c45
NT_FDO = 0xcafe1a7e      # FDO_PACKAGING_METADATA: a vendor note like any other for this property (raw descriptor)
FINAL_NOTE_KEY = 'final-header-only-note-dropped'
ODD_WORD_PROP_KEY = 'gnu-property-word-type-odd-size'


# ----------------------------------------------------------------------------- ELF container
SHF_COMPRESSED = 0x800
DEFAULT_SHF = [0, 0, 0, 0, 1, 0]        # sh_flags sh_addr sh_link sh_info sh_addralign sh_entsize
DEFAULT_PHF = [4, 0, 0, 'filesz', 4]    # p_flags p_vaddr p_paddr p_memsz p_align


def _hdrs(layout):
    """layout = [pre_pad, eof] (replays older than the header sweep) or [pre_pad, eof, shf, phf]"""
    if len(layout) >= 4:
        return layout[0], layout[1], list(layout[2]), list(layout[3])
    return layout[0], layout[1], DEFAULT_SHF, DEFAULT_PHF


def _kind(layout):
    """the stream kind the image is presented as (tools/lib/streams.py KINDS)"""
    return layout[5] if len(layout) >= 6 else 'bytesio'


def _sched(layout):
    """the consumer's schedule: the op performed on the stream before each next() (cyclic); [] = none"""
    return list(layout[4]) if len(layout) >= 5 else []


def plan(is64, nlens, slen, pre_pad, eof):
    """where everything goes; nlens = the sizes of the adjacent note sections (the segment spans them all):
    dict(phoff, shoff, note_off, note_offs, stab_off, str_off, total, k)"""
    ehsize, phentsize, shentsize = (64, 56, 64) if is64 else (52, 32, 40)
    k = len(nlens)
    off = ehsize + phentsize
    d = dict(phoff=ehsize, shentsize=shentsize, k=k)
    def notes_at(off):
        d['note_off'] = off
        d['note_offs'] = []
        for n in nlens:
            d['note_offs'].append(off)
            off += n
        return off
    if eof:
        # headers and the other sections first, the note extent last (ends at EOF)
        d['str_off'] = off; off += len(SHSTR)
        d['shoff'] = off; off += (3 + k) * shentsize
        d['stab_off'] = off; off += slen
        off += pre_pad
        off = notes_at(off)
    else:
        off += pre_pad
        off = notes_at(off)
        d['stab_off'] = off; off += slen
        d['str_off'] = off; off += len(SHSTR)
        d['shoff'] = off; off += (3 + k) * shentsize
    d['total'] = off
    return d


SHSTR = b'\0.note\0.stab\0.shstrtab\0.note.1\0.note.2\0'
NOTE_NAMES = [('.note', 1), ('.note.1', 23), ('.note.2', 31)]       # section name, offset in SHSTR


def shdr_fields(name, typ, off, size, shf):
    """the ten fields in gABI order, for the Coq encoder (Spec/C14Notes.v encode_shdr)"""
    flags, addr, link, info, addralign, entsize = shf
    return [name, typ, flags, addr, off, size, link, info, addralign, entsize]


def phdr_fields(off, size, phf):
    flags, vaddr, paddr, memsz, align = phf
    return [4, flags, off, vaddr, paddr, size, size if memsz == 'filesz' else memsz, align]


def mk_elf(le, is64, e_type, e_machine, notes, stab, pre_pad, eof, pl, ph, sh_notes, sh_stab):
    """ELF header, null and .shstrtab section headers are packed here; the program header and the
    note / .stab section headers (sections: null, the k adjacent note sections, .stab, .shstrtab) are the
    bytes of the Coq encoders (every field drawn by the generator)"""
    E = '<' if le else '>'
    ehsize, phentsize, shentsize = (64, 56, 64) if is64 else (52, 32, 40)
    k = pl['k']
    ident = b'\x7fELF' + bytes([2 if is64 else 1, 1 if le else 2, 1, 0, 0]) + b'\0' * 7
    if is64:
        eh = ident + struct.pack(E + 'HHIQQQIHHHHHH', e_type, e_machine, 1, 0, pl['phoff'], pl['shoff'], 0, ehsize, phentsize, 1, shentsize, 3 + k, 2 + k)
        def sh(name, typ, o, sz):
            return struct.pack(E + 'IIQQQQIIQQ', name, typ, 0, 0, o, sz, 0, 0, 1, 0)
    else:
        eh = ident + struct.pack(E + 'HHIIIIIHHHHHH', e_type, e_machine, 1, 0, pl['phoff'], pl['shoff'], 0, ehsize, phentsize, 1, shentsize, 3 + k, 2 + k)
        def sh(name, typ, o, sz):
            return struct.pack(E + 'IIIIIIIIII', name, typ, 0, 0, o, sz, 0, 0, 1, 0)
    assert len(ph) == phentsize and len(sh_notes) == k and all(len(x) == shentsize for x in sh_notes) and len(sh_stab) == shentsize
    shs = sh(0, 0, 0, 0) + b''.join(sh_notes) + sh_stab + sh(13, 3, pl['str_off'], len(SHSTR))
    filler = bytes((0xa5 + i) & 0xff or 1 for i in range(pre_pad))
    if eof:
        img = eh + ph + SHSTR + shs + stab + filler + notes
    else:
        img = eh + ph + filler + notes + stab + SHSTR + shs
    assert len(img) == pl['total']
    return img


# ----------------------------------------------------------------------------- generators
def _garbage(rng, n):
    return bytes(rng.randint(1, 255) for _ in range(n))


def _bytes(rng, n):
    return bytes(rng.getrandbits(8) for _ in range(n))


def _pad(m, n):
    return (-n) % m


def _gen_prop(rng, is64):
    native = 8 if is64 else 4
    r = rng.random()
    if r < 0.2:
        p = ['stack', rng.choice([0, 1, 2 ** (8 * native) - 1, rng.getrandbits(8 * native)])]
        dsz = native
    elif r < 0.5:
        p = ['word', rng.choice(WORD_PROPS), rng.choice([0, 1, 3, 2 ** 32 - 1, rng.getrandbits(32)])]
        dsz = 4
    elif r < 0.6:
        p = ['raw', 2, b'']                       # GNU_PROPERTY_NO_COPY_ON_PROTECTED
        dsz = 0
    elif r < 0.68:
        dsz = rng.choice([0, 1, 2, 3, 5, 12] + [8 if not is64 else 4])     # stack size of a foreign width: raw
        p = ['raw', 1, _bytes(rng, dsz)]
    elif r < 0.78:
        # a bit-mask type that declares a size other than the ABI's 4: the list is framed by pr_datasz, the
        # data are those bytes, and the properties after it must be found where the stride says
        dsz = rng.choice([0, 0, 8, 8, 12, 1, 3, 5, 16])
        p = ['raw', rng.choice(WORD_PROPS), _bytes(rng, dsz)]
    else:
        dsz = rng.choice([0, 1, 2, 3, 4, 5, 6, 7, 8, 9, 13, 16])
        ty = rng.choice([0, 3, 4, 0xc0000001, 0xc0000003, 0xb0000000, rng.getrandbits(32)])
        if ty in WORD_PROPS or (ty == 1 and dsz == native):
            ty = 7
        p = ['raw', ty, _bytes(rng, dsz)]
    return [p, _garbage(rng, _pad(8 if is64 else 4, dsz))]


def _gen_prps(rng, is64, half):
    native = 8 if is64 else 4
    ug = 2 if half else 4
    def u(n):
        return rng.choice([0, 1, 2 ** (8 * n) - 1, rng.getrandbits(8 * n)])
    vals = [u(1), _bytes(rng, 1), u(1), u(1)]
    if is64:
        vals.append(_garbage(rng, 4))
    vals += [u(native), u(ug), u(ug), u(4), u(4), u(4), u(4), _bytes(rng, 16), _bytes(rng, 80)]
    return vals


def _gen_file(rng, is64, n=None):
    native = 8 if is64 else 4
    if n is None:
        n = rng.choice([0, 1, 1, 2, 3, 5])
    def u():
        return rng.choice([0, 1, 2 ** (8 * native) - 1, rng.getrandbits(8 * native)])
    entries = [[u(), u(), u()] for _ in range(n)]
    names = [_garbage(rng, rng.choice([0, 1, 5, 17, 30] if n < 50 else [9, 17, 30, 41, 70])) for _ in range(n)]
    return ['file', rng.choice([1, 4096, u()]), entries, names]


HALF_MACHINES = {'EM_SPARC', 'EM_386', 'EM_68K', 'EM_S390', 'EM_ARM', 'EM_SH'}


def _gen_note(rng, cfgd, name=None, dlen=None, force_type=None):
    """cfgd = (le, is64, etname, emname).  Mirrors the spec's kind table only to PICK a descriptor of the
    right kind; whether the note is in the domain is decided by the Coq wf_notes."""
    le, is64, etname, emname = cfgd
    core = etname == 'ET_CORE'
    if name is None:
        r = rng.random()
        if r < 0.12:
            name = 'none'
        elif r < 0.2:
            name = b''
        elif r < 0.45:
            name = b'GNU'
        elif r < 0.55:
            name = b'CORE'
        elif r < 0.6:
            name = b'FDO'                # .note.package (systemd package metadata): no descriptor kind of its own
        else:
            name = _garbage(rng, rng.choice([1, 2, 3, 4, 5, 6, 7, 8, 9]))
    if force_type is not None:
        ty = force_type
    else:
        ty = rng.choice([0, 1, 2, 3, 4, 5, 6, 7, 3, 5, 1, NT_FILE, 0x53494749, rng.getrandbits(32), 2 ** 32 - 1, NT_FDO])
        if name == b'FDO' and rng.random() < 0.7:
            ty = NT_FDO
    # bytes after the terminating NUL that n_namesz still counts (Go writes b"Go\0\0" with n_namesz 4): anything,
    # NULs included; the owner is the string up to the first NUL
    extra = b''
    if name != 'none' and rng.random() < 0.15:
        extra = rng.choice([b'\0', b'\0\0', b'\0\0\0', b'x', b'x\0', _bytes(rng, rng.choice([1, 2, 3, 4, 5, 8]))])
    namesz = 0 if name == 'none' else len(name) + 1 + len(extra)
    kind = 'raw'
    if core:
        if ty == 3:
            kind = 'prps'
        elif ty == NT_FILE:
            kind = 'file'
    elif name == b'GNU':
        kind = {1: 'abi', 3: 'build', 4: 'gold', 5: 'props'}.get(ty, 'raw')
    if dlen is None:
        dlen = rng.choice([0, 0, 1, 2, 3, 4, 5, 6, 7, 8, 11, 16, 20, 33, 40])
    if kind == 'raw':
        desc = ['raw', _bytes(rng, dlen)]
    elif kind == 'abi':
        desc = ['abi', rng.choice([0, 1, 2, 3, 4, 5, 6, 0xffffffff]), rng.getrandbits(8), rng.getrandbits(16), rng.getrandbits(32)]
    elif kind == 'build':
        desc = ['build', _bytes(rng, dlen if dlen else rng.choice([0, 8, 16, 20]))]
    elif kind == 'gold':
        desc = ['gold', _garbage(rng, dlen) + rng.choice([b'', b'\0'])]
    elif kind == 'props':
        desc = ['props', [_gen_prop(rng, is64) for _ in range(rng.choice([0, 1, 1, 2, 3, 4, 6]))]]
    elif kind == 'prps':
        desc = ['prps', _gen_prps(rng, is64, (not is64) and emname in HALF_MACHINES)]
    else:
        desc = _gen_file(rng, is64)
    # the abstract object is self-contained: the generator computes the size of its own descriptor to
    # choose the padding bytes
    dsz = _desc_len(desc, is64, (not is64) and emname in HALF_MACHINES)
    note = [name, _garbage(rng, _pad(4, namesz)), ty, desc, _garbage(rng, _pad(4, dsz))]
    return note + [extra] if extra else note


def _desc_len(desc, is64, half):
    native = 8 if is64 else 4
    k = desc[0]
    if k in ('raw', 'build', 'gold'):
        return len(desc[1])
    if k == 'abi':
        return 16
    if k == 'props':
        n = 0
        for p, pad in desc[1]:
            d = native if p[0] == 'stack' else 4 if p[0] == 'word' else len(p[2])
            n += 8 + d + len(pad)
        return n
    if k == 'prps':
        return 136 if is64 else (128 - (4 if half else 0))
    if k == 'file':
        return 2 * native + 3 * native * len(desc[2]) + sum(len(x) + 1 for x in desc[3])
    raise ValueError(k)


def _cfgs():
    out = []
    for le in (True, False):
        for is64 in (True, False):
            out.append((le, is64))
    return out


def gen(ctx):
    rng = ctx.rng
    cases = []
    T = ctx.scale(1, 12)

    def cfg_pick():
        le = rng.random() < 0.5
        is64 = rng.random() < 0.5
        et = rng.choice(['ET_CORE', 'ET_CORE', 'ET_DYN', 'ET_EXEC', 'ET_REL', 'ET_NONE', 'raw', 'ET_DYN'])
        em = rng.choice(list(EM))
        return [le, is64, et, em]

    def word(bits, *typical):
        """a header field of the given width: typical values, 0, 1, the maximum, a random one"""
        r = rng.random()
        if r < 0.45 and typical:
            return rng.choice(typical)
        if r < 0.6:
            return rng.choice([0, 1, 2 ** bits - 1, 2 ** (bits - 1)])
        if r < 0.8:
            return rng.getrandbits(rng.choice([4, 8, 16]))
        return rng.getrandbits(bits)

    def shf_pick(is64, entsizes):
        """the section header fields that do not locate the bytes, all drawn: sh_flags (any but
        SHF_COMPRESSED), sh_addr, sh_link, sh_info, sh_addralign, sh_entsize"""
        n = 64 if is64 else 32
        return [word(n, 0, 2, 3, 0x32) & ~SHF_COMPRESSED, word(n, 0, 0x400000), word(32, 0, 1, 2, 3, 4, 0xffff),
                word(32, 0, 1, 2, 3, 4), word(n, 0, 1, 4, 8, 16, 3), word(n, *entsizes)]

    def phf_pick(is64):
        """p_flags, p_vaddr, p_paddr, p_memsz ('filesz' = equal to p_filesz), p_align"""
        n = 64 if is64 else 32
        return [word(32, 4, 6, 7), word(n, 0, 0x400000), word(n, 0, 0x400000),
                'filesz' if rng.random() < 0.5 else word(n, 0, 12, 0x1000), word(n, 0, 1, 4, 8, 16, 0x1000, 3)]

    NOTE_ENTSIZES = (0, 0, 4, 12, 1)
    STAB_ENTSIZES = (0, 12, 20, 1, 24, 8, 13, 36)      # GNU as: 12 (ELF32), 20 (x86-64); others leave 0

    def sched_pick(stabs=False):
        """what the consumer does with the stream before each next() of the stepwise walk (cyclic): seek anywhere
        (inside the headers, inside the extent, at / past EOF), read another section's data, re-read a section
        header + name, advance another walk over the same file in lock step"""
        ops = []
        for _ in range(rng.choice([1, 1, 2, 3, 4])):
            r = rng.random()
            if r < 0.3:
                ops.append(['seek', rng.choice([0, 1, 11, 12, 13, 52, 64, rng.randint(0, 400), rng.randint(0, 4000), 'end', 'end+5'])])
            elif r < 0.5:
                ops.append(['data', rng.choice(['.stab', '.note', '.shstrtab'])])
            elif r < 0.6:
                ops.append(['header', rng.randint(0, 3)])
            elif r < 0.8:
                ops.append(['other'])
            elif r < 0.95:
                ops.append(['note'] if stabs else ['stab'])
            else:
                ops.append(['none'])
        return ops

    def layout_pick(is64, entsizes=NOTE_ENTSIZES):
        return [rng.choice([0, 0, 1, 2, 3, 4, 5, 7]), rng.random() < 0.3, shf_pick(is64, entsizes), phf_pick(is64),
                sched_pick(entsizes is STAB_ENTSIZES), draw_kind(rng)]

    def cfgd(c):
        return (c[0], c[1], c[2], c[3])

    # --- fixed corpus: the known defect and the smallest extents
    for le, is64 in _cfgs():
        for et in ('ET_DYN', 'ET_CORE'):
            c = [le, is64, et, 'EM_X86_64' if is64 else 'EM_386']
            cases.append(('notes', [c, [], [0, False]]))
            cases.append(('notes', [c, [['none', b'', 9, ['raw', b''], b'']], [0, False]]))
            cases.append(('notes', [c, [['none', b'', 9, ['raw', b''], b'']], [3, True]]))
            cases.append(('notes', [c, [[b'AB', b'\x55', 7, ['raw', b'xyz'], b'\x66'], ['none', b'', 0, ['raw', b''], b'']], [0, False]]))
            # the same extent under headers that claim 8-byte / 1-byte / absurd alignment and entry sizes
            top = 2 ** (64 if is64 else 32) - 1
            for shf, phf in (([2, 0x400000, 0, 0, 8, 0], [4, 0x400000, 0x400000, 'filesz', 8]),
                             ([0, 0, 3, 2, 1, 12], [7, 0, 0, 0, 1]),
                             ([top & ~SHF_COMPRESSED, top, 2 ** 32 - 1, 2 ** 32 - 1, top, top], [2 ** 32 - 1, top, top, top, top]),
                             ([0, 0, 0, 0, 0, 1], [0, 0, 0, 1, 0])):
                cases.append(('notes', [c, [[b'AB', b'\x55', 7, ['raw', b'xyz'], b'\x66'], [b'GNU', b'', 0x100, ['raw', b'12345'], b'\x77\x78\x79']],
                                        [2, False, shf, phf]]))
    # --- the consumer's reads between yields: every kind of op alone, on a three-note extent and a four-record table
    for le, is64 in _cfgs():
        c = [le, is64, 'ET_DYN', 'EM_X86_64' if is64 else 'EM_386']
        three = [[b'AB', b'\x55', 7, ['raw', b'xyz'], b'\x66'], [b'GNU', b'', 3, ['build', b'\x01\x02\x03\x04\x05'], b'\x77\x78\x79'],
                 ['none', b'', 9, ['raw', b'\x09\x08'], b'\x01\x01']]
        four = [[i, 0x24 + i, i, 0x100 + i, 0x8048000 + i] for i in range(4)]
        for op in (['seek', 0], ['seek', 7], ['seek', 'end'], ['seek', 'end+5'], ['data', '.stab'], ['data', '.note'],
                   ['data', '.shstrtab'], ['header', 1], ['other'], ['stab'], ['note'], ['none']):
            cases.append(('notes', [c, three, [1, False, DEFAULT_SHF, DEFAULT_PHF, [op]]]))
            cases.append(('stabs', [c, four, [1, False, DEFAULT_SHF, DEFAULT_PHF, [op]]]))
    # --- every stream kind (tools/lib/streams.py) on every entry point: a GNU/unknown extent, a core extent with
    #     NT_PRPSINFO + NT_FILE (construct reads the file names straight from the stream), a stab table; plus a
    #     process-sized NT_FILE (150..400 mappings: the name table crosses the 8192-byte read-ahead buffer of a file)
    for j, sk in enumerate(KINDS):
        le, is64 = _cfgs()[j % 4]
        c = [le, is64, 'ET_DYN', rng.choice(list(EM))]
        cc = [le, is64, 'ET_CORE', rng.choice(list(EM))]
        lay = lambda sched: [rng.choice([0, 1, 5]), rng.random() < 0.5, DEFAULT_SHF, DEFAULT_PHF, sched, sk]
        cases.append(('notes', [c, [_gen_note(rng, cfgd(c), name=b'GNU', force_type=t) for t in (5, 3, 1)] + [_gen_note(rng, cfgd(c))],
                                lay([['data', '.stab'], ['other']])]))
        cases.append(('notes', [cc, [_gen_note(rng, cfgd(cc), name=b'CORE', force_type=3), _gen_note(rng, cfgd(cc), name=b'CORE', force_type=NT_FILE),
                                     _gen_note(rng, cfgd(cc))], lay([['seek', 3], ['stab']])]))
        big = _gen_file(rng, is64, rng.randint(150, 400))
        dsz = _desc_len(big, is64, False)
        cases.append(('notes', [cc, [_gen_note(rng, cfgd(cc), name=b'CORE', force_type=1, dlen=rng.choice([20, 148, 336])),
                                     [b'CORE', b'\x21\x22\x23', NT_FILE, big, _garbage(rng, _pad(4, dsz))],
                                     _gen_note(rng, cfgd(cc))], lay([['none'], ['data', '.shstrtab']])]))
        cases.append(('stabs', [c, [[i, 0x24 + i, i, 0x100 + i, 0x8048000 + i] for i in range(7)], lay([['seek', 0], ['data', '.note'], ['other']])]))
        secs = [[_gen_note(rng, cfgd(c)) for _ in range(2)] for _ in range(2)]
        cases.append(('multi', [c, secs, lay([]), [0, 'seg', 1, 'seg']]))
    # --- name fields with bytes after the first NUL inside n_namesz: the Go toolchain's b"Go\0\0" (n_namesz 4), GNU
    #     with counted padding (still GNU: the descriptor is decoded), counted garbage with further NULs
    for le, is64 in _cfgs():
        c = [le, is64, 'ET_EXEC', 'EM_X86_64' if is64 else 'EM_386']
        go = [b'Go', b'', 4, ['raw', b'go-build-id/xyz'], b'\x31', b'\0']
        gnu = [b'GNU', b'', 3, ['build', b'\xde\xad\xbe\xef\x01'], b'\x41\x42\x43', b'\0\0\0\0']
        odd = [b'A', b'\x51', 0x77, ['raw', b'12'], b'\x52\x53', b'zz\0y\0']
        empty = [b'', b'\x61', 0x78, ['raw', b''], b'', b'\0\0']
        cases.append(('notes', [c, [go, gnu, odd, empty, _gen_note(rng, cfgd(c))], layout_pick(is64)]))
        cases.append(('notes', [c, [go], [0, False]]))
    # --- vendor notes that look like text: owner FDO / type 0xcafe1a7e (.note.package) and that type under other owners;
    #     the descriptor is arbitrary bytes (JSON with NUL padding, Latin-1, invalid UTF-8, empty) and is yielded as such
    for j, payload in enumerate([b'{"type":"rpm","name":"pkg","version":"1.2-3"}\0\0\0', b'{"maintainer":"Ren\xe9"}\0', b'\xff\xfe\x00\x80',
                                 b'', b'\0\0\0\0', b'{"os":"fedora"}', '{"n":"\u00e9\u4e2d"}'.encode('utf-8') + b'\0']):
        for owner in (b'FDO', b'GNU', b'fdo', 'none'):
            le, is64 = _cfgs()[(j + len(owner)) % 4]
            c = [le, is64, rng.choice(['ET_DYN', 'ET_EXEC', 'ET_CORE', 'ET_REL']), rng.choice(list(EM))]
            nsz = 0 if owner == 'none' else len(owner) + 1
            n = [owner, _garbage(rng, _pad(4, nsz)), NT_FDO, ['raw', payload], _garbage(rng, _pad(4, len(payload)))]
            cases.append(('notes', [c, [_gen_note(rng, cfgd(c)), n, _gen_note(rng, cfgd(c))], layout_pick(is64)]))
    # --- residue sweep: every (namesz, descsz) in 0..8 x 0..8, as the only note, the first of two, the last of two
    for ns in range(0, 9):
        for ds in range(0, 9):
            c = cfg_pick()
            name = 'none' if ns == 0 else _garbage(rng, ns - 1)
            # owners of the sweep are unknown so that the descriptor stays raw (GNU would need 3 bytes of garbage = 'GNU')
            if name == b'GNU':
                name = b'GNV'
            ty = rng.choice([0, 2, 6, 7, 0x1000, 2 ** 32 - 1])
            n1 = [name, _garbage(rng, _pad(4, ns)), ty, ['raw', _bytes(rng, ds)], _garbage(rng, _pad(4, ds))]
            other = _gen_note(rng, cfgd(c))
            cases.append(('notes', [c, [n1], layout_pick(c[1])]))
            cases.append(('notes', [c, [n1, other], layout_pick(c[1])]))
            cases.append(('notes', [c, [other, n1], layout_pick(c[1])]))
    # --- random extents
    for _ in range(500 * T):
        c = cfg_pick()
        k = rng.choice([0, 1, 1, 2, 2, 3, 4, 5, 6, 8])
        notes = [_gen_note(rng, cfgd(c)) for _ in range(k)]
        if notes and rng.random() < 0.25:
            notes.append(['none', b'', rng.choice([0, 6, 7, 2 ** 32 - 1]), ['raw', b''], b''])   # header-only final note
        cases.append(('notes', [c, notes, layout_pick(c[1])]))
    # --- every known descriptor kind, all four class/order combinations
    for le, is64 in _cfgs():
        for _ in range(12 * T):
            for ty in (1, 3, 4, 5):
                c = [le, is64, rng.choice(['ET_DYN', 'ET_EXEC', 'ET_REL', 'raw']), rng.choice(list(EM))]
                n = _gen_note(rng, cfgd(c), name=b'GNU', force_type=ty)
                extra = [_gen_note(rng, cfgd(c)) for _ in range(rng.choice([0, 1, 2]))]
                cases.append(('notes', [c, [n] + extra if rng.random() < 0.5 else extra + [n], layout_pick(c[1])]))
            for ty in (3, NT_FILE):
                c = [le, is64, 'ET_CORE', rng.choice(list(EM))]
                n = _gen_note(rng, cfgd(c), name=rng.choice([b'CORE', b'CORE', b'LINUX', 'none']), force_type=ty)
                extra = [_gen_note(rng, cfgd(c)) for _ in range(rng.choice([0, 1, 2]))]
                cases.append(('notes', [c, [n] + extra if rng.random() < 0.5 else extra + [n], layout_pick(c[1])]))
    # --- one file, several adjacent note sections under one spanning PT_NOTE (the usual linker layout: the segment
    #     starts where the first section starts and is larger); the views are walked on the SAME ELFFile in a
    #     drawn order with repetitions, each compared with its own extent
    for j in range(40 * T):
        le, is64 = _cfgs()[j % 4]
        c = [le, is64, rng.choice(['ET_CORE', 'ET_DYN', 'ET_EXEC', 'ET_DYN']), rng.choice(list(EM))]
        k = rng.choice([2, 2, 3])
        secs = [[_gen_note(rng, cfgd(c)) for _ in range(rng.choice([0, 1, 1, 2, 3] if j % 5 == 4 else [1, 1, 2, 3]))] for _ in range(k)]
        views = ['seg'] + list(range(k))
        if j % 4 == 0:
            order = [0, 'seg']                  # first section, then the segment that starts at the same offset
        elif j % 4 == 1:
            order = ['seg', 0]
        else:
            order = views[:]
            rng.shuffle(order)
        order += [rng.choice(views) for _ in range(rng.choice([1, 2, 3]))]
        if j % 4 >= 2:
            order = order + [v for v in views if v not in order]
        lay = layout_pick(is64)
        lay[4] = []
        cases.append(('multi', [c, secs, lay, order]))
    # --- tables longer than 64 KiB (block-wise readers): one big-descriptor table and one many-notes table
    for j in range(ctx.scale(1, 2)):
        c = cfg_pick()
        def rawnote(dlen):
            nm = _garbage(rng, rng.choice([1, 3, 4, 6]))
            return [nm, _garbage(rng, _pad(4, len(nm) + 1)), 0x4000 + dlen % 7, ['raw', _bytes(rng, dlen)], _garbage(rng, _pad(4, dlen))]
        big = [rawnote(rng.choice([40001, 39998])), rawnote(rng.choice([25531, 25600])), rawnote(5), _gen_note(rng, cfgd(c)), rawnote(0)]
        cases.append(('notes', [c, big, [rng.choice([0, 3]), j % 2 == 1, DEFAULT_SHF, DEFAULT_PHF, [['seek', 0x10000], ['data', '.stab']], 'file_warm']]))
        c = cfg_pick()
        mid = [rawnote(rng.choice([1699, 1700, 1701, 1702, 2047])) for _ in range(40)]       # the 64 KiB boundary falls inside a descriptor
        cases.append(('notes', [c, mid, [rng.choice([0, 1]), False, DEFAULT_SHF, DEFAULT_PHF, [['seek', 0x10000 - 2], ['other']], rng.choice(['file', 'mmap', 'decoy_fd'])]]))
        c = cfg_pick()
        many = [rawnote(rng.choice([0, 1, 2, 3, 4, 5, 8, 13])) for _ in range(rng.randint(2700, 2900))]
        cases.append(('notes', [c, many, [rng.choice([0, 1]), False, DEFAULT_SHF, DEFAULT_PHF, [['seek', 0x10000 - 2], ['other']], 'file']]))
    # --- large names / descriptors
    for _ in range(6 * T):
        c = cfg_pick()
        big = [_garbage(rng, rng.choice([63, 64, 65, 200])), b'', 0x77, ['raw', _bytes(rng, rng.choice([255, 256, 257, 1000]))], b'']
        big[1] = _garbage(rng, _pad(4, len(big[0]) + 1))
        big[4] = _garbage(rng, _pad(4, len(big[3][1])))
        if c[2] == 'ET_CORE':
            big[2] = 0x78
        cases.append(('notes', [c, [big, _gen_note(rng, cfgd(c))], layout_pick(c[1])]))
    # --- stabs: the header's sh_entsize (and sh_link, sh_info, sh_addralign, sh_flags, sh_addr) are free
    def stab_pick():
        # n_type 0 is N_UNDF: the per-compilation-unit header whose n_desc counts that unit's stabs (any number of
        # units per table, so n_desc says nothing about the table); 0x24 N_FUN, 0x64 N_SO, 0x84 N_SOL, 0x44 N_SLINE
        return [rng.choice([0, 1, 2 ** 32 - 1, rng.getrandbits(32)]),
                rng.choice([0, 0, 0x24, 0x64, 0x84, 0x44, 0xff, rng.getrandbits(8), rng.getrandbits(8)]), rng.getrandbits(8),
                rng.choice([0, 1, 2, 3, 0xffff, rng.getrandbits(16), rng.getrandbits(4)]), rng.choice([0, 2 ** 32 - 1, rng.getrandbits(32)])]
    for le, is64 in _cfgs():
        top = 2 ** (64 if is64 else 32) - 1
        # every record count 0..5 under every notable entry size (0, the record size, GNU as's 20 for
        # x86-64, 1, a divisor, a non-divisor, the table size, one more, the maximum)
        for k in range(0, 6):
            for ent in (0, 12, 20, 1, 6, 24, 13, 12 * k, 12 * k + 1, top):
                c = [le, is64, rng.choice(['ET_REL', 'ET_EXEC', 'ET_DYN']), rng.choice(list(EM))]
                shf = shf_pick(is64, STAB_ENTSIZES)
                shf[5] = ent
                cases.append(('stabs', [c, [stab_pick() for _ in range(k)], [rng.choice([0, 1, 3]), rng.random() < 0.3, shf, DEFAULT_PHF, sched_pick(True), draw_kind(rng)]]))
        for k in [0, 1, 2, 3, 20] + [rng.randint(0, 12) for _ in range(6 * T)]:
            c = [le, is64, rng.choice(['ET_REL', 'ET_EXEC', 'ET_DYN', 'ET_CORE', 'raw']), rng.choice(list(EM))]
            cases.append(('stabs', [c, [stab_pick() for _ in range(k)], layout_pick(is64, STAB_ENTSIZES)]))
    # a table longer than 64 KiB: more than 5461 records (0x10000 is not a multiple of 12)
    for j in range(ctx.scale(1, 2)):
        le, is64 = _cfgs()[(j + rng.randint(0, 3)) % 4]
        c = [le, is64, 'ET_REL', rng.choice(list(EM))]
        cases.append(('stabs', [c, [stab_pick() for _ in range(rng.randint(5500, 6000))],
                                [rng.choice([0, 1, 3]), j % 2 == 1, shf_pick(is64, STAB_ENTSIZES), DEFAULT_PHF, [['seek', 0x10000], ['other']], rng.choice(['file', 'file_warm', 'decoy_fd'])]]))
    # --- roundup
    for b in (0, 1, 2, 3, 4, 12):
        for n in [0, 1, 2, 3, 4, 5, 7, 8, 9, 15, 16, 17, 4095, 4096, 4097, 2 ** 32 - 1, 2 ** 32, 2 ** 64 - 3] + \
                 [rng.getrandbits(rng.choice([4, 12, 33])) for _ in range(6)]:
            cases.append(('roundup', [n, b]))
    # --- malformed stream (outside the property's domain; model drift only)
    for _ in range(60 * T):
        c = cfg_pick()
        notes = [_gen_note(rng, cfgd(c)) for _ in range(rng.choice([1, 2, 3]))]
        how = rng.choice(['cut', 'nonul', 'random', 'bigdesc', 'bigname'])
        cases.append(('malformed', [c, notes, layout_pick(c[1]), how, rng.getrandbits(30)]))
    return cases


# ----------------------------------------------------------------------------- observing the implementation
def _enum(v):
    return v if isinstance(v, (str, int)) else repr(v)


def _dview(d):
    from elftools.construct.lib.container import Container
    if isinstance(d, (bytes, bytearray)):
        return ['bytes', bytes(d)]
    if isinstance(d, str):
        return ['text', d.encode('latin-1')]
    if isinstance(d, list):
        out = []
        for p in d:
            data = p['pr_data']
            out.append([_enum(p['pr_type']), p['pr_datasz'], bytes(data) if isinstance(data, (bytes, bytearray)) else data])
        return ['props', out]
    if isinstance(d, Container):
        keys = list(dict(d).keys())
        if 'abi_os' in keys:
            return ['abi', _enum(d['abi_os']), d['abi_major'], d['abi_minor'], d['abi_tiny']]
        if 'num_map_entries' in keys:
            return ['file', d['num_map_entries'], d['page_size'],
                    [[e['vm_start'], e['vm_end'], e['page_offset']] for e in d['Elf_Nt_File_Entry']],
                    [bytes(x) for x in d['filename']]]
        return ['rec', [[k, (bytes(v) if isinstance(v, (bytes, bytearray)) else v)] for k, v in dict(d).items()]]
    return ['unexpected', repr(d)]


def _onote(n):
    name = n['n_name']
    return [('none' if name is None else ['some', name.encode('latin-1')]), _enum(n['n_type']), bytes(n['n_descdata']),
            _dview(n['n_desc']), n['n_offset'], n['n_size'], n['n_namesz'], n['n_descsz']]


def _collect(it, conv):
    out = []
    try:
        for x in it:
            out.append(conv(x))
    except Exception as e:      # noqa: a generator that raises has yielded a prefix
        return [out, ['err', type(e).__name__]]
    return [out, 'none']


def _stab(s):
    return [[[k, s[k]] for k in ('n_strx', 'n_type', 'n_other', 'n_desc', 'n_value')], s['n_offset']]


_S = None       # the Streams() of the running evaluate()


def _open(img, kind='bytesio'):
    """ELFFile over the image presented as the drawn stream kind (tools/lib/streams.py: same bytes)"""
    from elftools.elf.elffile import ELFFile
    return ELFFile(_S.open(img, kind) if _S is not None else io.BytesIO(img))


def _cfg_of_file(f):
    et = f.header['e_type']
    em = f.header['e_machine']
    return [f.little_endian, f.elfclass == 64, et if isinstance(et, str) else '<raw>', em if isinstance(em, str) else '<raw>']


class _Walker:
    """another generator over the same stream that the consumer advances between two yields of the walk
    under observation; restarted when exhausted, its own failures ignored"""
    def __init__(self, make, ahead=0):
        self.make = make
        self.it = make()
        for _ in range(ahead):
            self.step()

    def step(self):
        try:
            next(self.it)
        except StopIteration:
            self.it = self.make()
        except Exception:       # noqa: a broken helper walk is not the observation
            self.it = self.make()


def _consumer_op(f, op, walkers):
    """what a consumer may do with the file between two yields; every one of them moves the stream cursor"""
    k = op[0]
    if k == 'seek':
        p = op[1]
        f.stream.seek(0, 2)
        size = f.stream.tell()
        if isinstance(p, str):          # 'end', 'end+5'
            p = size + (int(p[4:]) if len(p) > 3 else 0)
        if type(f.stream).__name__ == 'mmap':
            p = min(p, size)            # an mmap refuses to seek past its end: not something a consumer can do
        f.stream.seek(p)
    elif k == 'data':
        f.get_section_by_name(op[1]).data()
    elif k == 'header':
        f.get_section(op[1] % 4)        # re-reads section header and name
    elif k in walkers:
        walkers[k].step()


def _stepwise(f, it, conv, sched, walkers):
    """consume the generator one yield at a time; before every next() the consumer performs the next op of
    the schedule (cyclically).  Returns the observation and the cursor positions at each resumption."""
    out, tells, i = [], [], 0
    while True:
        try:
            if sched:
                _consumer_op(f, sched[i % len(sched)], walkers)
            tells.append(f.stream.tell())
        except Exception as e:      # noqa
            return [out, ['err', 'consumer-' + type(e).__name__]], tells
        try:
            x = next(it)
        except StopIteration:
            return [out, 'none'], tells
        except Exception as e:      # noqa: a generator that raises has yielded a prefix
            return [out, ['err', type(e).__name__]], tells
        out.append(conv(x))
        i += 1


def _impl_notes(img, sched=(), kind='bytesio'):
    """the two views consumed list()-style, then each consumed step by step under the schedule on the same
    ELFFile; -> (observations, cfg, cursor schedules of the two stepwise walks)"""
    from elftools.elf.sections import NoteSection
    from elftools.elf.segments import NoteSegment
    f = _open(img, kind)
    sec = f.get_section_by_name('.note')
    seg = next(f.iter_segments())
    stab = f.get_section_by_name('.stab')
    assert isinstance(sec, NoteSection) and isinstance(seg, NoteSegment)
    obs = [_collect(sec.iter_notes(), _onote), _collect(seg.iter_notes(), _onote)]
    tells = []
    for view, other in ((sec, seg), (seg, sec)):
        # 'other': the other view of the extent walked in lock step, one note ahead; 'stab': the stab table
        walkers = {'other': _Walker(other.iter_notes, ahead=1), 'stab': _Walker(stab.iter_stabs)}
        o, t = _stepwise(f, view.iter_notes(), _onote, list(sched), walkers)
        obs.append(o)
        tells.append(t)
    return obs, _cfg_of_file(f), tells


def _impl_multi(img, k, order, kind='bytesio'):
    """ONE ELFFile with k adjacent note sections and the segment spanning them: the views are walked in the
    given order (repetitions allowed), then the segment and the first section (same start, different size) in
    lock step.  -> (observations, cursor schedules of the two lock-step walks)"""
    from elftools.elf.sections import NoteSection
    from elftools.elf.segments import NoteSegment
    f = _open(img, kind)
    secs = [f.get_section_by_name(n) for n, _ in NOTE_NAMES[:k]]
    seg = next(f.iter_segments())
    assert all(isinstance(x, NoteSection) for x in secs) and isinstance(seg, NoteSegment)
    obs = [_collect((seg if v == 'seg' else secs[v]).iter_notes(), _onote) for v in order]
    tells = []
    for view, other in ((seg, secs[0]), (secs[0], seg)):
        o, t = _stepwise(f, view.iter_notes(), _onote, [['other']], {'other': _Walker(other.iter_notes)})
        obs.append(o)
        tells.append(t)
    return obs, tells


def _impl_stabs(img, sched=(), kind='bytesio'):
    from elftools.elf.sections import StabSection
    f = _open(img, kind)
    sec = f.get_section_by_name('.stab')
    note = f.get_section_by_name('.note')
    assert isinstance(sec, StabSection)
    obs = [_collect(sec.iter_stabs(), _stab)]
    walkers = {'other': _Walker(sec.iter_stabs, ahead=1), 'stab': _Walker(sec.iter_stabs, ahead=2), 'note': _Walker(note.iter_notes)}
    o, t = _stepwise(f, sec.iter_stabs(), _stab, list(sched), walkers)
    return obs + [o], t


def _bucket(v):
    return v if v in (0, 1, 2, 3, 4, 8, 12, 16) else 'small' if v < 0x10000 else 'large'


def _nontrivial(notes):
    if len(notes) >= 2:
        return True
    for name, npad, ty, desc, dpad in (n[:5] for n in notes):
        if name == 'none' or desc[0] != 'raw' or npad or dpad or len(desc[1]) == 0:
            return True
    return False


def _odd_word_prop(notes):
    """a GNU property list holding a bit-mask type with a size other than 4 (the repaired Elf_Prop defect)"""
    return any(desc[0] == 'props' and any(p[0] == 'raw' and p[1] in WORD_PROPS for p, _ in desc[1]) for desc in (n[3] for n in notes))


def _final_header_only(notes):
    return bool(notes) and notes[-1][0] == 'none' and notes[-1][3][0] in ('raw', 'build', 'gold') and len(notes[-1][3][1]) == 0


def _mangle(rng_seed, how, ext, le):
    """malformed stream: returns (extent bytes, declared size)"""
    import random
    r = random.Random(rng_seed)
    E = '<' if le else '>'
    if how == 'cut' and len(ext) > 1:
        k = r.randrange(1, len(ext))
        return ext, k
    if how == 'nonul' and len(ext) >= 16:
        # first note: name field of 4 bytes without terminator
        return struct.pack(E + 'III', 4, 0, 0x42) + b'ABCD' + ext, len(ext) + 16
    if how == 'bigdesc':
        return struct.pack(E + 'III', 0, r.choice([0x100, 0xffffffff, len(ext) + 1]), 7) + ext, len(ext) + 12
    if how == 'bigname':
        return struct.pack(E + 'III', r.choice([0x100, 0xffffffff, len(ext) + 1]), 0, 7) + ext, len(ext) + 12
    n = r.choice([1, 11, 12, 13, 24, 40])
    b = bytes(r.getrandbits(8) if r.random() < 0.4 else 0 for _ in range(n))
    return b, n


def evaluate(ctx, cases):
    global _S
    _S = Streams('pv-c14-')
    try:
        _evaluate(ctx, cases)
    finally:
        _S.close()
        _S = None


def _evaluate(ctx, cases):
    from elftools.common.utils import roundup
    drv = ctx.driver
    # the model's view of the header is what ELFFile reports; precompute the symbolic cfg for the driver
    def dcfg(c):
        return [c[0], c[1], c[2] if c[2] != 'raw' else '<raw>', c[3] if c[3] != 'raw' else '<raw>']

    # ---- pass 1: encode through the Coq spec, ask for the domain check
    reqs = []
    for kind, a in cases:
        if kind in ('notes', 'malformed'):
            reqs.append(['enc_notes', dcfg(a[0]), a[1]])
            reqs.append(['wf_notes', dcfg(a[0]), a[1]])
        elif kind == 'multi':
            allnotes = [n for sec in a[1] for n in sec]
            reqs.append(['enc_notes', dcfg(a[0]), allnotes])
            reqs.append(['wf_notes', dcfg(a[0]), allnotes])
        elif kind == 'stabs':
            reqs.append(['enc_stabs', a[0][0], a[1]])
            reqs.append(['wf_stabs', a[0][0], a[1]])
        else:
            reqs.append(['pad_to', 2 ** a[1], a[0]])
            reqs.append(['roundup', a[0], a[1]])
    ans = drv.batch(reqs)
    # the sizes of the sections of a multi-section table: each section encoded on its own
    reqs = [['enc_notes', dcfg(a[0]), sec] for kind, a in cases if kind == 'multi' for sec in a[1]]
    sec_enc = iter(drv.batch(reqs) if reqs else [])
    # ---- pass 2: place everything, encode the headers that describe the extents through the Coq spec
    plans = []
    reqs = []
    for i, (kind, a) in enumerate(cases):
        enc = ans[2 * i]
        if kind == 'roundup':
            plans.append(None)
            continue
        c = a[0]
        pre_pad, eof, shf, phf = _hdrs(a[2])
        if kind == 'notes':
            nlist, sbytes = [enc], b'\x11' * 12
        elif kind == 'multi':
            nlist, sbytes = [next(sec_enc) for _ in a[1]], b'\x11' * 12
            assert b''.join(nlist) == enc
        elif kind == 'malformed':
            ext, size = _mangle(a[4], a[3], enc, c[0])
            nlist, sbytes = [ext[:size]], b'\x11' * 12
        else:
            nlist, sbytes = [b''], enc
        nbytes = b''.join(nlist)
        pl = plan(c[1], [len(x) for x in nlist], len(sbytes), pre_pad, eof)
        stab_hdr = kind == 'stabs'
        h_notes = [shdr_fields(NOTE_NAMES[j][1], 7, pl['note_offs'][j], len(nlist[j]), DEFAULT_SHF if stab_hdr else shf)
                   for j in range(len(nlist))]
        h_stab = shdr_fields(7, 1, pl['stab_off'], len(sbytes), shf if stab_hdr else DEFAULT_SHF)
        h_seg = phdr_fields(pl['note_off'], len(nbytes), phf)
        plans.append((pl, nbytes, sbytes, pre_pad, eof, shf, phf))
        reqs += [['enc_phdr', c[0], c[1], h_seg], ['wf_phdr', c[0], c[1], h_seg]]
        for h in h_notes + [h_stab]:
            reqs += [['enc_shdr', c[0], c[1], h], ['wf_shdr', c[0], c[1], h]]
    hans = drv.batch(reqs)
    # ---- pass 3: assemble images, observe the implementation (this gives the cursor schedules of the stepwise
    #      walks), then ask the model under the same schedules and the expected observations
    work = []
    reqs = []
    hpos = 0
    def ok(x):          # ['ok', result] -> result
        return x[1] if isinstance(x, list) and x and x[0] == 'ok' else x
    for i, (kind, a) in enumerate(cases):
        enc, wf = ans[2 * i], ans[2 * i + 1]
        if kind == 'roundup':
            work.append(dict(n=0, pad=enc, model=wf))
            continue
        c = a[0]
        pl, nbytes, sbytes, pre_pad, eof, shf, phf = plans[i]
        k = pl['k']
        hh = hans[hpos:hpos + 2 * (k + 2)]
        hpos += 2 * (k + 2)
        ph_b, shn_b, shs_b = hh[0], [hh[2 + 2 * j] for j in range(k)], hh[2 + 2 * k]
        wf_h = all(bool(x) for x in hh[1::2])
        img = mk_elf(c[0], c[1], ET[c[2]], EM[c[3]], nbytes, sbytes, pre_pad, eof, pl, ph_b, shn_b, shs_b)
        phoff, sh_note, sh_stab = pl['phoff'], pl['shoff'] + pl['shentsize'], pl['shoff'] + (1 + k) * pl['shentsize']
        sched = _sched(a[2])
        skind = _kind(a[2])
        # the extracted model re-walks the image list from its head at every read (lists have no random access):
        # a walk of n steps over an image of m bytes costs ~10 n m.  On the few long tables (> 64 KiB, thousands
        # of records) it is run in the thorough tier only, and once per view (under the recorded cursor schedule;
        # by C14_notes_cursor_free / C14_stabs_cursor_free the walk under any other schedule is the same value).
        # impl is compared with spec in every tier.
        heavy = kind in ('notes', 'stabs') and len(a[1]) * len(img) > 30_000_000
        run_model = not heavy or ctx.tier == 'thorough'
        if kind in ('notes', 'malformed'):
            got = impl_call(_impl_notes, img, sched, skind)
            _S.drop_files()
            # (the header names ELFFile reports are expected to be the generator's; if an enum edit in /repo makes
            #  them differ, impl is compared with the spec for the generator's configuration and fails there)
            impl, tells = (got[0], got[2]) if isinstance(got, tuple) else (got, [[], []])
            w = dict(img=img, impl=impl, sched=sched, shf=shf, phf=phf, heavy=heavy, run_model=run_model)
            if not heavy:
                reqs += [['section_notes', dcfg(c), img, sh_note, []], ['segment_notes', dcfg(c), img, phoff, []]]
            if run_model:
                reqs += [['section_notes', dcfg(c), img, sh_note, tells[0]], ['segment_notes', dcfg(c), img, phoff, tells[1]]]
            nm = (0 if heavy else 2) + (2 if run_model else 0)
            if kind == 'notes':
                w.update(wf=bool(wf) and wf_h, n=nm + 1, nm=nm)
                reqs.append(['expected', dcfg(c), pl['note_off'], a[1]])
            else:
                w.update(n=nm, nm=nm)
            work.append(w)
        elif kind == 'multi':
            order = list(a[3])
            got = impl_call(_impl_multi, img, k, order, skind)
            _S.drop_files()
            impl, tells = got if isinstance(got, tuple) else (got, [[], []])
            allnotes = [n for sec in a[1] for n in sec]
            views = [(v, []) for v in order] + [('seg', tells[0]), (0, tells[1])]
            for v, adv in views:        # model, then spec: each view against its OWN extent
                if v == 'seg':
                    reqs.append(['segment_notes', dcfg(c), img, phoff, adv])
                else:
                    reqs.append(['section_notes', dcfg(c), img, sh_note + v * pl['shentsize'], adv])
            for v, adv in views:
                if v == 'seg':
                    reqs.append(['expected', dcfg(c), pl['note_off'], allnotes])
                else:
                    reqs.append(['expected', dcfg(c), pl['note_offs'][v], a[1][v]])
            work.append(dict(img=img, impl=impl, sched=[], wf=bool(wf) and wf_h, n=2 * len(views), nv=len(views)))
        else:
            got = impl_call(_impl_stabs, img, sched, skind)
            _S.drop_files()
            impl, tells = got if isinstance(got, tuple) else (got, [])
            nm = (0 if heavy else 1) + (1 if run_model else 0)
            work.append(dict(img=img, impl=impl, sched=sched, wf=bool(wf) and wf_h, n=nm + 1, nm=nm, shf=shf, heavy=heavy, run_model=run_model))
            if not heavy:
                reqs.append(['section_stabs', dcfg(c), img, sh_stab, []])
            if run_model:
                reqs.append(['section_stabs', dcfg(c), img, sh_stab, tells])
            reqs.append(['expected_stabs', c[0], pl['stab_off'], a[1]])
    ans2 = drv.batch(reqs)
    pos = 0
    for (kind, a), w in zip(cases, work):
        r = ans2[pos:pos + w['n']]
        pos += w['n']
        ctx.bump('kind', kind)
        if kind != 'roundup':
            ctx.bump('stream_kind', _kind(a[2]))
            ctx.bump('stream_kind_' + kind, _kind(a[2]))
        if kind not in ('roundup', 'multi'):
            for op in (w['sched'] or [['none']]):
                ctx.bump('consumer_op_' + kind, op[0] if op[0] != 'data' else 'data ' + op[1])
        if kind == 'multi':
            nv = w['nv']
            model = [ok(x) for x in r[:nv]]
            spec = r[nv:]
            ctx.bump('multi_sections', len(a[1]))
            ctx.bump('multi_first_view', str(a[3][0]))
            ctx.bump('multi_empty_section', any(len(x) == 0 for x in a[1]))
            odd = sx_canon(w['impl']) != sx_canon(spec) and any(_odd_word_prop(sec) for sec in a[1])
            ctx.record(kind, a, impl=w['impl'], spec=spec, model=model, in_domain=w['wf'],
                       nontrivial=len(a[1]) >= 2 and len(set(map(str, a[3]))) >= 2,
                       key=ODD_WORD_PROP_KEY if odd else 'notes-adjacent-extents')
            continue
        if kind == 'notes':
            c, notes = a[0], a[1]
            eof = a[2][1]
            impl = w['impl']
            m = [ok(x) for x in r[:w['nm']]]
            model = m if not w['heavy'] else (m + m if w['run_model'] else None)
            spec = [r[w['nm']]] * 4
            ctx.bump('model_run', 'yes' if model is not None else 'no (long table, quick tier)')
            ctx.bump('extent_size', '>64KiB' if len(w['img']) > 0x10000 else '<=64KiB')
            ctx.bump('notes_per_extent', len(notes) if len(notes) < 6 else '6+')
            ctx.bump('cfg', '%s%d%s' % ('LE' if c[0] else 'BE', 64 if c[1] else 32, '-core' if c[2] == 'ET_CORE' else ''))
            ctx.bump('placement', 'eof' if eof else 'mid')
            ctx.bump('note_sh_addralign', _bucket(w['shf'][4]))
            ctx.bump('note_p_align', _bucket(w['phf'][4]))
            ctx.bump('note_sh_entsize', _bucket(w['shf'][5]))
            ctx.bump('note_sh_link', _bucket(w['shf'][2]))
            ctx.bump('note_sh_info', _bucket(w['shf'][3]))
            ctx.bump('note_p_memsz', 'filesz' if w['phf'][3] == 'filesz' else _bucket(w['phf'][3]))
            for _n in notes:
                name, npad, ty, desc, dpad = _n[:5]
                ctx.bump('namesz_mod4', (0 if name == 'none' else len(name) + 1 + (len(_n[5]) if len(_n) > 5 else 0)) % 4)
                ctx.bump('name_field', 'absent' if name == 'none' else 'name NUL' if len(_n) < 6 else
                         'name NUL NUL..' if not _n[5].strip(b'\0') else 'name NUL bytes')
                ctx.bump('desc_kind', desc[0])
                if desc[0] == 'raw':
                    ctx.bump('descsz_mod4', len(desc[1]) % 4)
                if desc[0] == 'props':
                    ctx.bump('props_per_list', len(desc[1]) if len(desc[1]) < 4 else '4+')
            key = 'notes'
            if isinstance(impl, list) and len(impl) == 4 and sx_canon(impl[:2]) == sx_canon(spec[:2]) and sx_canon(impl) != sx_canon(spec):
                key = 'notes-interleaved'       # right when consumed at once, wrong when the consumer reads in between
            if sx_canon(impl) != sx_canon(spec) and _odd_word_prop(notes):
                key = ODD_WORD_PROP_KEY
            if _final_header_only(notes) and isinstance(impl, list) and isinstance(spec[0], list):
                # the signature of the (repaired) loop-guard defect: everything right except that the last note is missing
                dropped = [[v[0][:-1], v[1]] for v in spec]
                if sx_canon(impl) == sx_canon(dropped):
                    key = FINAL_NOTE_KEY
            ctx.record(kind, a, impl=impl, spec=spec, model=model, in_domain=w['wf'], nontrivial=_nontrivial(notes), key=key)
        elif kind == 'malformed':
            impl = w['impl']
            model = [ok(x) for x in r[:4]]
            ctx.bump('malformed', a[3])
            ctx.record(kind, a, impl=impl, spec=model, model=model, in_domain=False, nontrivial=True, key='malformed')
        elif kind == 'stabs':
            impl = w['impl']
            m = [ok(x) for x in r[:w['nm']]]
            model = m if not w['heavy'] else (m + m if w['run_model'] else None)
            spec = [r[w['nm']]] * 2
            ctx.bump('model_run', 'yes' if model is not None else 'no (long table, quick tier)')
            key = 'stabs'
            if isinstance(impl, list) and len(impl) == 2 and sx_canon(impl[0]) == sx_canon(spec[0]) and sx_canon(impl) != sx_canon(spec):
                key = 'stabs-interleaved'
            ctx.bump('stabs_per_table', len(a[1]) if len(a[1]) < 6 else '6+' if len(a[1]) <= 5461 else '>64KiB')
            ent = w['shf'][5]
            ctx.bump('stab_sh_entsize', ent if ent in (0, 1, 12, 20) else 'divides' if ent and (12 * len(a[1])) % ent == 0
                     else 'above-size' if ent > 12 * len(a[1]) else 'other')
            ctx.bump('stab_sh_link', _bucket(w['shf'][2]))
            ctx.bump('stab_sh_info', _bucket(w['shf'][3]))
            ctx.bump('stab_sh_addralign', _bucket(w['shf'][4]))
            ctx.record(kind, a, impl=impl, spec=spec, model=model, in_domain=w['wf'], nontrivial=len(a[1]) >= 2, key=key)
        else:
            n, b = a
            impl = impl_call(roundup, n, b)
            ctx.record(kind, a, impl=impl, spec=n + w['pad'], model=w['model'], in_domain=True, nontrivial=n % (2 ** b) != 0,
                       key='roundup')
