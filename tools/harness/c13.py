"""C13 correspondence: .debug_aranges lookup, .debug_pubnames/.debug_pubtypes tables, unit lookup.
bytes/spec/model = extracted Spec/C13Spec.v and Model/C13*.v; impl = a DWARFInfo built over BytesIO
sections (get_aranges / get_pubnames / get_pubtypes / get_CU_containing / get_CU_at /
get_DIE_from_lut_entry)."""
import io, itertools
from tools.lib.framework import impl_call

CLAIMED = True
CONFIG = {'assumptions': [
    'the library runs under CPython\'s default recursion limit (1000)',
    'sections are handed to DWARFInfo as BytesIO streams with size = len(bytes)',
    'names are valid UTF-8; the library decodes them, the comparison re-encodes them',
    'zero-length address tuples count as conflicting with a range they start in (Spec ranges_conflict)',
    'offset-exact unit lookups are asked only at offsets where a unit starts (get_CU_at is documented as unvalidated)',
    'DIE construction (die.py) is a parameter of the model; the harness uses attribute-less abbreviations so a DIE is its ULEB128 code']}
LEVEL = {'text': 'Machine-checked theorems over unbounded inputs: .debug_aranges round trip (any number of sets, address size 4/8 in any '
                 'mixture with every set starting wherever the previous one ends - header padding counted from the set start, '
                 'free padding/trailing bytes, both byte orders) and cu_offset_at_addr = Some o iff a tuple with unit offset o '
                 'contains the address, for pairwise non-conflicting ranges in any order (stable sort, real halving bisect, Python '
                 'index -1); name tables (dict = first-occurrence order, last binding wins, distinct names = encoded list, headers in '
                 'order); get_CU_containing/get_CU_at/get_DIE_from_lut_entry answer the stateless spec from every cache state reachable '
                 'by any history of valid lookups (invariant over the bisect-maintained parallel lists). The hand model is pinned to the '
                 'code by a boundary-address, all-offsets, random-order correspondence.',
         'design_ref': '4.13', 'technique': 'Coq proof (induction, cache invariant lifted over histories) + extracted-model correspondence',
         'note': 'Trusted: Coq kernel, ExtrOcamlBasic extraction, harness. No axioms. Modelled not verified: construct Struct/If/CString '
                 'machinery, bisect module (modelled as the halving loop), list.sort (modelled as insertion sort, proved to be THE stable '
                 'sorted rearrangement), dict ordering. DIE parsing is abstracted (C04).'}

RULE = ('cases: (aranges) Coq-encoded tables of 0..6 sets, address size 4/8 mixed, three layouts: packed (each set starts where the '
        'previous one ends, so 8-byte sets start at non-multiples of 16 after 4-byte sets), ragged (1..7 garbage bytes inside unit_length '
        'after the terminator: odd set starts), aligned (what producers emit); globally pairwise-disjoint ranges dealt to sets in '
        'random order with adjacent pairs, gaps, empty sets, garbage padding/trailing bytes, a range beginning at address 0 (first, '
        'middle, last or only tuple of its set) and zero-length tuples with non-zero address in gaps (neither is a terminator), ranges ending exactly at 2**32 / 2**64 or one '
        'byte short; queried at first byte-1, first byte, middle, '
        'last byte, one past, for EVERY tuple, plus below/above/gap addresses; (names) 0..5 sets of pubnames or pubtypes with ASCII, '
        'non-ASCII UTF-8 including names that are not in normal form C and NFC/NFD spellings of one name as two entries, empty and duplicate names, present and absent queries through [], get, iter, items, len, get_cu_headers; '
        '(units) 1..6 synthesized units (v2-v5, 32/64-bit, all six v5 unit types) queried at EVERY offset 0..size-1 in random order '
        'interleaved with get_CU_at at unit starts and get_DIE_from_lut_entry, plus all histories up to length 3 over six probes on a '
        'fixed 3-unit section, each followed by the full sweep; one (thorough: four) section of 1500..3000 equal minimal units queried cold '
        'at a high offset and the last byte, then downwards (walk depth); one (thorough: three) SPARSE real file with a unit starting at '
        'an offset >= 2**32 behind a stretched 64-bit-format unit, answers compared with the same two units placed low (metamorphic).  distinct = hash(kind, abstract); non-trivial = at least one '
        'tuple/name/two units, or an empty-table / error case')

K_EMPTY = 'cu_offset_at_addr-empty-table-IndexError'
K_PAD = 'aranges-header-padding-counted-from-section-start'


# --------------------------------------------------------------------------------------------- generators
def _garbage(rng, n):
    return bytes(rng.randint(1, 255) for _ in range(n))


def _gen_ranges(rng, n, bits, force0=False):
    """n pairwise non-conflicting (begin, length) tuples below 2**bits: random gaps, ~1/3 adjacent; the first range begins
    at address 0 in about a quarter of the tables (always with force0): (0, len > 0) is an ordinary tuple, only (0, 0)
    terminates a set.  About one tuple in eight is a zero-length tuple (begin != 0) standing in a gap or right at the end of
    the previous range: it contains no address, conflicts with nothing (Spec ranges_conflict) and is not a terminator."""
    out = []
    cur = 0 if force0 else rng.choice([0, 0, 0, 1, 8, 0x1000, rng.randrange(1, 2 ** (bits - 8))])
    for _ in range(n):
        if (out and rng.random() < 0.35) or (not out and (force0 or rng.random() < 0.6)):
            gap = 0
        else:
            gap = rng.choice([1, 2, 7, 0x10, rng.randint(1, 0x1000)])
        b = cur + gap
        if b != 0 and rng.random() < 0.125:
            out.append((b, 0))               # the next range must not contain b: it begins after b
            cur = b + 1
            continue
        ln = rng.choice([1, 1, 2, 3, 8, 0x10, rng.randint(1, 0x4000)])
        out.append((b, ln))
        cur = b + ln
    return [r for r in out if r[0] + r[1] < 2 ** bits]


LAYOUTS = ['packed', 'packed', 'ragged', 'aligned']


def _gen_aranges_sets(rng, nsets, layout=None, allow_big=True, zero_at=None, top=None):
    """layout: 'packed'  no byte after the terminator: every set starts where the previous one ends
               'ragged'  1..7 garbage bytes after some terminators (still inside unit_length): odd set starts
               'aligned' trailing bytes chosen so that every set starts at a multiple of its tuple size (producers)
       zero_at: 'first' | 'middle' | 'last' | 'only': the table has a range beginning at address 0 and that tuple is put at
               this position of a set with further tuples ('only': alone in its set)
       top: True / False / None (one table in four): ranges ending exactly at 2**32 / 2**64 (or one byte short)"""
    layout = layout or rng.choice(LAYOUTS)
    asz = [rng.choice([4, 8]) for _ in range(nsets)]
    bits = 32 if 4 in asz else rng.choice([32, 48, 64]) if allow_big else 32
    counts = [rng.choice([0, 0, 1, 1, 2, 3, 5]) for _ in range(nsets)]
    if zero_at:
        counts[rng.randrange(nsets)] += 3
    ranges = _gen_ranges(rng, sum(counts), bits, force0=bool(zero_at))
    zero = ranges[0] if zero_at else None
    if zero_at:
        ranges = ranges[1:]
        counts[counts.index(max(counts))] -= 1
    rng.shuffle(ranges)                      # unsorted, dealt to sets in random order
    sets = []
    pos = 0
    for i in range(nsets):
        tuples = ranges[pos:pos + counts[i]]
        pos += counts[i]
        tuples = [list(t) for t in tuples if not (t[0] == 0 and t[1] == 0)]
        sets.append([rng.choice([2, 2, 3, 4, 5, rng.randrange(65536)]), rng.randrange(2 ** 32) if rng.random() < 0.3 else rng.randrange(0x10000),
                     asz[i], _garbage(rng, 4), tuples, b''])
    if top is None:
        top = rng.random() < 0.25
    if top:
        # a range that ends exactly at the top of the address space of its set (2**32 in a 4-byte set, 2**64 in an 8-byte
        # set) or one byte short of it: begin + length is NOT reduced modulo the address width.  Every other range of the
        # table lies far below (< 2**(bits-8) + n * 0x5000), so the table stays conflict-free.
        for width in sorted({st[2] for st in sets}):
            if rng.random() < 0.8:
                st = rng.choice([x for x in sets if x[2] == width])
                ln = rng.choice([1, 2, 0x1000, 0x10000, rng.randint(1, 0x100000)])
                end = 2 ** (8 * width) - rng.choice([0, 0, 0, 1])
                st[4].insert(rng.randrange(len(st[4]) + 1), [end - ln, ln])
    if zero_at == 'only':
        empties = [st for st in sets if not st[4]]
        (rng.choice(empties) if empties else sets[0])[4][:] = [list(zero)]
    elif zero_at:
        st = max(sets, key=lambda x: len(x[4]))
        st[4].insert({'first': 0, 'middle': max(1, len(st[4]) // 2), 'last': len(st[4])}[zero_at], list(zero))
    return _layout(sets, rng, layout)


def _set_len(st):
    """bytes of an encoded set without its trailing bytes: unit_length field, 8 header bytes, 4 padding, tuples, terminator"""
    return 4 + 8 + 4 + 2 * st[2] * (len(st[4]) + 1)


def _layout(sets, rng, layout):
    """(re)compute the trailing bytes of every set for the given layout"""
    off = 0
    for i, st in enumerate(sets):
        end = off + _set_len(st)
        if layout == 'aligned':
            nts = 2 * sets[i + 1][2] if i + 1 < len(sets) else rng.choice([1, 8, 16])
            trail = (-end) % nts + nts * rng.choice([0, 0, 0, 1, 2])
        elif layout == 'ragged':
            trail = rng.choice([0, 1, 2, 3, 4, 5, 7])
        else:
            trail = 0
        st[5] = _garbage(rng, trail)
        off = end + trail
    return sets


def _off_grid(sets):
    """starts of the sets that do not begin at a multiple of their own tuple size (where padding counted from the
    section start and padding counted from the set start differ)"""
    return [o for o, st in zip(_set_starts(sets), sets) if st[2] in (4, 8) and o % (2 * st[2])]


def _set_starts(sets):
    out, off = [], 0
    for st in sets:
        out.append(off)
        off += _set_len(st) + len(st[5])
    return out


def _addresses_for(sets, rng):
    addrs = set()
    ends = []
    for st in sets:
        for b, ln in st[4]:
            addrs.update([b - 1, b, b + ln // 2, b + ln - 1, b + ln, b + ln + 1])
            ends.append(b + ln)
    allb = [b for st in sets for b, ln in st[4]]
    if allb:
        addrs.update([min(allb) - 1, min(allb) - 0x100, 0, max(ends), max(ends) + 0x1000, 2 ** 64 - 1, 2 ** 32])
    else:
        addrs.update([0, 1, 0x1000, 2 ** 32 - 1, 2 ** 64 - 1])
    return sorted(a for a in addrs if a >= 0)       # addresses are unsigned


def _gen_name(rng):
    k = rng.random()
    if k < 0.05:
        return b''
    if k < 0.6:
        return bytes(rng.choice(b'abcdefghijklmnopqrstuvwxyz_:<>0123456789') for _ in range(rng.randint(1, 12)))
    if k < 0.75:
        alphabet = ['é', 'ü', 'λ', '中', '文', '\U0001f600', 'x', 'Y', '_', 'Ж']
        return ''.join(rng.choice(alphabet) for _ in range(rng.randint(1, 6))).encode('utf-8')
    if k < 0.9:
        # valid UTF-8 that is NOT in Unicode normal form C (nor, for some, in any normal form): a name is the byte string
        # that was encoded, no normalisation: combining marks, singletons (ANGSTROM SIGN, OHM SIGN, compatibility
        # ideographs), conjoining jamo, marks in non-canonical order
        alphabet = ['e\u0301', 'u\u0308', 'A\u030a', '\u212b', '\u2126', '\uf900', '\ufa0c', '\u1100\u1161', 'q\u0323\u0307',
                    'q\u0307\u0323', '\u0041\u0300', '\u00c5', 'x', '_', 'é']
        return ''.join(rng.choice(alphabet) for _ in range(rng.randint(1, 4))).encode('utf-8')
    return bytes(rng.choice(b'ab') for _ in range(rng.randint(60, 140)))     # crosses CString chunking


def _normal_forms(nm):
    """the other spellings of a name: canonically (or compatibly) equivalent strings with DIFFERENT UTF-8 bytes;
    they are different names"""
    import unicodedata
    t = nm.decode('utf-8')
    return sorted({unicodedata.normalize(f, t).encode('utf-8') for f in ('NFC', 'NFD', 'NFKC', 'NFKD')} - {nm})


def _gen_name_sets(rng, nsets, dup=True):
    sets = []
    pool = []
    for _ in range(nsets):
        entries = []
        for _ in range(rng.choice([0, 0, 1, 2, 3, 6])):
            if dup and pool and rng.random() < 0.25:
                nm = rng.choice(pool)
            else:
                nm = _gen_name(rng)
            pool.append(nm)
            entries.append([rng.choice([1, 11, rng.randrange(1, 2 ** 16), rng.randrange(1, 2 ** 32)]), nm])
            other = _normal_forms(nm)
            if other and rng.random() < 0.4:      # an NFC / NFD pair in one table (same or a later set): two entries
                pool.append(rng.choice(other))
                if rng.random() < 0.5:
                    entries.append([rng.choice([2, 12, rng.randrange(1, 2 ** 16)]), pool[-1]])
        sets.append([rng.choice([2, 2, rng.randrange(65536)]), rng.choice([0, 0x20, rng.randrange(2 ** 32)]),
                     rng.randrange(2 ** 32), entries, _garbage(rng, rng.choice([0, 0, 1, 3, 4]))])
    return sets


ABBREV_CODES = [1, 2, 3, 200]


def _abbrev_section():
    """codes 1,2,3,200: no attributes, no children"""
    out = b''
    for code, tag in zip(ABBREV_CODES, [0x11, 0x2e, 0x34, 0x24]):
        out += (bytes([code]) if code < 128 else bytes([(code & 0x7f) | 0x80, code >> 7])) + bytes([tag, 0, 0, 0])
    return out + b'\x00'


def _junk_header(rng, le):
    """bytes that read like the header of a unit of an unsupported DWARF version (0, 1, 6, 9, 0xffff) with a plausible
    address size: an offset-exact lookup handed this offset fails in the version check, after the header has been parsed"""
    import struct
    e = '<' if le else '>'
    ver = rng.choice([0, 1, 6, 9, 0xffff])
    ln = rng.choice([7, 8, 20, 0x100])
    if ver >= 5:
        return struct.pack(e + 'IHBBI', ln, ver, rng.choice([1, 2, 3]), rng.choice([4, 8]), 0)
    return struct.pack(e + 'IHIB', ln, ver, 0, rng.choice([4, 8]))


def _gen_unit(rng, force=None, junk_le=None):
    """junk_le (a byte order): the DIE area is one DIE, then _junk_header bytes, then one more DIE"""
    is64 = rng.random() < 0.3
    version = rng.choice([2, 3, 4, 4, 5, 5])
    utype = rng.choice([1, 2, 3, 4, 5, 6]) if version >= 5 else 0
    if force:
        is64, version, utype = force
    ndies = rng.choice([1, 1, 2, 3, 6, 12])
    body = b''
    for i in range(ndies):
        c = rng.choice([1, 1, 2, 3, 200, 0]) if i else rng.choice([1, 2, 3, 200])
        body += bytes([c]) if c < 128 else bytes([(c & 0x7f) | 0x80, c >> 7])
    if junk_le is not None:
        body = bytes([rng.choice([1, 2, 3])]) + _junk_header(rng, junk_le) + bytes([rng.choice([1, 2, 3, 0])])
    has_id = utype in (2, 4, 5, 6)
    has_to = utype in (2, 6)
    return [is64, version, utype, 0, rng.choice([4, 8]), rng.getrandbits(64) if has_id else 0,
            rng.randrange(2 ** (64 if is64 else 32)) if has_to else 0, body]


def _unit_size(u):
    is64, version, utype = u[0], u[1], u[2]
    o = 8 if is64 else 4
    rest = 2 + ((2 + o + (8 if utype in (2, 4, 5, 6) else 0) + (o if utype in (2, 6) else 0)) if version >= 5 else o + 1)
    return (12 if is64 else 4) + rest + len(u[7]), (12 if is64 else 4) + rest


def _unit_starts(units):
    starts, off = [], 0
    for u in units:
        starts.append(off)
        off += _unit_size(u)[0]
    return starts, off


def _sweep_ops(rng, units, extra_at=True):
    starts, size = _unit_starts(units)
    ops = [['containing', r] for r in range(size)]
    if extra_at:
        ops += [['at', s] for s in starts] * 2
        for s, u in zip(starts, units):
            total, hdr = _unit_size(u)
            for d in {s + hdr, s + total - 1, rng.randrange(s, s + total), s + hdr - 1, s + total}:
                ops.append(['die', s, d])
    rng.shuffle(ops)
    return ops


def _failing_history(rng, le):
    """a history in which offset-exact lookups FAIL between valid ones: at the offset of junk-header bytes inside a DIE area
    (unsupported version), in the last three bytes of the section (truncated header), outside the section; units at higher
    offsets are cached before the failure, the failing lookup is sometimes repeated, and every offset is swept afterwards"""
    n = rng.choice([2, 3, 3, 4, 5, 6])
    junky = set(rng.sample(range(n), rng.randint(1, min(n, 2))))
    units = [_gen_unit(rng, junk_le=le if k in junky else None) for k in range(n)]
    starts, size = _unit_starts(units)
    hdrs = [_unit_size(u)[1] for u in units]
    def valid_op():
        k = rng.randrange(n)
        return rng.choice([['containing', rng.randrange(size)], ['containing', starts[k]], ['at', starts[k]],
                           ['die', starts[k], starts[k] + hdrs[k]]])
    fails = []
    for k in sorted(junky):
        j = starts[k] + hdrs[k] + 1
        fails += [['at', j], ['die', j, j + 1]]
    fails += [['at', size - 1 - rng.randrange(3)], ['at', size + rng.choice([0, 1, 100])]]
    rng.shuffle(fails)
    fails = fails[:rng.randint(1, len(fails))]
    ops = [['at', starts[k]] for k in rng.sample(range(n), rng.randint(0, n))]      # cached before the failure, any order
    if rng.random() < 0.5:
        ops.append(['containing', rng.choice([size - 1, rng.randrange(size)])])
    for f in fails:
        ops.append(list(f))
        ops += [valid_op() for _ in range(rng.randint(0, 3))]
        if rng.random() < 0.3:
            ops.append(list(f))
    tail = [['containing', r] for r in range(size)] + [['at', s_] for s_ in starts] + \
           [['die', starts[k], starts[k] + hdrs[k]] for k in range(n)]
    rng.shuffle(tail)
    return [le, units, ops + tail]


def corpus(ctx):
    """fixed cases, run first: the confirmed deviation (DESIGN 5) and the smallest tables"""
    empty_set = [2, 0, 8, b'\xaa\xbb\xcc\xdd', [], b'']
    return [('aranges_lookup', [True, [empty_set], [0, 1, 0x1000]]),
            ('aranges_lookup', [True, [], [0]]),
            ('aranges_lookup', [False, [empty_set, [2, 0x40, 4, b'\x01\x02\x03\x04', [], b'']], [5]]),
            ('aranges_lookup', [True, [[2, 0x10, 8, b'\0\0\0\0', [[0x1000, 0x10]], b'']], [0xfff, 0x1000, 0x100f, 0x1010]]),
            # ranges ending exactly at 2**32 (4-byte set) and 2**64 (8-byte set): the end is not reduced modulo the width
            ('aranges_lookup', [True, [[2, 0x10, 4, b'\0\0\0\0', [[0xFFFF0000, 0x10000]], b'\0\0\0\0'],
                                       [2, 0x20, 8, b'\0\0\0\0', [[0xFFFFFFFFFFFFF000, 0x1000]], b'']],
                                [0xFFFEFFFF, 0xFFFF0000, 0xFFFFFFFF, 2 ** 32, 0xFFFFFFFFFFFFEFFF, 0xFFFFFFFFFFFFF000, 2 ** 64 - 1]]),
            # fix efe8bbe: an 8-byte-address set starting at offset 24 (padding counted from the set start)
            ('aranges_entries', [True, [[2, 0, 4, b'\0\0\0\0', [], b''], [2, 0x40, 8, b'\0\0\0\0', [[0x1000, 0x10]], b'']]]),
            ('aranges_lookup', [True, [[2, 0, 4, b'\0\0\0\0', [], b''], [2, 0x40, 8, b'\0\0\0\0', [[0x1000, 0x10]], b'']],
                                [0xfff, 0x1000, 0x100f, 0x1010]]),
            ('aranges_lookup', [False, [[2, 0, 8, b'\x01\x02\x03\x04', [[0x2000, 8]], b'\x07'],
                                        [3, 0x40, 4, b'\x05\x06\x07\x08', [[0x10, 4], [0x14, 4]], b''],
                                        [2, 0x80, 8, b'\0\0\0\0', [[0x3000, 0x100]], b'']], [0xf, 0x10, 0x17, 0x18, 0x2007, 0x2008, 0x3000, 0x30ff, 0x3100]])]


def gen(ctx):
    rng = ctx.rng
    T = ctx.scale(1, 12)
    cases = []
    # ---- aranges
    for i in range(220 * T):
        le = rng.random() < 0.7
        sets = _gen_aranges_sets(rng, rng.choice([0, 1, 1, 2, 3, 4, 6]))
        cases.append(('aranges_entries', [le, sets]))
        cases.append(('aranges_lookup', [le, sets, _addresses_for(sets, rng)]))
    for i in range(40 * T):          # the alternation that moves set starts off the tuple grid: 4-byte sets with an even
        le = rng.random() < 0.7      # number of tuples (24, 40, ... bytes) in front of 8-byte sets, nothing in between
        sets = _gen_aranges_sets(rng, rng.choice([2, 3, 4, 5]), layout='packed')
        for j, st in enumerate(sets):
            st[2] = 4 if j % 2 == 0 else 8
            if st[2] == 4:
                st[4] = [t for t in st[4] if t[0] + t[1] < 2 ** 32]
                if len(st[4]) % 2:
                    st[4] = st[4][:-1]
        cases.append(('aranges_entries', [le, sets]))
        cases.append(('aranges_lookup', [le, sets, _addresses_for(sets, rng)]))
    for i in range(32 * T):          # a range beginning at address 0 as first / middle / last / only tuple of a set:
        le = rng.random() < 0.6      # (0, len > 0) is not the terminator, the rest of the set must still be read
        where = ['first', 'middle', 'last', 'only'][i % 4]
        sets = _gen_aranges_sets(rng, rng.choice([1, 2, 3]), zero_at=where)
        cases.append(('aranges_entries', [le, sets]))
        cases.append(('aranges_lookup', [le, sets, _addresses_for(sets, rng)]))
    for i in range(24 * T):          # ranges ending exactly at the top of the address space of their set (or one byte short)
        le = rng.random() < 0.6
        sets = _gen_aranges_sets(rng, rng.choice([1, 2, 3, 4]), top=True)
        cases.append(('aranges_entries', [le, sets]))
        cases.append(('aranges_lookup', [le, sets, _addresses_for(sets, rng)]))
    for i in range(20 * T):          # every set empty
        le = rng.random() < 0.5
        sets = _gen_aranges_sets(rng, rng.choice([1, 2, 3]))
        for st in sets:
            st[4] = []
        sets = _layout(sets, rng, rng.choice(LAYOUTS))
        cases.append(('aranges_lookup', [le, sets, _addresses_for(sets, rng)]))
    for i in range(25 * T):          # out of the LOOKUP domain: conflicting ranges, zero-length tuples beginning inside a range
        #                              (the table must still list every tuple: these are in the domain of the entries
        #                              round trip); out of every domain: wrong padding length
        le = rng.random() < 0.5
        k = rng.choice(['overlap', 'zerolen', 'padlen'])
        sets = _gen_aranges_sets(rng, rng.choice([1, 2]), allow_big=False)
        if k == 'padlen':
            if sets:
                rng.choice(sets)[3] = _garbage(rng, rng.choice([0, 1, 3, 5, 8, 12]))
        else:
            tl = [t for st in sets for t in st[4]]
            if tl:
                b, ln = rng.choice(tl)
                extra = [b + ln // 2, max(1, ln)] if k == 'overlap' else [b if b else 1, 0]
                rng.choice(sets)[4].append(extra)
                sets = _layout(sets, rng, rng.choice(LAYOUTS))
                cases.append(('aranges_entries', [le, sets]))
        cases.append(('aranges_lookup', [le, sets, _addresses_for(sets, rng)]))
    for i in range(6 * T):           # truncations (error behaviour is outside the property: drift only)
        sets = _gen_aranges_sets(rng, rng.choice([1, 2]))
        cases.append(('aranges_trunc', [True, sets, rng.randrange(1, 40)]))
    # ---- names
    for i in range(260 * T):
        le = rng.random() < 0.7
        sets = _gen_name_sets(rng, rng.choice([0, 1, 1, 2, 3, 5]), dup=rng.random() < 0.5)
        names = [e[1] for s in sets for e in s[3]]
        # the other normal forms of every encoded name are queried too: absent unless encoded themselves
        queries = sorted(set(names) | {v for nm in set(names) for v in _normal_forms(nm)}) + [b'absent', b'', 'nichtäda'.encode('utf-8')]
        cases.append(('names_table', [le, rng.choice(['pubnames', 'pubtypes']), sets, queries]))
    for i in range(3 * T):           # tables larger than the 8192-byte read buffer of a real file object
        le = rng.random() < 0.7
        sets = []
        for _ in range(rng.choice([1, 2, 3])):
            entries = [[rng.randrange(1, 2 ** 32), b'n%d_' % j + bytes(rng.choice(b'abcdefgh') for _ in range(rng.randint(0, 70)))]
                       for j in range(rng.randint(120, 200))]
            sets.append([2, rng.randrange(2 ** 32), rng.randrange(2 ** 32), entries, b''])
        names = [e[1] for st in sets for e in st[3]]
        cases.append(('names_table', [le, rng.choice(['pubnames', 'pubtypes']), sets, rng.sample(names, 20) + [b'absent'],
                                      rng.choice(['file', 'file_warm', 'file_end', 'gzip'])]))
    for i in range(6 * T):
        sets = _gen_name_sets(rng, rng.choice([1, 2]))
        cases.append(('names_trunc', [True, sets, rng.randrange(1, 30)]))
    # ---- units: every offset in random order
    for i in range(60 * T):
        le = rng.random() < 0.7
        units = [_gen_unit(rng) for _ in range(rng.choice([1, 2, 2, 3, 4, 6]))]
        cases.append(('units_history', [le, units, _sweep_ops(rng, units)]))
    # every header shape once, alone and in a pair
    for is64 in (False, True):
        for version, utype in [(2, 0), (3, 0), (4, 0)] + [(5, t) for t in range(1, 7)]:
            u = _gen_unit(rng, force=(is64, version, utype))
            v = _gen_unit(rng)
            cases.append(('units_history', [rng.random() < 0.5, [u, v], _sweep_ops(rng, [u, v])]))
    # bounded-exhaustive histories over six probes on a fixed 3-unit section, then the full sweep
    fixed = [_gen_unit(rng, force=(False, 4, 0)), _gen_unit(rng, force=(True, 5, 1)), _gen_unit(rng, force=(False, 5, 2))]
    starts, size = _unit_starts(fixed)
    probes = [['at', s] for s in starts] + [['containing', s + 3] for s in starts]
    maxlen = ctx.scale(2, 3)
    sweep = [['containing', r] for r in range(size)]
    for L in range(1, maxlen + 1):
        for h in itertools.product(probes, repeat=L):
            tail = list(sweep)
            rng.shuffle(tail)
            cases.append(('units_history', [True, fixed, [list(o) for o in h] + tail[:40 if L == maxlen else len(tail)]]))
    # depth: thousands of equal minimal units (header + one abbreviated DIE), queried COLD at a high offset, at the last byte,
    # then downwards: the walk of get_CU_containing must pass every unit below the target whatever their number
    for i in range(ctx.scale(1, 4)):
        u = _gen_unit(rng)
        u[7] = bytes([rng.choice([1, 2, 3])])                 # one DIE, one byte
        n = rng.randint(1500, 3000)
        U, hdr = _unit_size(u)
        size = n * U
        first = [size - 1 - rng.randrange(size // 8), size - 1] if i % 2 == 0 else [size - 1, size - 1 - rng.randrange(size // 8)]
        ops = [['containing', r] for r in first]
        ks = sorted({rng.randrange(n) for _ in range(10)} | {0, 1, n - 1, n - 2}, reverse=True)
        for k in ks:
            ops.append(['containing', k * U + rng.randrange(U)])
            if rng.random() < 0.3:
                ops.append(['at', k * U])
            if rng.random() < 0.2:
                ops.append(['die', k * U, k * U + hdr])
        ops += [['containing', 0], ['containing', size - 1], ['containing', size], ['containing', rng.randrange(size)]]
        cases.append(('units_many', [rng.random() < 0.7, u, n, ops]))
    # magnitude: a unit that starts at an offset >= 2**32.  The byte-list model cannot hold such a section; the check is
    # metamorphic: a 64-bit-format unit A followed by a unit B, once with A's one-byte DIE area (model and spec), once in a
    # SPARSE real file in which A's unit_length is stretched so that B starts at H >= 2**32: every answer about B must be
    # the low answer shifted by the stretch, every answer about A the low answer with the stretched unit_length
    for i in range(ctx.scale(1, 3)):
        A = _gen_unit(rng, force=(True, rng.choice([3, 4, 5]), 0))
        if A[1] >= 5:
            A[2] = rng.choice([1, 3])
        A[7] = bytes([rng.choice([1, 2, 3])])
        B = _gen_unit(rng)
        H = 2 ** 32 + rng.choice([0, 0, 1, 5, rng.randrange(1, 2 ** 20)])
        cases.append(('units_sparse', [rng.random() < 0.7, A, B, H, rng.choice(['at_first', 'containing_first', 'low_first']), 'file']))
    # failed lookups between valid ones (the answers of the valid ones must not change)
    for i in range(50 * T):
        cases.append(('units_history', _failing_history(rng, rng.random() < 0.7)))
    # out of domain: offset-exact lookups at arbitrary offsets (garbage units enter the cache)
    for i in range(10 * T):
        units = [_gen_unit(rng) for _ in range(rng.choice([2, 3]))]
        starts, size = _unit_starts(units)
        ops = [['at', rng.randrange(size)] for _ in range(3)] + [['containing', rng.randrange(size)] for _ in range(6)]
        rng.shuffle(ops)
        cases.append(('units_history', [True, units, ops]))
    # the kind of stream the section is handed over in (last element of the abstract): every kind presents the same bytes
    from tools.lib.streams import draw_kind
    out = []
    for kind, a in cases:
        if _split_kind(a)[1] is None:
            a = a + [rng.choice(['bytesio', 'file', 'file_small', 'mmap']) if kind == 'units_many' else draw_kind(rng, 0.5)]
        out.append((kind, a))
    return out


def _split_kind(a):
    """(abstract without the stream kind, stream kind or None)"""
    from tools.lib.streams import KINDS
    if a and isinstance(a[-1], str) and a[-1] in KINDS:
        return a[:-1], a[-1]
    return a, None


# --------------------------------------------------------------------------------------------- implementation side
PY_DEFAULT_RECURSION_LIMIT = 1000


def _stock_interpreter(f):
    """the library is observed under CPython's DEFAULT recursion limit (./check raises it for its own S-expression code):
    a lookup whose stack depth grows with the number of units or sets it passes must show as RecursionError"""
    import functools
    import sys

    @functools.wraps(f)
    def g(*a, **kw):
        old = sys.getrecursionlimit()
        sys.setrecursionlimit(PY_DEFAULT_RECURSION_LIMIT)
        try:
            return f(*a, **kw)
        finally:
            sys.setrecursionlimit(old)
    return g


_S = None        # the Streams() of the running evaluate()


def _dwarfinfo(le, addr_size, skind, **secs):
    from elftools.dwarf.dwarfinfo import DWARFInfo, DebugSectionDescriptor, DwarfConfig
    def sec(name):
        data = secs.get(name)
        if data is None:
            return None
        if isinstance(data, tuple):                      # (open stream, section size): a sparse file
            return DebugSectionDescriptor(stream=data[0], name='.' + name, global_offset=0, size=data[1], address=0)
        return DebugSectionDescriptor(stream=_S.open(data, skind), name='.' + name, global_offset=0, size=len(data), address=0)
    names = ['debug_info', 'debug_aranges', 'debug_abbrev', 'debug_frame', 'eh_frame', 'debug_str', 'debug_loc', 'debug_ranges',
             'debug_line', 'debug_pubtypes', 'debug_pubnames', 'debug_addr', 'debug_str_offsets', 'debug_line_str',
             'debug_loclists', 'debug_rnglists', 'debug_sup', 'gnu_debugaltlink', 'debug_types']
    kw = {n + '_sec': sec(n) for n in names}
    return DWARFInfo(config=DwarfConfig(little_endian=le, machine_arch='x64', default_address_size=addr_size), **kw)


def _entry_obs(e):
    return [e.begin_addr, e.length, e.info_offset, e.unit_length, e.version, e.address_size, e.segment_size]


@_stock_interpreter
def _impl_aranges(le, data, addrs, addr_size, skind):
    def build():
        return _dwarfinfo(le, addr_size, skind, debug_aranges=data).get_aranges()
    ar = impl_call(build)
    if isinstance(ar, list) and ar[:1] == ['err']:
        return ar, ar
    table = ['ok', [[_entry_obs(e) for e in ar.entries], list(ar.keys)]]
    looks = []
    for a in addrs:
        r = impl_call(ar.cu_offset_at_addr, a)
        if isinstance(r, list) and r[:1] == ['err']:
            looks.append(r)
        else:
            looks.append(['ok', 'none' if r is None else ['some', r]])
    return table, looks


@_stock_interpreter
def _impl_names(le, which, data, queries, addr_size, skind):
    def run():
        di = _dwarfinfo(le, addr_size, skind, **{'debug_' + which: data})
        lut = di.get_pubnames() if which == 'pubnames' else di.get_pubtypes()
        qs = [q.decode('utf-8') for q in queries]
        getitems = []
        for q in qs:
            try:
                v = lut[q]
                getitems.append(['ok', [v.cu_ofs, v.die_ofs]])
            except KeyError:
                getitems.append(['err', 'KeyError'])
        gets = []
        for q in qs:
            v = lut.get(q)
            gets.append('none' if v is None else ['some', [v.cu_ofs, v.die_ofs]])
        keys = [k.encode('utf-8') for k in lut]
        n = len(lut)
        items = [[k.encode('utf-8'), [v.cu_ofs, v.die_ofs]] for k, v in lut.items()]
        hdrs = [[h.unit_length, h.version, h.debug_info_offset, h.debug_info_length] for h in lut.get_cu_headers()]
        return ['ok', [items, hdrs, gets, getitems, keys, n]]
    return impl_call(run)


def _cu_obs(cu):
    from elftools.dwarf.enums import ENUM_DW_UT
    h = cu.header
    ut = h['unit_type'] if 'unit_type' in h else 0
    if isinstance(ut, str):
        ut = ENUM_DW_UT[ut]
    ident = h['dwo_id'] if 'dwo_id' in h else h['type_signature'] if 'type_signature' in h else 0
    return [cu.cu_offset, h['unit_length'], int(cu.structs.dwarf_format == 64), h['version'], ut,
            h['debug_abbrev_offset'], h['address_size'], ident, h['type_offset'] if 'type_offset' in h else 0,
            cu.cu_die_offset]


@_stock_interpreter
def _impl_history(le, info, ops, addr_size, skind):
    from elftools.dwarf.namelut import NameLUTEntry
    di = _dwarfinfo(le, addr_size, skind, debug_info=info, debug_abbrev=_abbrev_section())
    out = []
    for op in ops:
        if op[0] == 'containing':
            r = impl_call(di.get_CU_containing, op[1])
        elif op[0] == 'at':
            r = impl_call(di.get_CU_at, op[1])
        else:
            r = impl_call(di.get_DIE_from_lut_entry, NameLUTEntry(cu_ofs=op[1], die_ofs=op[2]))
        if isinstance(r, list) and r[:1] == ['err']:
            out.append(r)
        elif op[0] == 'die':
            out.append(['ok', [r.offset, r.abbrev_code, r.size]])
        else:
            assert r.size == r['unit_length'] + r.structs.initial_length_field_size()
            out.append(['ok', _cu_obs(r)])
    return out


def _sparse_history(le, low, sA, H, ops, addr_size):
    """the two units of `low` (A = low[:sA] in the 64-bit format, B = low[sA:]) in a sparse real file: A's unit_length is
    stretched so that B starts at H; the file holds two small extents, the hole in between reads as zeros"""
    assert low[:4] == b'\xff\xff\xff\xff'
    path = _S.path_of(b'')
    with open(path, 'r+b') as f:
        f.write(low[:4] + (H - 12).to_bytes(8, 'little' if le else 'big') + low[12:sA])
        f.seek(H)
        f.write(low[sA:])
    st = open(path, 'rb')
    try:
        return _impl_history(le, (st, H + len(low) - sA), ops, addr_size, 'file')
    finally:
        st.close()


# --------------------------------------------------------------------------------------------- evaluate
def evaluate(ctx, cases):
    from tools.lib.streams import Streams
    global _S
    with Streams(prefix='pv-streams-c13-') as S:
        _S = S
        try:
            _evaluate(ctx, cases, S)
        finally:
            _S = None


FAIL_CLASSES = ('DWARFError', 'ELFParseError')      # raised through dwarf_assert / struct_parse, also under python -O


def _evaluate(ctx, full, S):
    drv = ctx.driver
    cases = [(kind, _split_kind(a)[0]) for kind, a in full]
    skinds = [_split_kind(a)[1] or 'bytesio' for kind, a in full]
    # pass 1: bytes and domain certificates from the Coq spec
    reqs = []
    for kind, a in cases:
        if kind.startswith('aranges'):
            reqs += [['enc_aranges', a[0], a[1]], ['wf_aranges', a[1]], ['disjoint', a[1]]]
        elif kind.startswith('names'):
            reqs += [['enc_names', a[0], a[2] if kind == 'names_table' else a[1]],
                     ['wf_names', a[2] if kind == 'names_table' else a[1]], ['wf_names', []]]
        elif kind == 'units_history':
            reqs += [['enc_units', a[0], a[1]], ['wf_units', a[1]], ['units_spec', a[1]]]
        elif kind == 'units_sparse':
            reqs += [['enc_units', a[0], [a[1], a[2]]], ['wf_units', [a[1], a[2]]], ['units_spec', [a[1], a[2]]]]
        elif kind == 'units_many':        # n copies of one unit; the starts are multiples of its size
            reqs += [['enc_units', a[0], [a[1]] * a[2]], ['wf_units', [a[1]]], ['units_spec', [a[1]]]]
        else:
            raise ValueError(kind)
    ans = drv.batch(reqs)
    # pass 2: model and spec answers (three requests per case)
    NOP = ['wf_names', []]
    reqs2 = []
    work = []
    for i, (kind, a) in enumerate(cases):
        data, wf, third = ans[3 * i], ans[3 * i + 1], ans[3 * i + 2]
        w = {'data': data, 'wf': bool(wf)}
        if kind == 'aranges_entries':
            reqs2 += [['aranges_model', a[0], data, len(data)], ['aranges_spec', a[1]], NOP]
        elif kind == 'aranges_lookup':
            w['disjoint'] = bool(third)
            reqs2 += [['lookup_model', a[0], data, len(data), a[2]], ['lookup_spec', a[1], a[2]], NOP]
        elif kind == 'aranges_trunc':
            w['data'] = data = data[:max(0, len(data) - a[2])]
            reqs2 += [['aranges_model', a[0], data, len(data)], ['aranges_spec', []], NOP]
        elif kind == 'names_table':
            reqs2 += [['names_model', a[0], data, len(data), a[3]], ['names_spec', a[2], a[3]], NOP]
        elif kind == 'names_trunc':
            w['data'] = data = data[:max(0, len(data) - a[2])]
            reqs2 += [['names_model', a[0], data, len(data), []], ['names_spec', [], []], NOP]
        elif kind == 'units_history':
            w['starts'] = [c[0] for c in third]
            st_ = set(w['starts'])
            w['invalid'] = [j for j, op in enumerate(a[2]) if op[0] != 'containing' and op[1] not in st_]
            reqs2 += [['di_run', a[0], data, len(data), a[2]], ['di_spec', a[0], a[1], a[2]],
                      ['di_fresh', a[0], data, len(data), [a[2][j] for j in w['invalid']]]]
        elif kind == 'units_sparse':
            sA = third[1][0]
            lenB, hdrB = _unit_size(a[2])
            low_ops = [['containing', r] for r in range(sA, sA + lenB)] + [['at', sA], ['die', sA, sA + hdrB], ['at', 0],
                       ['containing', 0], ['containing', sA - 1], ['containing', sA + lenB]]
            low_ops = {'at_first': [['at', sA]], 'containing_first': [['containing', sA + 1]], 'low_first': [['containing', 0]]}[a[4]] + low_ops
            w['sA'], w['low_ops'] = sA, low_ops
            reqs2 += [['di_run', a[0], data, len(data), low_ops], ['di_spec', a[0], [a[1], a[2]], low_ops], NOP]
        elif kind == 'units_many':
            U = _unit_size(a[1])[0]
            assert len(data) == a[2] * U
            w['starts'] = range(0, a[2] * U, U)
            st_ = set(w['starts'])
            w['invalid'] = [j for j, op in enumerate(a[3]) if op[0] != 'containing' and op[1] not in st_]
            reqs2 += [['di_run', a[0], data, len(data), a[3]], ['di_spec', a[0], [a[1]] * a[2], a[3]],
                      ['di_fresh', a[0], data, len(data), [a[3][j] for j in w['invalid']]]]
        work.append(w)
    ans2 = drv.batch(reqs2)
    for i, ((kind, a), w) in enumerate(zip(cases, work)):
        model, spec, fresh = ans2[3 * i], ans2[3 * i + 1], ans2[3 * i + 2]
        data = w['data']
        sk, afull = skinds[i], full[i][1]
        if i % 150 == 149:
            S.drop_files()
        ctx.bump('stream_kind', sk)
        ctx.bump('stream_kind:' + kind.split('_')[0], sk)
        addr_size = 4 if (len(data) + i) % 2 else 8
        key = None
        ctx.bump('kind', kind)
        if kind == 'aranges_entries':
            impl, _ = _impl_aranges(a[0], data, [], addr_size, sk)
            spec = ['ok', spec]
            ntup = sum(len(st[4]) for st in a[1])
            off_grid = _off_grid(a[1])
            ctx.bump('sets', len(a[1]))
            ctx.bump('tuples', ntup if ntup < 8 else '8+')
            shapes = {('begin 0' if t[0] == 0 else 'zero length' if t[1] == 0 else None) for st in a[1] for t in st[4]} - {None}
            ctx.bump('tuple_shapes', '+'.join(sorted(shapes)) or 'plain')
            for st in a[1]:
                for j, t in enumerate(st[4]):
                    if t[0] == 0 or t[1] == 0:
                        ctx.bump('begin0_or_zero_length_at', 'only' if len(st[4]) == 1 else 'first' if j == 0 else
                                 'last' if j == len(st[4]) - 1 else 'middle')
            ctx.bump('address_sizes', '+'.join(str(z) for z in sorted({st[2] for st in a[1]})) or 'none')
            ctx.bump('set_starts', 'all multiples of the tuple size' if not off_grid else
                     'off the tuple grid, odd' if any(o % 2 for o in off_grid) else 'off the tuple grid')
            ctx.record(kind, afull, impl=impl, spec=spec, model=model, in_domain=w['wf'], nontrivial=ntup > 0,
                       key=K_PAD if off_grid else None)
        elif kind == 'aranges_lookup':
            _, impl = _impl_aranges(a[0], data, a[2], addr_size, sk)
            ntup = sum(len(st[4]) for st in a[1])
            if _off_grid(a[1]) and impl[:1] == ['err']:      # the table itself was not read (label only)
                key = K_PAD
            elif ntup == 0:
                key = K_EMPTY
            ctx.bump('lookup_tables', 'empty' if ntup == 0 else 'nonempty')
            tops = {(2 ** (8 * st[2]) - t[0] - t[1]) for st in a[1] for t in st[4] if st[2] in (4, 8)} & {0, 1}
            ctx.bump('range_end', 'exactly 2**(8*address_size)' if 0 in tops else 'one byte short of it' if tops else 'below')
            ctx.bump('addresses', len(a[2]) if len(a[2]) < 40 else '40+')
            if isinstance(spec, list):
                for s in spec:
                    ctx.bump('lookup_answer', 'none' if s == ['ok', 'none'] else 'some')
            ctx.record(kind, afull, impl=impl, spec=spec, model=model, in_domain=w['wf'] and w['disjoint'],
                       nontrivial=True, key=key)
        elif kind == 'aranges_trunc':
            impl, _ = _impl_aranges(a[0], data, [], addr_size, sk)
            ctx.record(kind, afull, impl=impl, spec=model, model=model, in_domain=False, nontrivial=True)
        elif kind == 'names_table':
            impl = _impl_names(a[0], a[1], data, a[3], addr_size, sk)
            items, hdrs, gets = spec
            spec_full = ['ok', [items, hdrs, gets,
                                [['err', 'KeyError'] if g == 'none' else ['ok', g[1]] for g in gets],
                                [it[0] for it in items], len(items)]]
            if isinstance(model, list) and model[:1] == ['ok']:
                m = model[1]
                model = ['ok', [m[0], m[1], m[2], m[3], m[4], m[5]]]
            nent = sum(len(s[3]) for s in a[2])
            names = [e[1] for s in a[2] for e in s[3]]
            ctx.bump('name_sets', len(a[2]))
            ctx.bump('names', 'dups' if len(set(names)) < len(names) else 'distinct')
            ctx.bump('non_ascii', int(any(max(n, default=0) > 127 for n in names)))
            nn = [n for n in set(names) if _normal_forms(n)]
            ctx.bump('normal_forms', 'all names NFC = NFD' if not nn else 'two spellings of one name encoded'
                     if any(v in names for n in nn for v in _normal_forms(n)) else 'names with another normal form')
            ctx.record(kind, afull, impl=impl, spec=spec_full, model=model, in_domain=w['wf'], nontrivial=nent > 0)
        elif kind == 'names_trunc':
            impl = _impl_names(a[0], 'pubnames', data, [], addr_size, sk)
            ctx.record(kind, afull, impl=impl, spec=model, model=model, in_domain=False, nontrivial=True)
        elif kind == 'units_sparse':
            sA, H, low_ops = w['sA'], a[3], w['low_ops']
            shift = H - sA
            def up(x):                       # an offset of the low placement in the high placement
                return x if x < sA - 1 else H - 1 if x == sA - 1 else x + shift
            def lift(ans):                   # an answer about the low placement -> the answer about the high placement
                if ans[:1] != ['ok']:
                    return ans
                o = list(ans[1])
                if len(o) == 3:              # a DIE: (offset, code, size)
                    return ['ok', [up(o[0]), o[1], o[2]]]
                if o[0] == 0:                # unit A: only its unit_length is stretched
                    return ['ok', [0, H - 12] + o[2:]]
                return ['ok', [o[0] + shift] + o[1:-1] + [o[-1] + shift]]
            high_ops = [[op[0]] + [up(x) for x in op[1:]] for op in low_ops]
            impl = _sparse_history(a[0], data, sA, H, high_ops, addr_size)
            spec_high = [lift(x) for x in spec]
            for j, (x, y) in enumerate(zip(impl, spec_high)):
                if x != y:
                    key = 'units:' + low_ops[j][0] + ':offset>=2**32'
                    break
            ctx.bump('units', 'sparse, unit at >= 2**32')
            ctx.record(kind, afull, impl=impl, spec=spec_high, model=[lift(x) for x in model], in_domain=w['wf'],
                       nontrivial=True, key=key)
        elif kind in ('units_history', 'units_many'):
            ops = a[2] if kind == 'units_history' else a[3]
            nunits = len(a[1]) if kind == 'units_history' else a[2]
            impl = _impl_history(a[0], data, ops, addr_size, sk)
            # a lookup that is not valid (offset-exact at an offset where no unit starts) is in the domain when a FRESH object
            # fails on it with DWARFError / ELFParseError: it must fail the same way in every state and leave the answers of
            # the valid lookups unchanged (C13_history_with_failed_lookups); its expected answer is the fresh object's
            fresh_of = dict(zip(w['invalid'], fresh))
            valid = all(f[:1] == ['err'] and f[1] in FAIL_CLASSES for f in fresh)
            if valid:
                spec = [fresh_of.get(j, y) for j, y in enumerate(spec)]
            ctx.bump('failed_lookups_in_history', (len(w['invalid']) if len(w['invalid']) < 6 else '6+') if valid
                     else 'out of domain')
            for j, (x, y) in enumerate(zip(impl, spec)):
                if x != y:
                    key = 'units:' + ops[j][0]
                    break
            ctx.bump('units', nunits if nunits < 10 else '1000+' if nunits >= 1000 else '10+')
            ctx.bump('history_len', len(ops) if len(ops) < 10 else '%d0+' % (len(ops) // 10))
            ctx.record(kind, afull, impl=impl, spec=spec, model=model, in_domain=w['wf'] and valid,
                       nontrivial=nunits >= 2 or len(ops) > 4, key=key)
