"""C16 correspondence: primitive decoders.  impl = struct_parse(<primitive>, BytesIO) value and
stream.tell(); model/spec = extracted Base/Prim.v and Spec/PrimSpec.v."""
import io, itertools
from tools.lib.framework import impl_call

RULE = ('cases: Coq-encoded values (minimal and padded LEB128, all 10 fixed-int formats, 24-bit, strings of length '
        '0..300 at every chunk residue, blocks, initial lengths incl. boundary classes), every truncation point of '
        'each encoding, and raw byte strings (all strings of length <=2 quick / <=3 thorough as LEB128 prefixes). '
        'distinct = hash(kind, abstract); non-trivial = encoding longer than 1 byte or an error/boundary case')

BOUNDARY = [0, 1, 2, 63, 64, 65, 127, 128, 129, 255, 256, 16383, 16384, 2**31 - 1, 2**31, 2**32 - 1, 2**32,
            2**35 - 1, 2**35, 2**63 - 1, 2**63, 2**64 - 1, 2**64, 2**70]


def _impl_parse(con, data, pos=None):
    from elftools.common.utils import struct_parse
    from elftools.common.exceptions import ELFParseError
    st = io.BytesIO(data)
    try:
        v = struct_parse(con, st, stream_pos=pos)
    except ELFParseError:
        return 'none'
    except Exception as e:
        return ['err', type(e).__name__]
    if isinstance(v, list):
        v = bytes(v)
    return ['some', v, len(data) - st.tell()]


def _fmt_con(le, n, signed):
    from elftools import construct as C
    name = ('S' if signed else 'U') + ('L' if le else 'B') + 'Int%d' % (8 * n)
    return getattr(C, name)('')


def gen(ctx):
    rng = ctx.rng
    cases = []
    T = ctx.scale(1, 8)
    # --- LEB128 via the Coq encoders
    vals = list(BOUNDARY) + [rng.getrandbits(rng.choice([7, 8, 14, 21, 32, 56, 63, 64, 65, 100])) for _ in range(150 * T)]
    for v in vals:
        for pad in (0, rng.choice([1, 2, 5])):
            cases.append(('uleb_enc', [v, pad, bytes(rng.getrandbits(8) for _ in range(rng.choice([0, 1, 3])))]))
    svals = [s * v for v in vals[:len(BOUNDARY) + 60 * T] for s in (1, -1)] + [-64, -65, 63, 64, -2**63, -2**63 - 1]
    for v in svals:
        cases.append(('sleb_enc', [v, bytes(rng.getrandbits(8) for _ in range(rng.choice([0, 1, 3])))]))
    # --- raw byte strings as LEB128 input, exhaustive up to length 2 (quick) / 3 (thorough)
    maxlen = ctx.scale(2, 3)
    for L in range(0, maxlen + 1):
        for t in itertools.product(range(256), repeat=L):
            b = bytes(t)
            cases.append(('uleb_raw', [b]))
            cases.append(('sleb_raw', [b]))
    for _ in range(300 * T):
        L = rng.randint(3, 20)
        b = bytes((rng.getrandbits(7) | 0x80) for _ in range(L - 1)) + bytes([rng.getrandbits(7)])
        cut = rng.randint(0, L)
        cases.append(('uleb_raw', [b[:cut] if rng.random() < 0.3 else b + b'\x99']))
        cases.append(('sleb_raw', [b[:cut] if rng.random() < 0.3 else b + b'\x99']))
    # --- fixed ints
    for le in (True, False):
        for n in (1, 2, 4, 8):
            m = 2 ** (8 * n)
            for v in [0, 1, m // 2 - 1, m // 2, m - 1, 0x0102030405060708 % m] + [rng.randrange(m) for _ in range(6 * T)]:
                cases.append(('uint', [le, n, v, b'\xaa' * rng.choice([0, 2])]))
            for v in [0, 1, -1, m // 2 - 1, -(m // 2), -2] + [rng.randrange(-(m // 2), m // 2) for _ in range(6 * T)]:
                cases.append(('sint', [le, n, v, b'\xaa' * rng.choice([0, 2])]))
            for cut in range(n):
                cases.append(('int_trunc', [le, n, bytes(range(1, cut + 1))]))
        vs24 = [0, 1, 0xff, 0x100, 0xffff, 0x10000, 0x800000, 0xffffff, 0x010203] + [rng.randrange(2**24) for _ in range(40 * T)]
        if ctx.tier == 'thorough':
            vs24 += list(range(0, 2**24, 251))
        for v in vs24:
            cases.append(('u24', [le, v, b'\x55' * rng.choice([0, 1])]))
        for cut in range(3):
            cases.append(('u24_trunc', [le, bytes(range(7, 7 + cut))]))
    # --- strings
    lens = list(range(0, 70)) + [126, 127, 128, 129, 130, 191, 192, 193, 255, 256, 257, 300]
    for L in lens:
        s = bytes(rng.randint(1, 255) for _ in range(L))
        for pre in (0, rng.randint(1, 70)):
            cases.append(('cstr_at', [bytes(rng.getrandbits(8) for _ in range(pre)), s, True, b'\x01\x00\x02']))
            cases.append(('cstr_at', [bytes(rng.getrandbits(8) for _ in range(pre)), s, False, b'']))
        cases.append(('cstring', [s, True, b'\x07\x00']))
        cases.append(('cstring', [s, False, b'']))
    # --- blocks
    for kind in (0, 1, 2, 4):
        for le in (True, False):
            for L in [0, 1, 2, 127, 128, 255, 256, 300] + [rng.randint(0, 400) for _ in range(3 * T)]:
                if kind == 1 and L > 255:
                    continue
                payload = bytes(rng.getrandbits(8) for _ in range(L))
                cases.append(('block', [kind, le, payload, b'\xee' * rng.choice([0, 3]), -1]))
                if L > 0:
                    cases.append(('block', [kind, le, payload, b'', rng.randrange(L)]))   # truncated payload
    # --- initial length
    firsts = [0, 1, 0x7fffffff, 0x80000000, 0xfffffeff, 0xffffff00, 0xffffff01, 0xffffffef, 0xfffffff0, 0xfffffff1,
              0xfffffffe] + [rng.randrange(0xffffff00, 0xfffffff0) for _ in range(4)] + [rng.randrange(2**32 - 16) for _ in range(10 * T)]
    for le in (True, False):
        for f in firsts:
            cases.append(('initlen32', [le, f, b'\x11' * rng.choice([0, 8, 9])]))
        for v in [0, 1, 2**32, 2**64 - 1] + [rng.getrandbits(64) for _ in range(4 * T)]:
            cases.append(('initlen64', [le, v, b'\x22' * rng.choice([0, 2])]))
        for cut in range(0, 12):
            cases.append(('initlen_trunc', [le, cut]))
    return cases


def evaluate(ctx, cases):
    from elftools.common.construct_utils import ULEB128, SLEB128, UBInt24, ULInt24
    from elftools.common.utils import parse_cstring_from_stream
    from elftools.construct import CString
    from elftools.dwarf.structs import DWARFStructs
    drv = ctx.driver
    from elftools.construct import Struct, Value
    structs = {le: DWARFStructs(little_endian=le, dwarf_format=32, address_size=4) for le in (True, False)}
    # the format flag is observable the way dwarf/structs.py itself reads it: Value('is64', ctx.is64)
    initlen = {le: Struct('', structs[le].Dwarf_initial_length('len'), Value('is64', lambda ctx: ctx.is64))
               for le in (True, False)}
    # pass 1: encode through the Coq spec
    enc_reqs = []
    for kind, a in cases:
        if kind == 'uleb_enc':
            enc_reqs.append(['enc_uleb', a[0], a[1]])
        elif kind == 'sleb_enc':
            enc_reqs.append(['enc_sleb', a[0]])
        elif kind in ('uint', 'sint'):
            enc_reqs.append(['enc_int', a[0], a[1], a[2]])
        elif kind == 'u24':
            enc_reqs.append(['enc_int', a[0], 3, a[1]])
        elif kind == 'block':
            k, le, payload = a[0], a[1], a[2]
            enc_reqs.append(['enc_uleb', len(payload), 0] if k == 0 else ['enc_int', le, k, len(payload)])
        elif kind == 'initlen32':
            enc_reqs.append(['enc_int', a[0], 4, a[1]])
        elif kind == 'initlen64':
            enc_reqs.append(['enc_initlen', a[0], a[1], True])
        elif kind == 'initlen_trunc':
            enc_reqs.append(['enc_initlen', a[0], 0x1122334455667788, True])
        else:
            enc_reqs.append(['enc_int', True, 0, 0])
    encs = drv.batch(enc_reqs)
    # pass 2: model and spec answers on the final bytes
    work = []
    reqs = []
    for (kind, a), e in zip(cases, encs):
        if kind == 'uleb_enc':
            data = e + a[2]
            w = dict(data=data, spec=['some', a[0], len(a[2])], con=ULEB128(''), nt=len(e) > 1)
            reqs.append(['uleb', data])
        elif kind == 'sleb_enc':
            data = e + a[1]
            w = dict(data=data, spec=['some', a[0], len(a[1])], con=SLEB128(''), nt=len(e) > 1)
            reqs.append(['sleb', data])
        elif kind in ('uleb_raw', 'sleb_raw'):
            data = a[0]
            w = dict(data=data, spec=None, con=(ULEB128 if kind == 'uleb_raw' else SLEB128)(''), nt=len(data) > 1)
            reqs.append(['uleb' if kind == 'uleb_raw' else 'sleb', data])
        elif kind in ('uint', 'sint'):
            data = e + a[3]
            w = dict(data=data, spec=['some', a[2], len(a[3])], con=_fmt_con(a[0], a[1], kind == 'sint'), nt=a[1] > 1)
            reqs.append([kind, a[0], a[1], data])
        elif kind == 'int_trunc':
            data = a[2]
            w = dict(data=data, spec='none', con=_fmt_con(a[0], a[1], False), nt=True)
            reqs.append(['uint', a[0], a[1], data])
        elif kind == 'u24':
            data = e + a[2]
            w = dict(data=data, spec=['some', a[1], len(a[2])], con=(ULInt24 if a[0] else UBInt24)(''), nt=True)
            reqs.append(['u24', a[0], data])
        elif kind == 'u24_trunc':
            data = a[1]
            w = dict(data=data, spec='none', con=(ULInt24 if a[0] else UBInt24)(''), nt=True)
            reqs.append(['u24', a[0], data])
        elif kind == 'cstring':
            s, term, tail = a
            data = s + (b'\0' + tail if term else b'')
            w = dict(data=data, spec=['some', s, len(tail)] if term else 'none', con=CString(''), nt=len(s) > 0)
            reqs.append(['cstring', data])
        elif kind == 'cstr_at':
            pre, s, term, tail = a
            data = pre + s + (b'\0' + tail if term else b'')
            w = dict(data=data, pos=len(pre), spec=['some', s] if term else 'none', cstr=True, nt=len(s) >= 63)
            reqs.append(['cstr_at', data, len(pre)])
        elif kind == 'block':
            k, le, payload, tail, cut = a
            form = {0: 'DW_FORM_block', 1: 'DW_FORM_block1', 2: 'DW_FORM_block2', 4: 'DW_FORM_block4'}[k]
            if cut >= 0:
                data = e + payload[:cut]
                spec = 'none'
            else:
                data = e + payload + tail
                spec = ['some', payload, len(tail)]
            w = dict(data=data, spec=spec, con=structs[le].Dwarf_dw_form[form], nt=True)
            reqs.append(['block', k, le, data])
        elif kind == 'initlen32':
            le, first, tail = a
            data = e + tail
            if first < 0xfffffff0:
                spec = ['some', [first, 0], len(tail)]
            elif first < 0xffffffff:
                spec = 'none'
            else:
                spec = None
            w = dict(data=data, spec=spec, con=initlen[le], il=True, nt=True,
                     key='initlen-valid-32bit-length-ffffff00..ffffffef-rejected' if 0xffffff00 <= first < 0xfffffff0 else None)
            reqs.append(['initlen', le, data])
        elif kind == 'initlen64':
            le, v, tail = a
            data = e + tail
            w = dict(data=data, spec=['some', [v, 1], len(tail)], con=initlen[le], il=True, nt=True)
            reqs.append(['initlen', le, data])
        elif kind == 'initlen_trunc':
            le, cut = a
            data = e[:cut]
            w = dict(data=data, spec='none', con=initlen[le], il=True, nt=True)
            reqs.append(['initlen', le, data])
        else:
            raise ValueError(kind)
        work.append(w)
    models = drv.batch(reqs)
    # the arithmetic spec for raw LEB strings
    raw_idx = [i for i, (kind, a) in enumerate(cases) if kind in ('uleb_raw', 'sleb_raw')]
    raw_specs = drv.batch([['uleb_spec' if cases[i][0] == 'uleb_raw' else 'sleb_spec', cases[i][1][0]] for i in raw_idx])
    for i, s in zip(raw_idx, raw_specs):
        work[i]['spec'] = s
    for (kind, a), w, m in zip(cases, work, models):
        if w.get('cstr'):
            r = impl_call(parse_cstring_from_stream, io.BytesIO(w['data']), w['pos'])
            impl = 'none' if r is None else (['some', r] if isinstance(r, bytes) else r)
        else:
            impl = _impl_parse(w['con'], w['data'])
            if w.get('il') and isinstance(impl, list) and impl[0] == 'some':
                impl = ['some', [impl[1]['len'], int(impl[1]['is64'])], impl[2]]
        spec = w['spec'] if w['spec'] is not None else m
        ctx.bump('kind', kind)
        ctx.bump('len', min(len(w['data']), 70) if len(w['data']) < 70 else '70+')
        ctx.record(kind, a, impl=impl, spec=spec, model=m, in_domain=True, nontrivial=w['nt'], key=w.get('key'))
