"""C06 correspondence: call-frame information.

Abstract sections (lists of CIE/FDE/ZERO descriptions with every producer choice explicit) are
drawn from ctx.rng, encoded by the Coq encoders of Spec/C06Entries.v through the driver, parsed by
the REAL CallFrameInfo the way DWARFInfo.CFI_entries / EH_CFI_entries call it, and compared with
 - the spec's expected entries (Spec/C06View.expected_entries) and the tables of the section 6.4
   reference interpreter (Spec/C06Cfi.cfi_spec_*),
 - the extracted model (Model/C06Callframe.get_entries, Model/C06Table.get_decoded).
Also: instruction lists alone (split round trip), tables alone (CIE/FDE objects built directly
from instruction lists, so operands are unbounded), and raw/mutated byte strings (model drift)."""
import io, sys

CLAIMED = True
CONFIG = {'assumptions': [
    'stream = BytesIO over exactly the section bytes, size = len(bytes), base_structs = DWARFStructs(le, 32, address_size) '
    'as DWARFInfo.CFI_entries / EH_CFI_entries pass them (the harness calls these entry points on a DWARFInfo whose '
    'only section is the generated one)',
    '.eh_frame: 32-bit format only; pointer applications absolute and pcrel; DW_CFA_set_loc in .eh_frame only under '
    'the absolute target-address encoding; version 4 CIE address_size = the container\'s, segment_size = 0',
    'pc-relative values are integers: no wrap-around modulo the address size is demanded',
    "augmentation 'S' is observed as the presence of a True-valued flag key in augmentation_dict; the personality "
    'routine as (encoding byte, encoded value)',
    'register rules of a row are compared as a finite map (sorted by register number)']}
LEVEL = {'text': 'Machine-checked (Props/C06.v, 27 theorems, closed under the global context): (1) entries round trip: every '
                 'well-formed .debug_frame/.eh_frame section built by the Coq encoders (all producer choices as arguments: '
                 'CIE v1/3/4, DWARF32/64, address size 4/8, byte order, augmentations "" and z+RLPS in any order, nine '
                 'pointer formats x absolute/pcrel, section address, LEB128 paddings, FDE before or after its CIE, zero '
                 'terminators) is parsed by the model of get_entries into exactly the expected objects in order - kind, '
                 'offset, header fields, augmentation dict/bytes, pc-relative initial location, range, LSDA pointer, '
                 'split instructions, FDE.cie = the object of the designated CIE (cache invariant through the recursion '
                 'of _parse_entry_at); (2) parse_instructions inverts encode_instrs for all instruction lists at any '
                 'stream position; (3) the model of _decode_CFI_table equals the DWARF 6.4 reference interpreter for all '
                 'instruction lists and alignment factors (simulation relation, induction), on the domain where the '
                 'final row carries a rule - the complement is a known finding with refutation theorems, and its exact '
                 'extent is proved for ALL inputs (C06_table_exact_cie/_fde: the model table is the 6.4 table minus at '
                 'most the rule-less final row); lifted to the entries of a section (C06_section_tables); (4) the '
                 'DW_CFA_* constants (every name carries its standard/registry value, the core table is complete), '
                 '_OPCODE_NAME_MAP, masks, _eh_encoding_to_field and the construct trees of '
                 'Dwarf_CIE_header/EH_CIE_header/Dwarf_FDE_header regenerated from the live modules equal the standard '
                 'tables/field lists, and the hand model of the header structs equals the interpretation of the '
                 'generated layouts on all byte strings. The rest of the hand model (entry scan, augmentation, pointer '
                 'encodings, instruction if-chain, table loop) is pinned to the code by the differential correspondence '
                 '(impl vs model vs spec on every case, through DWARFInfo.CFI_entries / EH_CFI_entries). (5) The entry '
                 'points themselves are modelled (Model/C06Dwarfinfo.v): on one DWARFInfo holding both sections, under any '
                 'descriptive names/global offsets of the descriptors and in any history of calls, CFI_entries returns the '
                 '.debug_frame entries and EH_CFI_entries the .eh_frame entries (C06_dwarfinfo_entries/_calls); the '
                 'correspondence asks both entry points in both orders on such objects with real/None/equal/swapped names. '
                 'Correspondence only (no theorem): the optional vendor opcodes 0x1d/0x2c/0x2f (specified from the '
                 'registries, refused by today\'s code, in the domain as soon as the live module names them), the stream '
                 'kind handed to the library and the drop+gc history between cases.',
         'design_ref': '4.6', 'technique': 'Coq proof (induction, simulation relation, cursor lemmas, cache invariant) + extracted-model correspondence',
         'note': 'Trusted: Coq kernel, ExtrOcamlBasic extraction, harness adapters, the specs written from DWARF 5 '
                 '6.4/7.24 and the LSB .eh_frame description. No axioms. Out of the theorems: pc-relative values are '
                 'unbounded integers (no wrap modulo the address size), DW_CFA_set_loc in .eh_frame only under the '
                 'absolute encoding, modifiers other than absolute/pcrel, .eh_frame in the 64-bit format.'}

RULE = ('cases: (a) sections of 1..8 entries over {.debug_frame v1/3/4, DWARF32/64, address size 4/8, both byte orders} '
        'and {.eh_frame, augmentation "" or z+permutation of a subset of R L P S, nine value formats x absolute/pcrel, '
        'section addresses 0..2^63}, FDEs referring to any CIE (before or after in .debug_frame), zero terminators in '
        '.eh_frame, instruction lists over all DW_CFA opcodes with boundary operands and padded LEB128; (b) instruction '
        'lists alone; (c) tables alone incl. one probe per opcode x factor signs; (d) truncated/mutated sections '
        '(out of domain, model drift only); (e) ONE DWARFInfo holding both a .debug_frame and an .eh_frame section with '
        'different contents, descriptor names real/None/empty/equal/swapped, histories of 2-3 calls of CFI_entries and '
        'EH_CFI_entries in both orders; (f) instruction lists / tables with the optional vendor opcodes 0x1d 0x2c 0x2f, in '
        'domain iff the live _OPCODE_NAME_MAP names them; every stream handed to the library is of a kind drawn from '
        'tools/lib/streams.py (bytesio, file, file_warm, file_end, file_small, mmap, gzip, decoy_fd); (g) forced .eh_frame '
        'sections whose CIE / FDE carries 64 KiB+, 1 MiB and 1 MiB + 1 bytes of augmentation data (bytes and expectation '
        'from a fixed-shape harness-side encoder, beyond the extracted model\'s reach); all section cases run in one '
        'process as a history: the previous case\'s objects are dropped and gc.collect()ed before the next one '
        '(other address size / byte order / format). distinct = hash(kind, abstract); non-trivial = a section with >= 2 entries '
        'or an instruction list with >= 2 instructions')

FORMATS = [0, 1, 2, 3, 4, 9, 10, 11, 12]
KNOWN_DROP = 'table/final-row-without-rules-dropped'


# ------------------------------------------------------------------ LEB128 with chosen padding
def uleb(v, pad=0):
    orig = v
    out = []
    while True:
        b = v & 0x7f
        v >>= 7
        if v:
            out.append(b | 0x80)
        else:
            out.append(b)
            break
    if pad:
        out[-1] |= 0x80
        out += [0x80] * (pad - 1) + [0x00]
    return [orig, bytes(out)]


def sleb(v, pad=0):
    orig = v
    out = []
    while True:
        b = v & 0x7f
        v >>= 7
        if (v == 0 and not b & 0x40) or (v == -1 and b & 0x40):
            out.append(b)
            break
        out.append(b | 0x80)
    if pad:
        out[-1] |= 0x80
        fill = 0x7f if orig < 0 else 0x00
        out += [fill | 0x80] * (pad - 1) + [fill]
    return [orig, bytes(out)]


def rpad(rng):
    return rng.choice([0, 0, 0, 0, 0, 1, 2, 4])


U_VALS = [0, 1, 2, 7, 16, 63, 64, 127, 128, 255, 256, 16383, 16384, 2 ** 31, 2 ** 32 - 1, 2 ** 32, 2 ** 63, 2 ** 64 - 1,
          2 ** 64 + 5, 2 ** 70]
S_VALS = [0, 1, -1, 2, -2, 8, -8, 63, 64, -64, -65, 127, 128, -128, -129, 2 ** 31 - 1, -2 ** 31, 2 ** 63, -2 ** 63 - 1, 2 ** 66]
REG_VALS = [0, 1, 2, 3, 5, 7, 8, 16, 30, 31, 63, 64, 127, 128, 300]


def ru(rng, small=False):
    if small or rng.random() < 0.6:
        return uleb(rng.choice(REG_VALS), rpad(rng))
    return uleb(rng.choice(U_VALS), rpad(rng))


def ruo(rng):
    return uleb(rng.choice(U_VALS) if rng.random() < 0.4 else rng.randrange(0, 512), rpad(rng))


def rs(rng):
    return sleb(rng.choice(S_VALS) if rng.random() < 0.4 else rng.randrange(-300, 300), rpad(rng))


def rblock(rng):
    n = rng.choice([0, 1, 2, 3, 5, 127, 128, 200]) if rng.random() < 0.3 else rng.randrange(0, 6)
    return [uleb(n, rpad(rng)), bytes(rng.getrandbits(8) for _ in range(n))]


# ------------------------------------------------------------------ instruction lists
class Track:
    """what the standard needs to know for validity: kind of the current CFA rule, the state stack"""
    def __init__(self, cfa='undef', in_fde=False):
        self.cfa = cfa
        self.stack = []
        self.in_fde = in_fde


def gen_instr(rng, asize, t, allow_set_loc=True, valid=True):
    ops = ['advance_loc', 'offset', 'restore', 'nop', 'set_loc', 'advance_loc1', 'advance_loc2', 'advance_loc4',
           'offset_extended', 'restore_extended', 'undefined', 'same_value', 'register', 'remember_state',
           'restore_state', 'def_cfa', 'def_cfa_register', 'def_cfa_offset', 'def_cfa_expression', 'expression',
           'offset_extended_sf', 'def_cfa_sf', 'def_cfa_offset_sf', 'val_offset', 'val_offset_sf', 'val_expression',
           'GNU_window_save', 'GNU_args_size']
    while True:
        op = rng.choice(ops)
        if op == 'set_loc' and not allow_set_loc:
            continue
        if valid:
            if op in ('restore', 'restore_extended') and not t.in_fde:
                continue
            if op == 'restore_state' and not t.stack:
                continue
            if op in ('def_cfa_register', 'def_cfa_offset', 'def_cfa_offset_sf') and t.cfa != 'regoff':
                continue
        break
    if op == 'advance_loc':
        return [op, rng.choice([0, 1, 2, 4, 63, rng.randrange(64)])]
    if op == 'offset':
        return [op, rng.choice([0, 1, 6, 16, 63, rng.randrange(64)]), ruo(rng)]
    if op == 'restore':
        return [op, rng.choice([0, 1, 6, 16, 63, rng.randrange(64)])]
    if op in ('nop', 'GNU_window_save'):
        return [op]
    if op == 'remember_state':
        t.stack.append(t.cfa)
        return [op]
    if op == 'restore_state':
        if t.stack:
            t.cfa = t.stack.pop()
        return [op]
    if op == 'set_loc':
        m = 2 ** (8 * asize)
        return [op, rng.choice([0, 1, m - 1, m // 2, rng.randrange(m)])]
    if op == 'advance_loc1':
        return [op, rng.choice([0, 1, 255, rng.randrange(256)])]
    if op == 'advance_loc2':
        return [op, rng.choice([0, 256, 0xffff, rng.randrange(65536)])]
    if op == 'advance_loc4':
        return [op, rng.choice([0, 65536, 2 ** 32 - 1, rng.randrange(2 ** 32)])]
    if op in ('offset_extended', 'val_offset'):
        return [op, ru(rng), ruo(rng)]
    if op == 'register':
        return [op, ru(rng), ru(rng)]
    if op in ('restore_extended', 'undefined', 'same_value'):
        return [op, ru(rng)]
    if op == 'def_cfa':
        t.cfa = 'regoff'
        return [op, ru(rng), ruo(rng)]
    if op == 'def_cfa_sf':
        t.cfa = 'regoff'
        return [op, ru(rng), rs(rng)]
    if op == 'def_cfa_register':
        return [op, ru(rng)]
    if op == 'def_cfa_offset':
        return [op, ruo(rng)]
    if op == 'def_cfa_offset_sf':
        return [op, rs(rng)]
    if op == 'def_cfa_expression':
        t.cfa = 'expr'
        return [op] + rblock(rng)
    if op in ('expression', 'val_expression'):
        return [op, ru(rng)] + rblock(rng)
    if op in ('offset_extended_sf', 'val_offset_sf'):
        return [op, ru(rng), rs(rng)]
    if op == 'GNU_args_size':
        return [op, ruo(rng)]
    raise AssertionError(op)


def gen_instrs(rng, asize, t, n, allow_set_loc=True, p_invalid=0.0):
    return [gen_instr(rng, asize, t, allow_set_loc, valid=rng.random() >= p_invalid) for _ in range(n)]


def n_instrs(rng):
    r = rng.random()
    if r < 0.1:
        return 0
    if r < 0.8:
        return rng.randrange(1, 9)
    if r < 0.97:
        return rng.randrange(9, 40)
    return rng.randrange(40, 160)


# ------------------------------------------------------------------ sections
def ptr_value(rng, fmt, asize):
    """a raw value in the range of the format, with its encoding choice"""
    if fmt == 0:
        m = 2 ** (8 * asize)
        return [rng.choice([0, 1, m - 1, m // 2, 0x1000, rng.randrange(m)]), b'']
    if fmt == 1:
        return uleb(rng.choice(U_VALS + [rng.randrange(2 ** 20)]), rpad(rng))
    if fmt == 9:
        return sleb(rng.choice(S_VALS + [rng.randrange(-2 ** 20, 2 ** 20)]), rpad(rng))
    n = {2: 2, 3: 4, 4: 8, 10: 2, 11: 4, 12: 8}[fmt]
    m = 2 ** (8 * n)
    if fmt < 8:
        return [rng.choice([0, 1, m - 1, m // 2, rng.randrange(m)]), b'']
    return [rng.choice([0, 1, -1, m // 2 - 1, -(m // 2), rng.randrange(-(m // 2), m // 2)]), b'']


def range_value(rng, fmt, asize):
    v = ptr_value(rng, fmt, asize)
    if v[0] < 0:
        v = ([-v[0] - 1, b''] if fmt != 9 else sleb(-v[0] - 1, rpad(rng)))
    return v


def gen_cie(rng, eh, asize, small):
    version = rng.choice([1, 3, 4])
    fmt64 = (not eh) and rng.random() < 0.3
    info = {'fde': (0, False), 'lsda': None, 'z': False}
    aug = 'none'
    if eh and rng.random() < 0.8:
        chars = [c for c in 'RLPS' if rng.random() < 0.55]
        rng.shuffle(chars)
        items = []
        datalen = 0
        for c in chars:
            if c == 'R':
                f, pc = rng.choice(FORMATS), rng.random() < 0.6
                info['fde'] = (f, pc)
                items.append(['R', f, pc])
                datalen += 1
            elif c == 'L':
                if rng.random() < 0.15:
                    items.append(['L', 'omit'])
                else:
                    f, pc = rng.choice(FORMATS), rng.random() < 0.6
                    info['lsda'] = (f, pc)
                    items.append(['L', f, pc])
                datalen += 1
            elif c == 'P':
                f = rng.choice(FORMATS)
                v = ptr_value(rng, f, asize)
                items.append(['P', rng.choice([0, 1, 8, 9, 15]), f, v])
                datalen += 1 + (len(v[1]) if f in (1, 9) else {0: asize, 2: 2, 3: 4, 4: 8, 10: 2, 11: 4, 12: 8}[f])
            else:
                items.append(['S'])
        aug = [uleb(datalen, rpad(rng)), items]
        info['z'] = True
    caf = uleb(rng.choice([1, 1, 1, 2, 4, 4, 0, 127, 128, 2 ** 32 + 1]), rpad(rng))
    daf = sleb(rng.choice([-8, -8, -4, -4, 1, -1, 8, 4, 0, -64, -65, 63, 64, 2 ** 31, -2 ** 40]), rpad(rng))
    rar = uleb(rng.choice([0, 8, 16, 30, 65, 127, 255] + ([128, 300, 2 ** 35] if version > 1 else [])),
               rpad(rng) if version > 1 else 0)
    t = Track('undef', False)
    set_loc_ok = (not eh) or info['fde'] == (0, False)
    ins = []
    r = rng.random()
    if r < 0.85:
        ins.append(['def_cfa', ru(rng, True), ruo(rng)])
        t.cfa = 'regoff'
    elif r < 0.9:
        ins.append(['def_cfa_expression'] + rblock(rng))
        t.cfa = 'expr'
    k = 0 if small else n_instrs(rng)
    # a CIE's initial instructions normally do not advance the location; sometimes they do
    body = gen_instrs(rng, asize, t, k, set_loc_ok)
    if rng.random() < 0.85:
        body = [i for i in body if i[0] not in ('advance_loc', 'advance_loc1', 'advance_loc2', 'advance_loc4', 'set_loc')]
    ins += body
    ins += [['nop']] * rng.choice([0, 0, 1, 3])
    info['cfa'] = t.cfa
    return ['cie', fmt64, version, aug, caf, daf, rar, ins], info


def gen_fde(rng, eh, asize, cie_index, info, small):
    fmt64 = (not eh) and rng.random() < 0.3
    f, pc = info['fde'] if eh else (0, False)
    loc = ptr_value(rng, f, asize)
    rng_ = range_value(rng, f, asize)
    lsda = [0, b'']
    lsdalen = 0
    if eh and info['lsda'] is not None:
        lf = info['lsda'][0]
        lsda = ptr_value(rng, lf, asize)
        lsdalen = len(lsda[1]) if lf in (1, 9) else {0: asize, 2: 2, 3: 4, 4: 8, 10: 2, 11: 4, 12: 8}[lf]
    auglen = uleb(lsdalen, rpad(rng))
    t = Track(info['cfa'], True)
    set_loc_ok = (not eh) or info['fde'] == (0, False)
    k = rng.randrange(0, 3) if small else n_instrs(rng)
    ins = gen_instrs(rng, asize, t, k, set_loc_ok)
    ins += [['nop']] * rng.choice([0, 0, 1, 3])
    return ['fde', fmt64, cie_index, loc, rng_, auglen, lsda, ins]


ADDRS = [0, 0, 1, 0x1000, 0x400000, 2 ** 31, 2 ** 32 - 4096, 2 ** 32, 2 ** 47, 2 ** 63 - 2 ** 20, 2 ** 63]


def gen_section(rng, small=False, force=None):
    eh = rng.random() < 0.55
    le = rng.random() < 0.7
    asize = rng.choice([4, 8])
    if force is not None:
        eh, le, asize = force
    addr = rng.choice(ADDRS + [rng.getrandbits(63)])
    n = rng.randrange(1, 4) if small else rng.randrange(1, 9)
    kinds = []
    for i in range(n):
        r = rng.random()
        kinds.append('cie' if (i == 0 and eh) or r < 0.35 else 'fde')
    if 'cie' not in kinds:
        kinds[rng.randrange(n)] = 'cie'
    if eh:
        # terminators: usually at the end, sometimes in the middle
        if rng.random() < 0.3:
            kinds.append('zero')
        if rng.random() < 0.1:
            kinds.insert(rng.randrange(1, len(kinds) + 1), 'zero')
    cie_pos = [i for i, k in enumerate(kinds) if k == 'cie']
    entries = [None] * len(kinds)
    infos = {}
    for i in cie_pos:
        entries[i], infos[i] = gen_cie(rng, eh, asize, small)
    for i, k in enumerate(kinds):
        if k == 'zero':
            entries[i] = ['zero']
        elif k == 'fde':
            cands = [j for j in cie_pos if j < i] if eh else cie_pos
            if not cands:
                # an FDE needs an earlier CIE in .eh_frame: make this one a CIE instead
                entries[i], infos[i] = gen_cie(rng, eh, asize, small)
                cie_pos.append(i)
                cie_pos.sort()
                continue
            j = rng.choice(cands)
            entries[i] = gen_fde(rng, eh, asize, j, infos[j], small)
    return [eh, le, asize, addr, entries]


OPTIONAL_OPCODES = {'MIPS_advance_loc8': 0x1d, 'AARCH64_negate_ra_state_with_pc': 0x2c,
                    'GNU_negative_offset_extended': 0x2f}


def gen_vendor(rng):
    """an instruction list with at least one optional vendor opcode, for a target with 4- or 8-byte addresses"""
    from tools.lib.streams import draw_kind
    asize = rng.choice([4, 4, 8])
    t = Track('regoff', True)
    ins = gen_instrs(rng, asize, t, rng.randrange(0, 5))
    for _ in range(rng.randrange(1, 4)):
        op = rng.choice(['MIPS_advance_loc8', 'MIPS_advance_loc8', 'AARCH64_negate_ra_state_with_pc',
                         'GNU_negative_offset_extended'])
        if op == 'MIPS_advance_loc8':
            v = [op, rng.choice([0, 1, 0x100, 2 ** 32 - 1, 2 ** 32, 2 ** 40 + 3, 2 ** 63, 2 ** 64 - 1, rng.getrandbits(64)])]
        elif op == 'GNU_negative_offset_extended':
            v = [op, ru(rng), ruo(rng)]
        else:
            v = [op]
        ins.insert(rng.randrange(len(ins) + 1), v)
    return [rng.random() < 0.6, asize, ins, draw_kind(rng, 0.75)]


def _vendor_supported(ins):
    """does the live module name every optional opcode of the list?"""
    from elftools.dwarf import callframe
    return all(OPTIONAL_OPCODES[i[0]] in callframe._OPCODE_NAME_MAP for i in ins if i[0] in OPTIONAL_OPCODES)


NAME_PAIRS = [('.debug_frame', '.eh_frame'), ('none', 'none'), ('', ''), ('frames', 'frames'),
              ('.eh_frame', '.debug_frame'), ('none', '.eh_frame'), ('.debug_frame', '.debug_frame'),
              ('.zdebug_frame', '.eh_frame')]
CALL_ORDERS = [[0, 1], [1, 0], [0, 1, 0], [1, 0, 1], [1, 1, 0], [0, 0, 1]]


def _name(n):
    return 'none' if n == 'none' else n.encode()


def gen_dwarfinfo(rng):
    """one DWARFInfo that holds BOTH a .debug_frame and an .eh_frame section with different contents; the descriptive
    names of the two descriptors (real, None, equal, swapped); a history of calls of CFI_entries (0) / EH_CFI_entries (1)"""
    le = rng.random() < 0.7
    asize = rng.choice([4, 8])
    sd = gen_section(rng, small=rng.random() < 0.6, force=(False, le, asize))
    se = gen_section(rng, small=rng.random() < 0.6, force=(True, le, asize))
    nd, ne = rng.choice(NAME_PAIRS)
    return [sd, se, _name(nd), _name(ne), list(rng.choice(CALL_ORDERS))]


# ------------------------------------------------------------------ fixed corpus (first in every run)
def _u(v):
    return uleb(v)


def _s(v):
    return sleb(v)


def corpus(ctx):
    cie = lambda ins, fmt64=False, aug='none', ver=3, caf=4, daf=-8: ['cie', fmt64, ver, aug, _u(caf), _s(daf), _u(8), ins]
    fde = lambda ins, j=0, fmt64=False, loc=0x1000: ['fde', fmt64, j, [loc, b''], [0x10, b''], _u(0), [0, b''], ins]
    dbg = lambda es, asize=4: [False, True, asize, 0, es]
    ehs = lambda es, asize=8, addr=0x400000: [True, True, asize, addr, es]
    out = [
        # DESIGN 5: DW_CFA_def_cfa_sf r7, -2 under factors (4, -8): standard 16
        ('section', dbg([cie([['def_cfa_sf', _u(7), _s(-2)]])])),
        # DW_CFA_restore in an FDE whose CIE produced no row
        ('section', dbg([cie([['nop']]), fde([['def_cfa', _u(7), _u(8)], ['restore', 3]])])),
        # a CIE consisting only of def_cfa_expression
        ('section', dbg([cie([['def_cfa_expression', _u(2), b'\x77\x08']]), fde([['advance_loc', 1], ['offset', 3, _u(2)]])])),
        # 64-bit DWARF CIE and FDE
        ('section', dbg([cie([['def_cfa', _u(7), _u(0)]], fmt64=True), fde([['advance_loc', 1], ['nop']], fmt64=True)], 8)),
        # .eh_frame, augmentation "" (no 'z', no 'R')
        ('section', ehs([cie([['def_cfa', _u(7), _u(8)]], ver=1, caf=1), fde([['advance_loc', 1], ['def_cfa_offset', _u(16)]], loc=0x401000)])),
        # .eh_frame "zS": no 'R'
        ('section', ehs([cie([['def_cfa', _u(7), _u(8)]], aug=[_u(0), [['S']]], ver=1, caf=1),
                         fde([['advance_loc', 1], ['def_cfa_offset', _u(16)]], loc=0x401000)])),
        # .eh_frame "zPLR" as gcc emits it, pcrel sdata4, FDE with LSDA
        ('section', ehs([cie([['def_cfa', _u(7), _u(8)], ['offset', 16, _u(1)], ['nop'], ['nop']],
                             aug=[_u(7), [['P', 9, 11, [0x20133d, b'']], ['L', 11, True], ['R', 11, True]]], ver=1, caf=1),
                         ['fde', False, 0, [-0x29e, b''], [0x89, b''], _u(4), [0xb7, b''],
                          [['advance_loc', 1], ['def_cfa_offset', _u(16)], ['offset', 6, _u(2)]]],
                         ['zero']])),
        # FDE before its CIE, two FDEs sharing it
        ('section', dbg([fde([['advance_loc', 2], ['def_cfa_offset', _u(12)]], j=2), fde([['nop']], j=2, loc=0x2000),
                         cie([['def_cfa', _u(4), _u(4)], ['offset', 8, _u(1)]])])),
        # the known finding: no rule at all in the last row
        ('section', dbg([cie([['nop']]), fde([['advance_loc', 1], ['nop']])])),
    ]
    return out


PROBE_OPS = [
    ['advance_loc', 3], ['offset', 5, None], ['restore', 5], ['nop'], ['set_loc', 0x2345], ['advance_loc1', 7],
    ['advance_loc2', 300], ['advance_loc4', 70000], ['offset_extended', 'r', None], ['restore_extended', 'r'],
    ['undefined', 'r'], ['same_value', 'r'], ['register', 'r', 'r2'], ['def_cfa', 'r', None], ['def_cfa_register', 'r'],
    ['def_cfa_offset', None], ['def_cfa_expression', 'b'], ['expression', 'r', 'b'], ['offset_extended_sf', 'r', 's'],
    ['def_cfa_sf', 'r', 's'], ['def_cfa_offset_sf', 's'], ['val_offset', 'r', None], ['val_offset_sf', 'r', 's'],
    ['val_expression', 'r', 'b'], ['GNU_window_save'], ['GNU_args_size', None],
]


def probes():
    """one small program per opcode and pair of factor signs"""
    out = []
    for caf, daf in [(1, -8), (4, -8), (2, 4), (4, 1), (3, -1)]:
        for p in PROBE_OPS:
            ins = []
            for x in p:
                if x is None:
                    ins.append(uleb(6))
                elif x == 'r':
                    ins.append(uleb(5))
                elif x == 'r2':
                    ins.append(uleb(9))
                elif x == 's':
                    ins.append(sleb(-3))
                elif x == 'b':
                    ins += [uleb(2), b'\x91\x7c']
                else:
                    ins.append(x)
            cis = [['def_cfa', uleb(7), uleb(8)], ['offset', 5, uleb(2)], ['same_value', uleb(12)]]
            pre = [['register', uleb(5), uleb(3)], ['advance_loc', 1]]
            post = [['advance_loc', 2], ['undefined', uleb(1)]]
            out.append(('table', [caf, daf, cis, 0x1000, pre + [ins] + post]))
            out.append(('table', [caf, daf, cis, 0x1000, pre + [['remember_state'], ins, ['advance_loc', 1], ['restore_state']] + post]))
            if p[0] not in ('restore', 'restore_extended'):
                out.append(('table', [caf, daf, cis + [ins], 'cie']))
    return out


def gen(ctx):
    rng = ctx.rng
    cases = list(probes())
    n_sec = ctx.scale(700, 12000)
    from tools.lib.streams import KINDS as STREAM_KINDS, draw_kind
    # the stream kind the library is handed is a dimension of the correspondence (same bytes on every kind): every
    # kind is met by both section kinds early in the run, afterwards mostly BytesIO
    for i in range(n_sec):
        sec = gen_section(rng, small=(i % 3 == 0), force=((i % 2 == 1, rng.random() < 0.7, rng.choice([4, 8]))
                                                          if i < 2 * len(STREAM_KINDS) else None))
        sec.append(STREAM_KINDS[i // 2] if i < 2 * len(STREAM_KINDS) else draw_kind(rng, 0.75))
        cases.append(('section', sec))
    for i in range(ctx.scale(150, 3000)):
        asize = rng.choice([4, 8])
        t = Track('regoff', True)
        cases.append(('instrs', [rng.random() < 0.7, asize, gen_instrs(rng, asize, t, rng.randrange(0, 60)),
                                 STREAM_KINDS[i] if i < len(STREAM_KINDS) else draw_kind(rng, 0.75)]))
    # optional vendor opcodes of the registries (MIPS_advance_loc8, AARCH64_negate_ra_state_with_pc,
    # GNU_negative_offset_extended): in the domain exactly when the live module names them
    for _ in range(ctx.scale(60, 1200)):
        cases.append(('vendor-instrs', gen_vendor(rng)))
    for _ in range(ctx.scale(40, 800)):
        le, asize, ins, _k = gen_vendor(rng)
        cases.append(('vendor-table', [rng.choice([1, 2, 4]), rng.choice([-8, -4, 4, 1]),
                                       [['def_cfa', uleb(7), uleb(8)], ['offset', 5, uleb(2)]], 0x1000, ins]))
    for _ in range(ctx.scale(400, 8000)):
        asize = 8
        t = Track('undef', False)
        cis = gen_instrs(rng, asize, t, rng.randrange(0, 6), p_invalid=0.03)
        caf = rng.choice([1, 2, 4, 0, 2 ** 33])
        daf = rng.choice([-8, -4, 4, 1, -1, 0, -2 ** 35])
        if rng.random() < 0.3:
            cases.append(('table', [caf, daf, cis, 'cie']))
        else:
            cis = [i for i in cis if i[0] not in ('restore', 'restore_extended')] if rng.random() < 0.97 else cis
            t2 = Track(t.cfa, True)
            fis = gen_instrs(rng, asize, t2, n_instrs(rng), p_invalid=0.03)
            cases.append(('table', [caf, daf, cis, rng.choice([0, 0x1000, 2 ** 64 - 16, rng.getrandbits(48)]), fis]))
    # the public entry points on one object that holds both sections, under every naming of the descriptors
    for i in range(ctx.scale(160, 2500)):
        d = gen_dwarfinfo(rng)
        d.append([STREAM_KINDS[i % len(STREAM_KINDS)], STREAM_KINDS[(i // len(STREAM_KINDS)) % len(STREAM_KINDS)]]
                 if i < 24 else [draw_kind(rng, 0.7), draw_kind(rng, 0.7)])
        cases.append(('dwarfinfo', d))
    # forced big cases: 'z' augmentation data far longer than the fields the augmentation string names (the length
    # exists so that readers can skip what they do not know): 64 KiB+, exactly 1 MiB, 1 MiB + 1, in a CIE or an FDE
    for where, n in [('fde', 2 ** 20 + 1), ('cie', 2 ** 20 + 1), ('fde', 2 ** 20), ('cie', 70001)]:
        cases.append(('bigaug', [where, n, rng.random() < 0.7, rng.choice([4, 8]), rng.getrandbits(32),
                                 rng.choice(['bytesio', 'file', 'mmap'])]))
    # out of domain: damaged sections (model drift only)
    for _ in range(ctx.scale(150, 3000)):
        cases.append(('damaged', [gen_section(rng, small=True) + [draw_kind(rng, 0.7)], rng.choice(['trunc', 'flip', 'flip', 'extend']),
                                  rng.getrandbits(32)]))
    return cases


# ------------------------------------------------------------------ implementation adapters
def _arg(a):
    if isinstance(a, (list, tuple)):
        return bytes(a)
    return a


def _instrs(instructions):
    return [[i.opcode, [_arg(a) for a in i.args]] for i in instructions]


def _opt(v):
    return 'none' if v is None else v


def _structs(st):
    return [int(st.little_endian), st.dwarf_format, st.address_size]


CIE_KEYS = ['length', 'CIE_id', 'version', 'augmentation', 'address_size', 'segment_size', 'code_alignment_factor',
            'data_alignment_factor', 'return_address_register']
FDE_KEYS = ['length', 'CIE_pointer', 'initial_location', 'address_range']


def _augdict(d):
    d = dict(d)
    out = [_opt(d.pop('length', None)), _opt(d.pop('LSDA_encoding', None)), _opt(d.pop('FDE_encoding', None))]
    p = d.pop('personality', None)
    out.append('none' if p is None else [p['encoding'], p['function']])
    flag = 0
    for k in list(d):
        if d[k] is True:          # 'S': the code stores aug_dict[True] = True
            flag = 1
            del d[k]
    out.append(flag)
    if d:
        out.append(['unexpected-keys', sorted(repr(k) for k in d)])
    return out


def _entry(e):
    from elftools.dwarf.callframe import CIE, FDE, ZERO
    if isinstance(e, ZERO):
        return ['ZERO', e.offset]
    h = e.header
    if isinstance(e, CIE):
        keys = sorted(h.keys())
        hdr = [_opt(h.get(k)) for k in CIE_KEYS]
        if keys != sorted(CIE_KEYS):
            hdr.append(['keys', keys])
        return ['CIE', e.offset, hdr, e.augmentation_bytes, _augdict(e.augmentation_dict), _instrs(e.instructions),
                _structs(e.structs)]
    if isinstance(e, FDE):
        keys = sorted(h.keys())
        hdr = [_opt(h.get(k)) for k in FDE_KEYS]
        if keys != sorted(FDE_KEYS):
            hdr.append(['keys', keys])
        return ['FDE', e.offset, hdr, e.augmentation_bytes, _opt(e.lsda_pointer), _instrs(e.instructions),
                _structs(e.structs), _entry(e.cie)]
    return ['unknown-entry-class', type(e).__name__]


def _rule_arg(a):
    if a is None:
        return 'none'
    return _arg(a)


def _decoded(d):
    rows = []
    for line in d.table:
        c = line['cfa']
        regs = sorted([k, v.type, _rule_arg(v.arg)] for k, v in line.items() if k not in ('pc', 'cfa'))
        rows.append([_opt(line.get('pc')), [_opt(c.reg), _opt(c.offset), 'none' if c.expr is None else bytes(c.expr)], regs])
    return ['ok', [rows, list(d.reg_order)]]


def _safe(f, *a):
    old = sys.getrecursionlimit()
    sys.setrecursionlimit(3000)
    try:
        return f(*a)
    except Exception as e:   # the point is to observe every exception class
        return ['err', type(e).__name__]
    finally:
        sys.setrecursionlimit(old)


def _open(S, data, kind):
    return io.BytesIO(data) if S is None else S.open(data, kind)


def impl_section(data, eh, le, asize, addr, S=None, skind='bytesio'):
    """-> (entries result, [table result per entry])"""
    from elftools.dwarf.dwarfinfo import DWARFInfo, DwarfConfig, DebugSectionDescriptor
    # the public entry points: DWARFInfo.CFI_entries() / EH_CFI_entries() on a DWARFInfo whose only
    # section is the generated one (that is where stream, size, address and base_structs come from)
    sec = DebugSectionDescriptor(stream=_open(S, data, skind), name='.eh_frame' if eh else '.debug_frame',
                                 global_offset=0, size=len(data), address=addr)
    none = dict.fromkeys(_NO_SECTIONS)
    none['eh_frame_sec' if eh else 'debug_frame_sec'] = sec
    di = DWARFInfo(config=DwarfConfig(little_endian=bool(le), machine_arch='x64', default_address_size=asize), **none)
    es = _safe(di.EH_CFI_entries if eh else di.CFI_entries)
    return _observe_entries(es)


_NO_SECTIONS = ['debug_info_sec', 'debug_aranges_sec', 'debug_abbrev_sec', 'debug_frame_sec', 'eh_frame_sec',
                'debug_str_sec', 'debug_loc_sec', 'debug_ranges_sec', 'debug_line_sec', 'debug_pubtypes_sec',
                'debug_pubnames_sec', 'debug_addr_sec', 'debug_str_offsets_sec', 'debug_line_str_sec',
                'debug_loclists_sec', 'debug_rnglists_sec', 'debug_sup_sec', 'gnu_debugaltlink_sec', 'debug_types_sec']


def impl_dwarfinfo(data_d, data_e, sd, se, name_d, name_e, calls, S=None, skinds=('bytesio', 'bytesio')):
    """ONE DWARFInfo with both call frame sections; -> [entries result per call]"""
    from elftools.dwarf.dwarfinfo import DWARFInfo, DwarfConfig, DebugSectionDescriptor
    nm = lambda n: None if n == 'none' else n.decode()
    secs = dict.fromkeys(_NO_SECTIONS)
    secs['debug_frame_sec'] = DebugSectionDescriptor(stream=_open(S, data_d, skinds[0]), name=nm(name_d), global_offset=0,
                                                     size=len(data_d), address=sd[3])
    secs['eh_frame_sec'] = DebugSectionDescriptor(stream=_open(S, data_e, skinds[1]), name=nm(name_e), global_offset=0,
                                                  size=len(data_e), address=se[3])
    di = DWARFInfo(config=DwarfConfig(little_endian=bool(sd[1]), machine_arch='x64', default_address_size=sd[2]), **secs)
    out = []
    for c in calls:
        out.append(_observe_entries(_safe(di.EH_CFI_entries if c else di.CFI_entries))[0])
    return out


def _observe_entries(es):
    """-> (entries result with FDE -> CIE links as list positions, [table result per entry])"""
    from elftools.dwarf.callframe import FDE
    if isinstance(es, list) and es and es[0] == 'err' and len(es) == 2 and isinstance(es[1], str):
        return es, []
    out = []
    for e in es:
        link = 'none'
        if isinstance(e, FDE):
            link = -1
            for i, x in enumerate(es):
                if x is e.cie:
                    link = i
                    break
        out.append([_entry(e), link])
    tables = [_safe(lambda e=e: _decoded(e.get_decoded())) for e in es]
    return ['ok', out], tables


def impl_table(caf, daf, raw_cie, loc, raw_fde):
    from elftools.dwarf.callframe import CIE, FDE, CallFrameInstruction
    from elftools.construct import Container
    mk = lambda raw: [CallFrameInstruction(op, [list(a) if isinstance(a, bytes) else a for a in args]) for op, args in raw]
    cie = CIE(header=Container(code_alignment_factor=caf, data_alignment_factor=daf), structs=None,
              instructions=mk(raw_cie), offset=0)
    if loc is None:
        return _safe(lambda: _decoded(cie.get_decoded()))
    fde = FDE(header=Container(initial_location=loc), structs=None, instructions=mk(raw_fde), offset=0, cie=cie)
    return _safe(lambda: _decoded(fde.get_decoded()))


def impl_instrs(data, le, asize, S=None, skind='bytesio'):
    from elftools.dwarf.callframe import CallFrameInfo
    from elftools.dwarf.structs import DWARFStructs
    st = DWARFStructs(little_endian=bool(le), dwarf_format=32, address_size=asize)
    stream = _open(S, data, skind)
    cfi = CallFrameInfo(stream, len(data), 0, st)
    r = _safe(lambda: cfi._parse_instructions(st, 0, len(data)))
    if r and r[0] == 'err':
        return r
    return ['ok', [_instrs(r), stream.tell()]]


# ------------------------------------------------------------------ big augmentation data (harness-side, fixed shape)
def build_bigaug(where, n, le, asize, seed):
    """An .eh_frame [CIE v1 "zR" (R = udata4, absolute); FDE; ZERO] whose CIE or FDE carries n extra bytes of
    augmentation data after the fields its augmentation string names.  Too big for the extracted model (byte lists),
    so the bytes and the expected entries are written here directly from the layout the theorems are about:
    augmentation_bytes = the declared bytes, instructions = what follows them.  -> (bytes, expected entries)"""
    import random, struct
    e = '<' if le else '>'
    pad = random.Random(seed).randbytes(n)
    pc, pf = (pad, b'') if where == 'cie' else (b'', pad)
    cie_aug = b'\x03' + pc
    cie_body = (struct.pack(e + 'I', 0) + b'\x01' + b'zR\x00' + b'\x01' + b'\x78' + b'\x10'
                + uleb(len(cie_aug))[1] + cie_aug + b'\x0c\x07\x08\x00')
    cie = struct.pack(e + 'I', len(cie_body)) + cie_body
    off = len(cie)
    loc, rng_ = 0x401000, 0x40
    fde_body = (struct.pack(e + 'III', off + 4, loc, rng_) + uleb(len(pf))[1] + pf + b'\x41\x0e\x10')
    fde = struct.pack(e + 'I', len(fde_body)) + fde_body
    data = cie + fde + b'\x00\x00\x00\x00'
    st = [int(bool(le)), 32, asize]
    x_cie = ['CIE', 0, [len(cie_body), 0, 1, b'zR', 'none', 'none', 1, -8, 16], cie_aug,
             [len(cie_aug), 'none', 3, 'none', 0], [[12, [7, 8]], [0, []]], st]
    x_fde = ['FDE', off, [len(fde_body), off + 4, loc, rng_], pf, 'none', [[65, [1]], [14, [16]]], st, x_cie]
    return data, ['ok', [[x_cie, 'none'], [x_fde, 0], [['ZERO', off + len(fde)], 'none']]]


def _digest_aug(r):
    """replace the augmentation bytes of an observed/expected entries result by (length, digest)"""
    import hashlib

    def ent(x):
        if isinstance(x, list) and x and x[0] in ('CIE', 'FDE') and len(x) > 3 and isinstance(x[3], (bytes, bytearray)):
            x = list(x)
            x[3] = [len(x[3]), hashlib.sha256(bytes(x[3])).hexdigest()]
            if x[0] == 'FDE' and len(x) > 7:
                x[7] = ent(x[7])
        return x
    if isinstance(r, list) and len(r) == 2 and r[0] == 'ok':
        return ['ok', [[ent(p[0]), p[1]] for p in r[1]]]
    return r


# ------------------------------------------------------------------ canonical forms of driver output
def _sort_table(t):
    """t = [rows, reg_order] as printed by the driver: sort the register rules of every row"""
    return [[[r[0], r[1], sorted(r[2])] for r in t[0]], t[1]]


def _canon_tres(x):
    if isinstance(x, list) and x and x[0] == 'ok':
        return ['ok', _sort_table(x[1])]
    return x


def _diff_kind(impl, spec):
    if not (isinstance(impl, list) and impl and impl[0] == 'ok'):
        return 'err-%s' % (impl[1] if isinstance(impl, list) and len(impl) > 1 else impl)
    a, b = impl[1], spec[1]
    if len(a[0]) != len(b[0]):
        return 'row-count'
    for x, y in zip(a[0], b[0]):
        if x[0] != y[0]:
            return 'pc'
        if x[1] != y[1]:
            return 'cfa'
        if x[2] != y[2]:
            return 'register-rules'
    return 'reg-order'


def _entries_key(sec, impl):
    """a stable name for the class of section an entry mismatch was seen on"""
    eh, le, asize, addr, entries = sec[:5]
    feats = []
    if any(e[0] != 'zero' and e[1] for e in entries):
        feats.append('dwarf64')
    if eh:
        wo_z = [i for i, e in enumerate(entries) if e[0] == 'cie' and e[3] == 'none']
        wo_R = [i for i, e in enumerate(entries)
                if e[0] == 'cie' and e[3] != 'none' and not any(it[0] == 'R' for it in e[3][1])]
        if any(e[0] == 'fde' and e[2] in wo_z for e in entries):
            feats.append('fde-of-cie-without-z')
        if any(e[0] == 'fde' and e[2] in wo_R for e in entries):
            feats.append('fde-of-cie-without-R')
    return 'entries/%s/%s' % ('eh_frame' if eh else 'debug_frame', '+'.join(feats) or 'plain')


def _damage(data, how, seed):
    import random
    r = random.Random(seed)
    if not data:
        return data
    if how == 'trunc':
        return data[:r.randrange(len(data))]
    if how == 'extend':
        return data + bytes(r.getrandbits(8) for _ in range(r.randrange(1, 9)))
    b = bytearray(data)
    for _ in range(r.choice([1, 1, 2])):
        b[r.randrange(len(b))] = r.getrandbits(8)
    return bytes(b)


# ------------------------------------------------------------------ evaluate
def evaluate(ctx, cases):
    from tools.lib.streams import Streams
    S = Streams(prefix='pv-c06-streams-')
    try:
        _evaluate(ctx, cases, S)
    finally:
        S.close()


def _sec5(a):
    """(section fields, stream kind) of an abstract section with or without the trailing stream kind"""
    return a[:5], (a[5] if len(a) > 5 else 'bytesio')


def _evaluate(ctx, cases, S):
    drv = ctx.driver
    reqs = []
    for kind, a in cases:
        if kind in ('section', 'damaged'):
            reqs.append(['section', (a if kind == 'section' else a[0])[:5]])
        elif kind in ('instrs', 'vendor-instrs'):
            reqs.append(['instrs', a[0], a[1], a[2]])
        elif kind == 'vendor-table':
            reqs.append(['table'] + list(a))
        elif kind == 'table':
            reqs.append(['table'] + list(a))
        elif kind == 'dwarfinfo':
            reqs.append(['dwarfinfo', a[0][:5], a[1][:5], a[2], a[3], a[4]])
        elif kind == 'bigaug':
            reqs.append(['instrs', 1, 4, []])          # placeholder: the driver is not asked about these
        else:
            raise ValueError(kind)
    answers = drv.batch(reqs)
    # second pass for damaged sections: the model on the damaged bytes
    dmg_idx = [i for i, (kind, a) in enumerate(cases) if kind == 'damaged']
    dmg_data = {}
    for i in dmg_idx:
        a = cases[i][1]
        dmg_data[i] = _damage(answers[i][0], a[1], a[2])
    dmg_ans = drv.batch([['parse', cases[i][1][0][0], cases[i][1][0][1], cases[i][1][0][2], cases[i][1][0][3], dmg_data[i]]
                         for i in dmg_idx])
    dmg_ans = dict(zip(dmg_idx, dmg_ans))

    import gc
    for i, ((kind, a), ans) in enumerate(zip(cases, answers)):
        if kind in ('section', 'dwarfinfo', 'damaged'):
            # history: every object of the previous cases (DWARFInfo, CallFrameInfo, entries, structs) has been
            # dropped; run the cyclic collector so that their memory (and id()s) can be reused by this case, which
            # has in general another address size / byte order / format.  The answer must not depend on it.
            gc.collect(1)       # young generations: where the previous case's objects are (a full collection per case costs 0.2 s)
        if kind == 'section':
            data, wf, m_entries, s_entries, m_tables, s_tables, domains = ans
            (eh, le, asize, addr, entries), skind = _sec5(a)
            i_entries, i_tables = impl_section(data, eh, le, asize, addr, S, skind)
            ctx.bump('stream_kind', skind)
            if (i + 1) % 200 == 0:
                S.drop_files()
            n = len(entries)
            m_tables = [_canon_tres(t) for t in m_tables]
            # per entry: the spec's table where the standard defines one
            spec_t, impl_t, model_t = [], [], []
            key = None
            entries_equal = (i_entries == s_entries)
            if not entries_equal:
                key = _entries_key(a, i_entries)
            for k in range(n):
                st = s_tables[k]
                if st == 'none':
                    spec_t.append('n/a'); impl_t.append('n/a'); model_t.append('n/a')
                    continue
                st = ['ok', _sort_table(st[1])]
                it = i_tables[k] if k < len(i_tables) else 'missing'
                mt = m_tables[k] if k < len(m_tables) else 'missing'
                spec_t.append(st); impl_t.append(it); model_t.append(mt)
            if key is None:
                bad = [k for k in range(n) if impl_t[k] != spec_t[k]]
                bad_in = [k for k in bad if domains[k]]
                if bad_in:
                    key = 'table/' + _diff_kind(impl_t[bad_in[0]], spec_t[bad_in[0]])
                elif bad:
                    key = KNOWN_DROP
            ctx.bump('kind', 'eh_frame' if eh else 'debug_frame')
            ctx.bump('entries', n)
            ctx.bump('address_size', asize)
            for e in entries:
                ctx.bump('entry_kind', e[0] + ('64' if e[0] != 'zero' and e[1] else ''))
                if e[0] == 'cie' and eh:
                    ctx.bump('augmentation', 'none' if e[3] == 'none' else 'z' + ''.join(it[0] for it in e[3][1]))
                if e[0] != 'zero':
                    for ins in e[7]:
                        ctx.bump('opcode', ins[0])
            ctx.record(kind, a, impl=[i_entries, impl_t], spec=[s_entries, spec_t], model=[m_entries, model_t],
                       in_domain=bool(wf), nontrivial=n >= 2, key=key)
        elif kind == 'dwarfinfo':
            data_d, data_e, wf, m_calls, s_calls = ans
            sd, se, name_d, name_e, calls = a[:5]
            skinds = a[5] if len(a) > 5 else ['bytesio', 'bytesio']
            impl = impl_dwarfinfo(data_d, data_e, sd, se, name_d, name_e, calls, S, skinds)
            ctx.bump('stream_kind', skinds[0])
            ctx.bump('stream_kind', skinds[1])
            key = None
            if impl != s_calls:
                same = (name_d == name_e)
                key = 'dwarfinfo/both-sections/%s' % ('equal-names' if same else 'distinct-names')
            ctx.bump('kind', 'dwarfinfo')
            ctx.bump('descriptor_names', '%s|%s' % (name_d if name_d == 'none' else name_d.decode(),
                                                    name_e if name_e == 'none' else name_e.decode()))
            ctx.bump('call_history', ''.join('E' if c else 'D' for c in calls))
            ctx.record(kind, a, impl=impl, spec=s_calls, model=m_calls, in_domain=bool(wf), nontrivial=True, key=key)
        elif kind == 'damaged':
            sec = a[0]
            data = dmg_data[i]
            m_entries, m_tables = dmg_ans[i]
            i_entries, i_tables = impl_section(data, sec[0], sec[1], sec[2], sec[3], S, _sec5(sec)[1])
            m_tables = [_canon_tres(t) for t in m_tables]
            ctx.bump('kind', 'damaged-' + a[1])
            ctx.record(kind, a, impl=[i_entries, i_tables], spec=[m_entries, m_tables], model=[m_entries, m_tables],
                       in_domain=False, nontrivial=True)
        elif kind == 'instrs':
            data, wf, m_split, s_split = ans
            skind = a[3] if len(a) > 3 else 'bytesio'
            impl = impl_instrs(data, a[0], a[1], S, skind)
            ctx.bump('stream_kind', skind)
            ctx.bump('kind', 'instrs')
            ctx.bump('instr_list_len', min(len(a[2]) // 10 * 10, 60))
            ctx.record(kind, a, impl=impl, spec=s_split, model=m_split, in_domain=bool(wf),
                       nontrivial=len(a[2]) >= 2, key='instrs/split')
        elif kind == 'bigaug':
            where, n, le, asize, seed = a[:5]
            skind = a[5] if len(a) > 5 else 'bytesio'
            data, expected = build_bigaug(where, n, le, asize, seed)
            impl = _digest_aug(impl_section(data, 1, le, asize, 0x400000, S, skind)[0])
            S.drop_files()
            ctx.bump('kind', 'bigaug-' + where)
            ctx.bump('augmentation_data_len', '>1MiB' if n > 2 ** 20 else ('1MiB' if n == 2 ** 20 else '64KiB+'))
            ctx.bump('stream_kind', skind)
            ctx.record(kind, a, impl=impl, spec=_digest_aug(expected), model=None, in_domain=True, nontrivial=True,
                       key='entries/eh_frame/big-augmentation-data')
        elif kind == 'vendor-instrs':
            data, wf, m_split, s_split = ans
            skind = a[3] if len(a) > 3 else 'bytesio'
            impl = impl_instrs(data, a[0], a[1], S, skind)
            sup = _vendor_supported(a[2])
            ctx.bump('kind', 'vendor-instrs' + ('' if sup else '-unsupported'))
            ctx.bump('stream_kind', skind)
            for ins in a[2]:
                ctx.bump('opcode', ins[0])
            if sup:
                # the live module names these opcodes: it must split them as the registries define them
                # (the hand model does not know them: no model answer)
                ctx.record(kind, a, impl=impl, spec=s_split, model=None, in_domain=bool(wf), nontrivial=True,
                           key='vendor/split')
            else:
                # not supported: outside the property; the model refuses them as the code does (drift only)
                ctx.record(kind, a, impl=impl, spec=m_split, model=m_split, in_domain=False, nontrivial=True)
        elif kind == 'vendor-table':
            m_t, s_t, dom, raw_cie, raw_fde = ans
            impl = impl_table(a[0], a[1], raw_cie, a[3], raw_fde)
            sup = _vendor_supported(a[4])
            ctx.bump('kind', 'vendor-table' + ('' if sup else '-unsupported'))
            if sup and s_t != 'none':
                spec = ['ok', _sort_table(s_t[1])]
                key = None
                if impl != spec:
                    key = 'vendor/table' if dom else KNOWN_DROP
                ctx.record(kind, a, impl=impl, spec=spec, model=None, in_domain=True, nontrivial=True, key=key)
            else:
                m_t = _canon_tres(m_t)
                ctx.record(kind, a, impl=impl, spec=m_t, model=m_t, in_domain=False, nontrivial=True)
        elif kind == 'table':
            m_t, s_t, dom, raw_cie, raw_fde = ans
            caf, daf = a[0], a[1]
            loc = None if a[3] == 'cie' else a[3]
            impl = impl_table(caf, daf, raw_cie, loc, raw_fde)
            m_t = _canon_tres(m_t)
            ctx.bump('kind', 'table-cie' if loc is None else 'table-fde')
            for ins in (a[2] if loc is None else a[4]):
                ctx.bump('opcode', ins[0])
            if s_t == 'none':
                # the standard gives no table: out of the property's domain; drift impl vs model only
                ctx.record(kind, a, impl=impl, spec=m_t, model=m_t, in_domain=False, nontrivial=True)
            else:
                spec = ['ok', _sort_table(s_t[1])]
                key = None
                if impl != spec:
                    key = ('table/' + _diff_kind(impl, spec)) if dom else KNOWN_DROP
                ctx.record(kind, a, impl=impl, spec=spec, model=m_t, in_domain=True,
                           nontrivial=len(a[2]) + (0 if loc is None else len(a[4])) >= 2, key=key)
