import sys, os, json, collections
sys.path.insert(0, '/verif'); sys.path.insert(0, os.environ.get('VERIF_REPO', '/repo'))
sys.setrecursionlimit(100000)
from tools.lib import framework as F
from tools.lib import sx
import importlib
def main(n=None, only=None):
    ok, out = F.step_make(['Extract/DrvC09.vo'])
    if not ok: print(out[-3000:]); return
    exe, msg, stale = F.step_driver('C09', 'Extract/DrvC09.v')
    print('driver', msg)
    ctx = F.Ctx('C09', os.environ.get('VERIF_TIER', 'quick'), int(os.environ.get('VERIF_SEED', '0')), F.Driver(exe))
    ctx.keep_all = True
    h = importlib.import_module('tools.harness.c09')
    cases = h.gen(ctx)
    if only: cases = [c for c in cases if c[0] == only]
    if n: cases = cases[:n]
    h.evaluate(ctx, cases)
    stats = collections.Counter()
    shown = collections.Counter()
    for r in ctx.results:
        a = 'in' if r['in_domain'] else 'out'
        is_ = r['impl'] == r['spec']; im = r['impl'] == r['model']; ms = r['model'] == r['spec']
        stats[(r['kind'], a, 'impl=spec' if is_ else 'impl!=spec', 'impl=model' if im else 'impl!=model', 'model=spec' if ms else 'model!=spec')] += 1
        bad = (r['in_domain'] and (not is_ or not ms)) or not im
        if bad:
            k = (r['kind'], a, r['key'], is_, im, ms)
            shown[k] += 1
            if shown[k] <= int(os.environ.get('SHOW', '1')):
                print('=== ', k)
                A = dict((x[0], x[1]) for x in r['abstract']) if r['kind'].startswith('img') else r['abstract']
                print('abstract', {k2: A[k2] for k2 in ('le','is64','machine','osabi','form','mut','order','groups','optional')} if isinstance(A, dict) else A)
                for vi in range(3):
                    if r['impl'][vi] != r['model'][vi] or (r['in_domain'] and r['impl'][vi] != r['spec'][vi]):
                        print(' view', vi)
                        I, M, S = r['impl'][vi], r['model'][vi], r['spec'][vi]
                        if isinstance(I, list) and isinstance(M, list) and len(I) == len(M) and (not r['in_domain'] or len(S) == len(I)) and I[0] not in ('ok','err'):
                            for ci in range(len(I)):
                                if I[ci] != M[ci] or (r['in_domain'] and I[ci] != S[ci]):
                                    print('  comp', ci)
                                    print('   impl ', str(I[ci])[:700])
                                    print('   model', str(M[ci])[:700])
                                    if r['in_domain']: print('   spec ', str(S[ci])[:700])
                        else:
                            print('  impl ', str(I)[:700])
                            print('  model', str(M)[:700])
                            if r['in_domain']: print('  spec ', str(S)[:700])
    for k, v in sorted(stats.items()): print(v, k)
    print(json.dumps(ctx.hist.get('in_domain')), json.dumps(ctx.hist.get('malformed')))
if __name__ == '__main__':
    main(int(sys.argv[1]) if len(sys.argv) > 1 and sys.argv[1] != '0' else None, sys.argv[2] if len(sys.argv) > 2 else None)
