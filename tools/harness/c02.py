"""C02 correspondence: section / segment contents, string tables, address mapping, strict
section-in-segment containment.
impl  = the real library on ELFFile(BytesIO(image)) over synthesized minimal images
model = extracted Model/C02Contents.v, spec = extracted Spec/C02Spec.v (all header bytes of the
images come from the Coq gABI encoders).  A second stream ('sis_oracle') validates the Coq
transliteration of binutils' ELF_SECTION_IN_SEGMENT_STRICT against /usr/bin/readelf -lW.
Observation ORDER is part of every case, never fixed by this file: each section case carries a list of orders
(one FRESH section object per order, each observer asked first once), string lookups come in a drawn order with
data() calls in between, segment data is asked before/after section_in_segment, and the 'addr_hist' stream puts
one ELFFile through a drawn history of address_offsets / iter_segments generators that are started, resumed item
by item, closed or dropped half way (model: Model/C02Hist.v, theorem C02_address_offsets_history_exact)."""
import io, os, re, subprocess, tempfile, zlib
from tools.lib.framework import impl_call, VERIF
from tools.lib.streams import Streams, KINDS, draw_kind

CLAIMED = True
CONFIG = {
    'assumptions': [
        'stream = a seekable binary stream presenting exactly the bytes of the synthesized image (the model has the '
        'seek/read semantics of io.BytesIO; the correspondence draws BytesIO, buffered files, mmap, gzip, decoy-fd streams)',
        'zlib is an oracle: theorems quantify over any inflate/zvalid satisfying inflate z 0 = (p, eof) and the '
        'max_length prefix law; the correspondence feeds CPython zlib streams (levels 0-9) and their payloads',
        'names/strings compared as UTF-8 text (errors=replace applied to both sides)',
        'the containment spec is a transliteration of binutils 2.40 ELF_SECTION_IN_SEGMENT_1(sec, seg, 1, 1) written '
        'from memory of include/elf/internal.h and validated pair by pair against /usr/bin/readelf -lW '
        '(stream sis_oracle); ELF_TBSS_SPECIAL pairs and sections whose offset+size or addr+size reach 2^64 are '
        'outside the containment theorem (DESIGN 4.2; C02_section_in_segment_wrap_refuted)',
        'section headers are taken as decoded (C01 covers header decoding); Elf_Chdr and Elf_Phdr are decoded by the '
        'model from the image with the Gen layouts',
    ],
    'trusted_extra': ['/usr/bin/readelf (GNU Binutils 2.40) as the oracle validating Spec/C02Spec.v section_in_segment_1'],
}
LEVEL = {
    'text': 'Machine-checked theorems for unbounded inputs: section data = file extent / zero block / inflated payload '
            'with size and alignment from the Chdr of the right class (zlib as a Section variable with the two '
            'DESIGN-2.4 laws, no axiom), declared/inflated size mismatch rejected, segment data, interpreter path, '
            'string lookups for every string without NUL at any offset independent of the 64-byte chunking, '
            'address_offsets = the PT_LOAD segments wholly containing the range in header order (program headers '
            'decoded from the image), and Segment.section_in_segment = binutils ELF_SECTION_IN_SEGMENT_STRICT with '
            '64-bit wrap for all header values in [0,2^64) on non-TBSS-special, non-wrapping pairs. Order and '
            'history independence are theorems too: any list of compressed/data_size/data_alignment/data() '
            'observations of one section object is answered from the (compression) header, and every answer of '
            'every history of address_offsets/iter_segments generators on one ELFFile (started, resumed, abandoned, '
            'interleaved) equals the stateless addr_map (simulation invariant lifted over the fold of the step '
            'function). Gen tables '
            '(SH_FLAGS, sh_type/p_type/ch_type decode tables for every e_machine, Elf_Chdr/Elf_Phdr layouts) are tied '
            'by theorems; the hand model is pinned by a boundary-complete correspondence.',
    'design_ref': '4.2',
    'technique': 'Coq proof (layout round trip, induction, case split + lia/btauto) + extracted-model correspondence '
                 '+ spec-vs-readelf oracle stream',
    'note': 'Trusted: Coq kernel, ExtrOcamlBasic extraction, harness, the readelf-validated transliteration of the '
            'binutils macro. No axioms. Modelled not verified: BytesIO, zlib (oracle), construct generic machinery.',
}
RULE = ('cases: (sec_plain/sec_nobits/sec_comp) sizes {0,1,63,64,65,127,128,129,255,256,4095,4096,4097,..} x placements '
        '(inside, ending at EOF, past EOF) x 4 class/byte-order configs x machines, compressed payloads with zlib '
        'levels 0-9 incl. empty, declared size equal/smaller/larger, unknown ch_type, trailing/truncated streams; '
        '(strtab) every offset of generated tables with strings around the 64-byte chunk sizes; (seg_data, interp); '
        '(addr) ranges straddling/abutting/outside every PT_LOAD of generated header tables incl. overlapping '
        'segments, non-standard e_phentsize; (sis) cross product of file-geometry x address-geometry classes x '
        '{ALLOC,TLS} flags x section types x 17 segment types x zero-size segments x values near 2^32/2^64; '
        '(sis_oracle) the same pairs, Coq macro vs /usr/bin/readelf -lW. Orders are drawn: every section case lists '
        'orders of (compressed, data_size, data_alignment, data()) each run on a fresh object obtained by get_section / '
        'abandoned iter_sections / get_section_by_name, each observer first once, sh_addralign != ch_addralign; string '
        'offsets ascending/descending/shuffled with data() in between; Segment.data before/after section_in_segment and '
        'through partly consumed iter_segments; (addr_hist) histories of start/next/close/drop/list/noise on one ELFFile '
        'over address_offsets, iter_segments() and iter_segments(PT_LOAD) generators, ranges biased to LATER PT_LOADs. '
        'Header fields that do not locate an extent are drawn: p_flags/p_vaddr/p_paddr/p_align and p_memsz (0, below, equal, '
        'above p_filesz, 2^n-1) of every seg_data/interp case (model = the Segment object built from the header in the '
        'image), sh_link/sh_info/sh_entsize of every section case. One string table per run holds strings of 65535, '
        '65536, 65537 and 70000 bytes (listed lookups: starts, interiors, chunk-boundary distances from the terminator). '
        'Entry points are drawn: the section of every section/strtab case is reached through get_section(n), '
        'iter_sections() (abandoned or listed), iter_sections(type), get_section_by_name, get_section_index, over '
        'section header tables whose e_shentsize exceeds the structure by a drawn amount (model: header read at '
        'e_shoff + n*e_shentsize). (addr_big) one table per run with 65540 program headers (e_phnum = PN_XNUM, count '
        'in section 0 sh_info; given as runs, spec answers computed from the runs, model not run) with PT_LOADs at '
        'indices 65534/65535/65536 and last, looked up by address_offsets generators and iter_segments(PT_LOAD). '
        'The stream kind (tools/lib/streams.py: bytesio, file, file_warm, file_end, file_small, mmap, gzip, decoy_fd) is '
        'drawn per case and is the last element of the abstract: every ELFFile of the case sits on that kind. (sec_kind) '
        'contents of every specialised section class (symbol tables, SHNDX, syminfo, verneed/verdef/versym, REL, RELA, '
        'RELR, DYNAMIC, NOTE, HASH, GNU_HASH, STRTAB, .stab, ARM/RISC-V attributes) with sizes on and off the entry grid. '
        '(sis) also processor-specific p_type values decoded to names (EM_ARM, EM_AARCH64; thorough: MIPS, RISC-V). '
        '(big) forced magnitudes, per run: two SHT_NOBITS sections above 1 MiB and one segment of 16 MiB + delta followed '
        'by other bytes; model not run, spec = the theorems\' conclusion in compact form ((length, all zero) resp. '
        '(length, digest) of the slice of the image). '
        'distinct = hash(kind, abstract); '
        'non-trivial = size>0 data, table with a string >= 63 bytes, any addr/sis pair')

K_SMALL = 'compressed-declared-size-smaller-accepted'
K_ZERO = 'section_in_segment-zero-size-section-at-PT_DYNAMIC/PT_NOTE-edge'
K_SFRAME = 'section_in_segment-PT_GNU_SFRAME/PT_GNU_MBIND-non-alloc-section'
K_ORACLE = 'spec-vs-readelf-oracle'
K_ORDER = 'section-answer-depends-on-observation-order'

STD = {True: dict(eh=64, ph=56, sh=64, ch=24), False: dict(eh=52, ph=32, sh=40, ch=12)}
BASE = 0x400          # data cases: tables end below, free area starts here
CFGS = [[True, True, 'EM_X86_64'], [True, False, 'EM_PPC64'], [False, True, 'EM_386'], [False, False, 'EM_MIPS'],
        [False, True, 'EM_ARM'], [True, True, 'EM_AARCH64'], [True, True, 'EM_RISCV']]
PT = dict(NULL=0, LOAD=1, DYNAMIC=2, INTERP=3, NOTE=4, SHLIB=5, PHDR=6, TLS=7, EH_FRAME=0x6474e550, STACK=0x6474e551,
          RELRO=0x6474e552, PROPERTY=0x6474e553, SFRAME=0x6474e554, MBIND_LO=0x6474e555, MBIND_MID=0x6474e555 + 77,
          MBIND_HI=0x6474e555 + 4095, MBIND_HI1=0x6474e555 + 4096, PROC1=0x70000001)
SHF_ALLOC, SHF_TLS, SHF_COMPRESSED = 2, 0x400, 0x800


def filler(n, seed):
    """non-zero deterministic garbage: zero padding is what hides a reader that looks too far"""
    return bytes(((i * 131 + seed * 17 + (i >> 8) * 7) % 255) + 1 for i in range(n))


def machine_num(name):
    from elftools.elf.enums import ENUM_E_MACHINE
    return ENUM_E_MACHINE[name]


class Img:
    """Plan of one image: ehdr | gap | phdr table (stride phentsize) | shdr table (stride shentsize) | .shstrtab | free area.
    sections: list of dicts (type flags addr offset size [link info addralign entsize]) — section 0 (null) and the
    trailing .shstrtab are added here.  segments: list of 8-tuples in Spec phdr order
    (type flags offset vaddr paddr filesz memsz align).  blobs: (offset, bytes) placed over the filler."""
    def __init__(self, cfg, sections, segments, blobs=(), length=0, phgap=0, phextra=0, seed=0, shextra=0):
        is64, le, mach = cfg
        self.is64, self.le, self.mach = bool(is64), bool(le), mach
        S = STD[self.is64]
        self.sections, self.segments, self.blobs, self.seed = sections, segments, blobs, seed
        names = b'\0'
        self.name_off = []
        for i in range(len(sections)):
            self.name_off.append(len(names))
            names += sections[i].get('name', b's%d' % (i + 1)) + b'\0'
        self.strname = len(names)
        names += b'.shstrtab\0'
        self.names = names
        self.phoff = S['eh'] + phgap
        self.phentsize = S['ph'] + phextra
        self.shoff = self.phoff + self.phentsize * len(segments)
        self.nsec = len(sections) + 2
        self.shentsize = S['sh'] + shextra      # entries may be larger than the structure (gABI e_shentsize)
        self.stroff = self.shoff + self.shentsize * self.nsec
        self.tables_end = self.stroff + len(names)
        self.length = max(length, self.tables_end)
        m = machine_num(mach)
        reqs = [['enc', 'Ehdr', self.le, self.is64,
                 [b'\x7fELF', 2 if self.is64 else 1, 1 if self.le else 2, 1, 0, 0, b'\0' * 7,
                  2, m, 1, 0, self.phoff if segments else 0, self.shoff, 0, S['eh'], self.phentsize, len(segments),
                  self.shentsize, self.nsec, self.nsec - 1]]]
        for g in segments:
            reqs.append(['enc_phdr', self.le, self.is64, list(g)])
        reqs.append(['enc', 'Shdr', self.le, self.is64, [0] * 10])
        for s, no in zip(sections, self.name_off):
            reqs.append(['enc', 'Shdr', self.le, self.is64,
                         [no, s['type'], s['flags'], s['addr'], s['offset'], s['size'], s.get('link', 0),
                          s.get('info', 0), s.get('addralign', 1), s.get('entsize', 0)]])
        reqs.append(['enc', 'Shdr', self.le, self.is64, [self.strname, 3, 0, 0, self.stroff, len(names), 0, 0, 1, 0]])
        self.reqs = reqs

    def finish(self, encs):
        S = STD[self.is64]
        img = bytearray(filler(self.length, self.seed))
        img[0:S['eh']] = encs[0]
        k = 1
        for i in range(len(self.segments)):
            e, fits = encs[k]; k += 1
            assert fits and len(e) == S['ph'], 'phdr does not fit'
            o = self.phoff + i * self.phentsize
            img[o:o + S['ph']] = e
        for i in range(self.nsec):
            e = encs[k]; k += 1
            assert len(e) == S['sh']
            o = self.shoff + i * self.shentsize
            img[o:o + S['sh']] = e
        img[self.stroff:self.stroff + len(self.names)] = self.names
        for off, b in self.blobs:
            assert off >= self.tables_end, 'blob overlaps the tables'
            end = off + len(b)
            if end > len(img):
                img.extend(b'\0' * (end - len(img)))
            img[off:end] = b
        return bytes(img)


class BigImg:
    """Image with 0xffff or more program headers: e_phnum = PN_XNUM (0xffff), the count in sh_info of section header 0.
    ehdr | phdr table given as RUNS (count, header) | null shdr, .shstrtab shdr | names.  Each distinct header is
    encoded once by the Coq encoder; the table is assembled here."""
    def __init__(self, cfg, runs, phextra=0, seed=0):
        is64, le, mach = cfg
        self.is64, self.le, self.mach = bool(is64), bool(le), mach
        S = STD[self.is64]
        self.runs, self.seed = runs, seed
        self.count = sum(c for c, _ in runs)
        assert self.count >= 0xffff
        self.names = b'\0.shstrtab\0'
        self.phoff = S['eh']
        self.phentsize = S['ph'] + phextra
        self.shoff = self.phoff + self.phentsize * self.count
        self.stroff = self.shoff + 2 * S['sh']
        self.length = self.stroff + len(self.names)
        self.reqs = [['enc', 'Ehdr', self.le, self.is64,
                      [b'\x7fELF', 2 if self.is64 else 1, 1 if self.le else 2, 1, 0, 0, b'\0' * 7,
                       4, machine_num(mach), 1, 0, self.phoff, self.shoff, 0, S['eh'], self.phentsize, 0xffff,
                       S['sh'], 2, 1]]]
        for _, g in runs:
            self.reqs.append(['enc_phdr', self.le, self.is64, list(g)])
        self.reqs.append(['enc', 'Shdr', self.le, self.is64, [0, 0, 0, 0, 0, 0, 0, self.count, 0, 0]])
        self.reqs.append(['enc', 'Shdr', self.le, self.is64, [1, 3, 0, 0, self.stroff, len(self.names), 0, 0, 1, 0]])

    def finish(self, encs):
        S = STD[self.is64]
        pad = filler(self.phentsize - S['ph'], self.seed)
        parts = [encs[0]]
        self.fits = True
        for (c, _), (e, fits) in zip(self.runs, encs[1:1 + len(self.runs)]):
            self.fits = self.fits and bool(fits) and len(e) == S['ph']
            parts.append((e + pad) * c)
        parts += [encs[-2], encs[-1], self.names]
        img = b''.join(parts)
        assert len(img) == self.length
        return img


# the stream kind of the case being evaluated (tools/lib/streams.py): every ELFFile the harness opens for that case -
# fresh objects, shared objects, predecessors - sits on a stream of that kind; all kinds present the same bytes
_CUR = {'streams': None, 'kind': 'bytesio'}


def open_elf(img):
    from elftools.elf.elffile import ELFFile
    if _CUR['streams'] is None or _CUR['kind'] == 'bytesio':
        return ELFFile(io.BytesIO(img))
    return ELFFile(_CUR['streams'].open(img, _CUR['kind']))


def load_and_drop_owner(img):
    """segments of ELFFile.load_from_path(<real file>), taken while the ELFFile is alive; then the ELFFile - the only
    holder of the file object besides the segments - is dropped and collected.  A plain Segment keeps the stream, so
    its contents must still be readable.  The caller closes seg.stream when done."""
    import gc
    from elftools.elf.elffile import ELFFile
    elf = ELFFile.load_from_path(_CUR['streams'].path_of(img))
    segs = list(elf.iter_segments())
    for k, v in list(vars(elf).items()):        # cut ELFFile <-> section cycles: the drop below finalises it at once
        if getattr(v, 'elffile', None) is elf:
            setattr(elf, k, None)
    del elf
    gc.collect(0)
    return segs


def open_after_predecessor(ctx, sibling, img, use):
    """ELFFile(img), opened right after a PREDECESSOR - an ELFFile over [sibling] (same geometry, different bytes)
    whose section 1 was put through [use] - has been dropped, and (CPython) at the very address the predecessor
    occupied: state kept at class or module level, or keyed on object identity, then answers from the wrong file.
    The reference cycles ELFFile <-> its own sections are cut before the drop so that the object is freed at once
    and its block is the next one handed out; whether the address was reused is counted in the evidence."""
    elf, ids = None, set()
    for rnd in range(3):
        e0 = impl_call(open_elf, sibling)
        if isinstance(e0, list):        # the sibling does not open: no predecessor
            break
        impl_call(lambda: use(e0.get_section(1)))
        ids.add(id(e0))
        for k, v in list(vars(e0).items()):
            if getattr(v, 'elffile', None) is e0:
                setattr(e0, k, None)
        del e0
        elf = open_elf(img)
        if id(elf) in ids:
            break
    if elf is None:
        elf = open_elf(img)
    ctx.bump('predecessor_at_same_address', id(elf) in ids)
    return elf


def utf8_canon(b):
    return b.decode('utf-8', errors='replace').encode('utf-8') if isinstance(b, (bytes, bytearray)) else b


# ------------------------------------------------------------------------------------------ generation
SIZES = [0, 1, 63, 64, 65, 127, 128, 129, 255, 256, 4095, 4096, 4097]


def payload(rng, n, kind):
    if kind == 0:
        return bytes(rng.getrandbits(8) for _ in range(n))
    if kind == 1:
        return b'\0' * n
    if kind == 2:
        unit = bytes(rng.getrandbits(8) for _ in range(rng.randint(1, 9)))
        return (unit * (n // len(unit) + 1))[:n]
    return bytes(rng.choice(b'int main(void) { return 0; }\n') for _ in range(n))


def zstream(rng, p, level):
    if rng.random() < 0.25 and p:
        co = zlib.compressobj(level, zlib.DEFLATED, rng.choice([9, 12, 15]), rng.randint(1, 9), rng.choice([0, 1, 2, 3, 4]))
        z, i = b'', 0
        while i < len(p):
            k = rng.randint(1, max(1, len(p) // 2))
            z += co.compress(p[i:i + k]); i += k
            if rng.random() < 0.4:
                z += co.flush(zlib.Z_SYNC_FLUSH)
        return z + co.flush()
    return zlib.compress(p, level)


OBS = ('compressed', 'data_size', 'data_alignment', 'data()')
OLD_ORDER = [[0, [3, 0, 1, 2]]]      # what this harness asked before orders were drawn (replays of that time)


ENTRY_POINTS = ('get_section(1) on a new ELFFile', 'get_section(1)', 'second item of an abandoned iter_sections()',
                "get_section_by_name('s1')", 'list(iter_sections())[1]', 'iter_sections(type=its type)',
                "get_section(get_section_index('s1'))")


def obtain_section(how, new_elf, shared_elf, name='s1'):
    """section 1 of the image through one of the ENTRY_POINTS; all of them must lead to the same section"""
    if how == 0:
        return new_elf().get_section(1)
    elf = shared_elf()
    if how == 1:
        return elf.get_section(1)
    if how == 2:
        it = elf.iter_sections()
        next(it)
        return next(it)         # the walk is abandoned here
    if how == 3:
        if not elf.has_section(name):
            raise LookupError('has_section(%r) is False' % name)
        return elf.get_section_by_name(name)
    if how == 4:
        return list(elf.iter_sections())[1]
    if how == 5:
        t = elf.get_section(1)['sh_type']
        # sections 0 (SHT_NULL) and 2 (.shstrtab) may have the same type: section 1 is the first or second match
        return list(elf.iter_sections(type=t))[1 if t == 'SHT_NULL' else 0]
    return elf.get_section(elf.get_section_index(name))


def draw_orders(rng, big=False):
    """Orders of observation for one section case: a list of [how, [observer codes]].  Every order runs on a FRESH
    section object reached through a drawn entry point (how: index into ENTRY_POINTS).  Each of the four observers is asked FIRST on some fresh
    object (two of the four, drawn, for big payloads), the rest of the order is a drawn permutation, sometimes with
    an observer repeated, sometimes cut short."""
    firsts = [0, 1, 2, 3]
    rng.shuffle(firsts)
    if big:
        firsts = firsts[:2]
    out = []
    for f in firsts:
        rest = [o for o in range(4) if o != f]
        rng.shuffle(rest)
        order = [f] + rest
        if rng.random() < 0.3:
            order.insert(rng.randint(1, 4), rng.randrange(4))
        if rng.random() < 0.15:
            order = order[:rng.randint(1, 3)]
        out.append([rng.randrange(len(ENTRY_POINTS)), order])
    return out


def gen_sections(ctx, cases):
    rng = ctx.rng
    cfgs = CFGS[:4] if ctx.tier == 'quick' else CFGS
    sizes = SIZES + ctx.scale([], [20000, 40000, 49999])
    for cfg in cfgs:
        is64 = cfg[0]
        for size in sizes:
            for place in ('inside', 'at_eof', 'past_eof', 'off_beyond'):
                off = BASE + rng.choice([0, 1, 7, 64])
                if place == 'inside':
                    length = off + size + rng.choice([1, 3, 64])
                elif place == 'at_eof':
                    length = off + size
                elif place == 'past_eof':
                    if size == 0:
                        continue
                    length = off + size - rng.choice([1, min(size, 5)])
                else:
                    length = BASE
                    off = BASE + rng.choice([0, 1, 100])
                sht = rng.choice([1, 1, 7, 14, 0x60000005, 0x70000001])
                flags = rng.choice([0, 2, 3, 6, 0x30, 0x402])
                cases.append(('sec_plain', [cfg, sht, flags, rng.getrandbits(20), off, size, rng.choice([0, 1, 4, 16]),
                                            length, rng.getrandbits(8), draw_orders(rng), draw_shdr_free(rng, is64)]))
            # no-bits: the offset carries no meaning, the file holds nothing for it
            off = rng.choice([0, BASE, BASE + 5, 10 ** 6, 2 ** 31 + 5])
            cases.append(('sec_nobits', [cfg, rng.choice([3, 0x403, 2, 0]), rng.getrandbits(20), off, size,
                                         rng.choice([1, 8, 32]), BASE + rng.choice([0, 10]), rng.getrandbits(8),
                                         draw_orders(rng), draw_shdr_free(rng, is64)]))
    # compressed
    psizes = [0, 1, 2, 63, 64, 65, 127, 128, 129, 255, 256, 4095, 4096] + ctx.scale([9000], [20000, 33000, 45000])
    lvl = 0
    for cfg in cfgs:
        is64 = cfg[0]
        top = 2 ** (64 if is64 else 32)
        for n in psizes:
            for rep in range(ctx.scale(2, 4)):
                p = payload(rng, n, rng.randrange(4))
                level = lvl % 10; lvl += 1
                z = zstream(rng, p, level)
                off = BASE + rng.choice([0, 1, 13])
                # sh_addralign (alignment of the COMPRESSED bytes) never equals ch_addralign: real linkers write
                # 1/4/8 into the one and the data's own alignment into the other, and equal values hide which one
                # an observer reads
                align = rng.choice([1, 4, 8])
                common = dict(cfg=cfg, sht=rng.choice([1, 1, 1, 0x60000005]), flags=SHF_COMPRESSED | rng.choice([0, 0, 2, 0x30]),
                              addr=rng.getrandbits(16), off=off, align=align, ch_type=1,
                              res=rng.getrandbits(32) if is64 else 0, declared=n,
                              ch_align=rng.choice([x for x in (0, 1, 8, 16, 2 ** 31, top - 1, top // 2) if x != align]),
                              zs=z, oracle=['valid', z, p],
                              trailing=b'', size_adj=0, tail=rng.choice([0, 0, 5]), seed=rng.getrandbits(8), level=level)

                def emit(**kw):
                    d = dict(common); d.update(kw)
                    cases.append(('sec_comp', [d['cfg'], d['sht'], d['flags'], d['addr'], d['off'], d['align'],
                                               d['ch_type'], d['res'], d['declared'], d['ch_align'], d['zs'], d['oracle'],
                                               d['trailing'], d['size_adj'], d['tail'], d['seed'], d['level'],
                                               draw_orders(rng, big=len(d['zs']) > 5000 or n > 5000),
                                               draw_shdr_free(rng, is64)]))
                emit()
                if rep == 0:
                    # declared size smaller / larger than the inflated size
                    smaller = sorted({x for x in (0, 1, n - 1, n // 2) if 0 <= x < n})
                    for dsz in smaller:
                        emit(declared=dsz)
                    for dsz in (n + 1, 2 * n + 7, min(top - 1, 2 ** 40 + n)):
                        emit(declared=dsz)
                    # outside the property: unknown type, trailing bytes, truncated stream, absurd sh_size
                    for t in (0, 2, 0x7ffffffe, 0x60000000):
                        emit(ch_type=t, oracle=['error', z])
                    emit(trailing=b'\x01\x02\x03', oracle=None)
                    if len(z) > 6:
                        emit(zs=z[:-rng.choice([1, 4, 5, len(z) // 2])], oracle=None)
                    emit(size_adj=-(len(z) + rng.choice([1, 3])), oracle=None)   # sh_size < header size: read(-k)
    # every zlib level on the empty payload and on a one-chunk payload, both header classes
    for cfg in cfgs[:2] + cfgs[2:3]:
        for level in range(10):
            for p in (b'', payload(rng, 64, 3)):
                z = zlib.compress(p, level)
                cases.append(('sec_comp', [cfg, 1, SHF_COMPRESSED, 0, BASE, 1 + level % 2 * 3, 1,
                                           0xa5a5a5a5 if cfg[0] else 0, len(p), 8 << (level % 3), z,
                                           ['valid', z, p], b'', 0, 2, level, level, draw_orders(rng),
                                           draw_shdr_free(rng, cfg[0])]))
    # the length of the COMPRESSED stream around power-of-two buffer sizes (an implementation that feeds
    # the inflater piecewise must not depend on where the stream tail - end-of-block bits, Adler-32 - falls):
    # stored blocks (level 0: |z| = n + 2 + 5 per 65535-byte block + 4) and incompressible data at level 6
    for cfg in (cfgs[0], cfgs[3 % len(cfgs)]):
        for T in ctx.scale([8192, 32768, 65536], [4096, 8192, 16384, 32768, 65536, 98304]):
            for delta in (-1, 0, 1, 2, 3, 4, 5, 9):
                for level in (0, 6):
                    n = T + delta - 11 - (5 if T + delta - 11 > 65535 else 0)
                    if level == 6 and delta not in (1, 4):
                        continue
                    pl = payload(rng, n, 0)
                    z = zlib.compress(pl, level)
                    cases.append(('sec_comp', [cfg, 1, SHF_COMPRESSED, 0, BASE, 1, 1, 0, len(pl), rng.choice([4, 8, 64]), z,
                                               ['valid', z, pl], b'', 0, rng.choice([0, 3]), rng.getrandbits(8), level,
                                               draw_orders(rng, big=True), draw_shdr_free(rng, cfg[0])]))
    # compression header cut by the end of the file (construction fails)
    for cfg in cfgs[:2] + cfgs[2:3]:
        for cut in (0, 1, STD[cfg[0]]['ch'] - 1):
            cases.append(('sec_chdr_cut', [cfg, BASE, cut, draw_orders(rng), draw_shdr_free(rng, cfg[0])]))


def section_kinds(cfg):
    """(sh_type, sh_entsize, link target, name): every specialised section class ELFFile._make_section knows, with
    the header fields its constructor wants (entry size of its table, sh_link to a string table = section 2 or to a
    symbol table = section 3).  Their CONTENTS are plain: data() is the file extent whatever the class."""
    is64, le, mach = cfg
    sym, rel, rela, word = (24, 16, 24, 8) if is64 else (16, 8, 12, 4)
    kinds = [(2, sym, 2, None), (11, sym, 2, None), (0x6ffffff3, sym, 2, None), (18, 4, 3, None),
             (0x6ffffffc, 4, 3, None), (0x6ffffffe, 0, 2, None), (0x6ffffffd, 0, 2, None), (0x6fffffff, 2, 3, None),
             (9, rel, 3, None), (4, rela, 3, None), (19, word, 0, None), (6, 2 * word, 2, None), (7, 0, 0, None),
             (5, 4, 3, None), (0x6ffffff6, 0, 3, None), (3, 0, 0, None), (1, 12, 0, b'.stab')]
    if mach in ('EM_ARM', 'EM_RISCV'):
        kinds.append((0x70000003, 0, 0, None))
    return kinds


def gen_section_kinds(ctx, cases):
    """contents of every section KIND, sizes on and off the grid of the kind's entry size"""
    rng = ctx.rng
    cfgs = (CFGS[:4] + [CFGS[4], CFGS[6]]) if ctx.tier == 'quick' else CFGS
    for cfg in cfgs:
        for sht, ent, link, name in section_kinds(cfg):
            unit = ent or 4
            for k, r in ctx.scale([(0, 0), (1, 0), (3, unit // 2), (2, 1), (5, unit - 1)],
                                  [(0, 0), (0, 1), (1, 0), (1, 1), (3, unit // 2), (2, 1), (5, unit - 1), (40, 3), (64, 0)]):
                if sht in (2, 11, 0x6ffffff3):
                    r = 0               # SymbolTableSection itself rejects (ELFError) a size off its entry grid:
                                        # such a table is not a well-formed image, the property does not speak
                size = max(k * unit + r, 0)
                if sht == 0x70000003:
                    size = max(size, 1)     # an attributes section starts with its format version byte 'A'
                if sht in (5, 0x6ffffff6) and size < 64:
                    size += 64          # the hash sections parse their parameter words when constructed
                off = BASE + rng.choice([0, 1, 7, 64])
                cases.append(('sec_kind', [cfg, sht, rng.choice([0, 2, 3, 0x42]), rng.getrandbits(20), off, size,
                                           rng.choice([0, 1, 4, 8]), off + size + 200, rng.getrandbits(8), draw_orders(rng),
                                           [link, rng.choice([0, 1, 3]), ent, rng.choice([0, 0, 8, 24])], name or b's1']))


def draw_phdr_free(rng, is64, filesz):
    """[p_flags, p_vaddr, p_paddr, p_memsz, p_align]: the program header fields that do not locate the file extent,
    drawn independently of it.  p_memsz below / equal to / above p_filesz and 0 (segments that occupy file space
    without being mapped: PT_NOTE of core files, Solaris PT_DYNAMIC, PT_RISCV_ATTRIBUTES), and huge."""
    top = 2 ** (64 if is64 else 32)
    memsz = rng.choice([0, 0, max(filesz - 1, 0), filesz // 2, filesz, filesz, filesz + 7, top - 1])
    return [rng.choice([0, 4, 5, 6, 7, 0xf0000001]), rng.choice([0, 0x1000, rng.randrange(top), top - 0x1000]),
            rng.choice([0, 0x2000, rng.randrange(top)]), memsz, rng.choice([0, 1, 4, 8, 0x1000, top // 2, top - 1])]


def draw_shdr_free(rng, is64):
    """[sh_link, sh_info, sh_entsize, shextra]: section header fields that say nothing about the contents, and by how
    much e_shentsize exceeds the structure (per-entry padding filled with garbage)"""
    top = 2 ** (64 if is64 else 32)
    return [rng.choice([0, 0, 1, 2, 77, 0xffff]), rng.choice([0, 1, rng.getrandbits(32)]),
            rng.choice([0, 0, 1, 8, 24, top - 1]), rng.choice([0, 0, 8, 1, 24, 64])]


def draw_sched(rng):
    """[perm_seed, data_every, shextra, how]: the order in which the offsets of a table are looked up (0 ascending,
    1 descending, else shuffled by that seed), after how many lookups a data() call is put in between (0: never), the
    padding of the section header table entries, the entry point through which the table section is reached"""
    return [rng.choice([0, 1, rng.randrange(2, 1 << 16), rng.randrange(2, 1 << 16)]), rng.choice([0, 1, 7, 50]),
            rng.choice([0, 8, 3, 40]), rng.randrange(1, len(ENTRY_POINTS))]


def sched_offsets(offs, sched):
    import random
    perm_seed = sched[0]
    offs = list(offs)
    if perm_seed == 1:
        offs.reverse()
    elif perm_seed > 1:
        random.Random(perm_seed).shuffle(offs)
    return offs


def gen_strings(ctx, cases):
    rng = ctx.rng
    cfgs = CFGS[:4] if ctx.tier == 'quick' else CFGS
    lens = [0, 1, 2, 62, 63, 64, 65, 127, 128, 129, 191, 192, 193, 300]

    def rs(n, uni):
        if not uni:
            return bytes(rng.randint(1, 127) for _ in range(n))
        out = b''
        while len(out) < n:
            c = rng.choice(['a', 'Z', '_', '.', 'é', '中', '\U0001f600', '0'])
            if len(out) + len(c.encode()) <= n:
                out += c.encode()
            else:
                out += b'x'
        return out
    for cfg in cfgs:
        for t in range(ctx.scale(3, 10)):
            ls = list(lens) if t == 0 else [rng.choice(lens + [rng.randint(0, 200)]) for _ in range(rng.randint(1, 8))]
            rng.shuffle(ls)
            strs = [b''] + [rs(n, uni=(t % 3 == 2)) for n in ls]
            cases.append(('strtab', [cfg, BASE + rng.randint(0, 63), strs, True, rng.choice([0, 1, 70]), rng.getrandbits(8),
                                     draw_sched(rng)]))
        if cfg is cfgs[0] or ctx.tier != 'quick':
            # a table longer than 4096 bytes: offsets far from the table start
            strs = [b''] + [rs(rng.choice([5, 17, 64, 100, 250]), False) for _ in range(60)]
            cases.append(('strtab', [cfg, BASE + rng.randint(0, 63), strs, True, 3, rng.getrandbits(8), draw_sched(rng)]))
        # "whatever its length": strings of 65535 / 65536 / 65537 / 70000 bytes (1024 read chunks and beyond).
        # Every offset of such a table would be 10^5 lookups of 10^3 reads each: the lookups are listed instead
        # (8th element): starts, interiors, chunk-boundary distances from the terminator, the neighbours
        # one table holds all four (quick: in one configuration per run, chosen by the seed)
        if ctx.tier != 'quick' or cfg is cfgs[ctx.seed % len(cfgs)]:
            strs = [b'', b'ab'] + [rs(n, False) for n in (65535, 65536, 65537, 70000)] + [b'tail']
            offs, pos = {0, 1, 3}, 0
            for x in strs:
                n = len(x)
                if n > 1000:
                    offs |= {pos, pos + 1, pos + 63, pos + 64, pos + n - 65537, pos + n - 65536, pos + n - 65535,
                             pos + n - 4097, pos + n - 64, pos + n - 1, pos + n}
                pos += n + 1
            offs |= {pos - 5, pos - 1}
            offs = sorted(o for o in offs if 0 <= o < pos)
            cases.append(('strtab', [cfg, BASE + rng.randint(0, 63), strs, True, 2, rng.getrandbits(8), draw_sched(rng), offs]))
        # malformed: last string runs into the end of the file / into the following bytes
        cases.append(('strtab', [cfg, BASE + 3, [b'', b'abc', rs(70, False)], False, 0, 1]))
        cases.append(('strtab', [cfg, BASE + 3, [b'', b'abc', rs(70, False)], False, 9, 1]))


def gen_segments(ctx, cases):
    rng = ctx.rng
    cfgs = CFGS[:4] if ctx.tier == 'quick' else CFGS
    for cfg in cfgs:
        for size in SIZES:
            for place in ('inside', 'at_eof', 'past_eof'):
                off = BASE + rng.choice([0, 1, 9])
                length = off + size + (rng.choice([1, 64]) if place == 'inside' else 0 if place == 'at_eof' else -1)
                if place == 'past_eof' and size == 0:
                    continue
                # how the Segment object is obtained (0 get_segment, 1 first item of an abandoned iter_segments(),
                # 2 list(iter_segments())[0], 3 first item of an abandoned iter_segments(type=its own type)) and what
                # is asked of it in which order: 0 data(), 1 section_in_segment(null section), 2 section_in_segment(.shstrtab)
                ops = [rng.choice([0, 0, 1, 2]) for _ in range(rng.randint(1, 4))]
                if 0 not in ops:
                    ops.insert(rng.randint(0, len(ops)), 0)
                how = rng.randrange(5)
                if how == 4:
                    ops = [0] * rng.randint(1, 2)   # 4: load_from_path, segments taken, the ELFFile dropped and collected
                                                    # BEFORE data() is asked (sections would keep the ELFFile alive)
                cases.append(('seg_data', [cfg, rng.choice([1, 1, 2, 4, 4, 7, 0x6474e551, 0x70000003, 0x12345]), off, size, length,
                                           rng.getrandbits(8), how, ops, draw_phdr_free(rng, cfg[0], size)]))
        for n in [0, 1, 2, 15, 63, 64, 65, 127, 128, 200]:
            path = (b'/lib64/ld-linux-x86-64.so.2' * 9)[:n] if n % 2 else ('/élib/ld.so'.encode() * 30)[:n]
            path = path.decode('utf-8', errors='ignore').encode()
            cases.append(('interp', [cfg, BASE + rng.choice([0, 3]), path, True, rng.choice([0, 4]), rng.getrandbits(8), 0,
                                     # a leading 9: the segment comes from load_from_path and its ELFFile is dropped
                                     # and collected before anything is asked
                                     rng.choice([[0], [1, 0], [0, 1, 0], [0, 0], [1, 1, 0], [9, 0], [9, 1, 0]]),
                                     draw_phdr_free(rng, cfg[0], len(path) + 1)]))
            # p_filesz is a free header field: the path is the C string at p_offset whatever the segment's
            # declared size (larger: bytes after the terminator lie inside the segment; smaller: the string
            # runs past it).  7th element = p_filesz - (len(path) + 1)
            extra = rng.choice([1, 2, 7, 40])
            cases.append(('interp', [cfg, BASE + rng.choice([0, 3]), path, True, extra + rng.choice([0, 4]),
                                     rng.getrandbits(8), extra, rng.choice([[0], [1, 0], [0, 1, 0]]),
                                     draw_phdr_free(rng, cfg[0], len(path) + 1 + extra)]))
            if n >= 2:
                cases.append(('interp', [cfg, BASE, path, True, rng.choice([0, 4]), rng.getrandbits(8),
                                         -rng.randint(1, n), rng.choice([[0], [1, 0], [0, 1, 0]]),
                                         draw_phdr_free(rng, cfg[0], n)]))
        cases.append(('interp', [cfg, BASE, b'/lib/ld.so.1', False, 0, 3]))


def gen_addr(ctx, cases):
    rng = ctx.rng
    cfgs = CFGS[:4] if ctx.tier == 'quick' else CFGS
    for cfg in cfgs:
        is64 = cfg[0]
        hi = 2 ** (64 if is64 else 32)
        sets = addr_sets(hi)
        for segs in sets:
            for phgap, phextra in ((0, 0), (5, 8)):
                for g in segs:
                    if g[0] != 1:
                        continue
                    v, fs, ms = g[3], g[5], g[6]
                    starts = [v - 2, v - 1, v, v + 1, v + fs - 2, v + fs - 1, v + fs, v + fs + 1, v + ms - 1, v + ms]
                    for st in starts:
                        if st < 0:
                            continue
                        for sz in (None, 0, 1, 2, fs, fs + 1):
                            if phextra and sz not in (None, 1, fs):
                                continue
                            cases.append(('addr', [cfg, phgap, phextra, [list(x) for x in segs], st, sz]))
        # random
        for _ in range(ctx.scale(40, 1500)):
            n = rng.randint(0, 5)
            segs = []
            for i in range(n):
                v = rng.choice([0x1000, 0x1040, 0x2000, rng.randrange(0x3000)])
                fs = rng.choice([0, 1, 0x40, 0x100, rng.randrange(0x200)])
                segs.append([rng.choice([1, 1, 1, 2, 4, 7, 0, 0x70000001]), rng.getrandbits(3), rng.randrange(0x4000), v, rng.choice([v, 0, 0x1000]), fs,
                             fs + rng.choice([0, 0x10]), 1])
            cases.append(('addr', [cfg, rng.choice([0, 3]), rng.choice([0, 4]), segs, rng.choice([0x1000, 0x1040, 0x10ff, 0x1100, rng.randrange(0x3200)]),
                                   rng.choice([None, 0, 1, 0x40, 0x100, rng.randrange(0x120)])]))


def addr_sets(hi):
    """the three hand-made program header tables of gen_addr (shared with the history stream)"""
    return [
        [(1, 5, 0x1000, 0x400000, 0x400000, 0x200, 0x300, 0x1000), (4, 4, 0x1100, 0x400100, 0x400100, 0x20, 0x20, 4),
         (1, 6, 0x2000, 0x600000, 0x600000, 0x80, 0x80, 0x1000), (1, 4, 0x3000, 0x400180, 0, 0x100, 0x100, 1),
         (2, 6, 0x2010, 0x600010, 0x600010, 0x40, 0x40, 8)],
        [(1, 4, 0x500, 0, 0, 0x10, 0x10, 1), (1, 6, 0x600, 0x5000, 0x5000, 0, 0x1000, 1),
         (1, 6, 0x700, 0x8000, 0x8000, 0x40, 0x4000, 1), (1, 6, 0x700, 0x8000, 0x8000, 0x40, 0x4000, 1),
         (PT['RELRO'], 4, 0x700, 0x8000, 0x8000, 0x40, 0x40, 1)],
        [(1, 5, 0x100, hi - 0x1000, 0, 0x800, 0x800, 1), (7, 4, 0x100, hi - 0x1000, 0, 0x800, 0x800, 1),
         (1, 5, hi - 0x2000, 0x10, 0, 0x100, 0x100, 1)],
    ]


def draw_history(rng, segs, nops):
    """A history of calls on ONE ELFFile: ['start', kind] creates generator number 0,1,.. ; ['next', g]; ['close', g]
    (g.close()); ['drop', g] (last reference deleted: CPython finalises the generator at once; never followed by
    next g); ['all', kind] = list(...); ['noise', c, x] = an unrelated call.  kind = ['addr', start, size, dflt]
    (dflt: size left to its default 1) | ['segs'] | ['loads'].  Ranges are drawn around the PT_LOAD segments of the
    table with the LATER ones as likely as the first; the history ends with complete lookups in every PT_LOAD."""
    loads = [g for g in segs if g[0] == 1]

    def addr_kind():
        if loads and rng.random() < 0.85:
            g = rng.choice(loads)
            v, fs = g[3], g[5]
            st = max(0, rng.choice([v, v, v + 1, v + fs - 1, v + fs, v - 1, v + fs // 2]))
            sz = rng.choice([1, 1, 0, 2, fs, fs + 1, max(fs - (st - v), 0)])
        else:
            st, sz = rng.randrange(0x3200), rng.choice([0, 1, 0x40])
        if sz == 1 and rng.random() < 0.5:
            return ['addr', st, 1, 1]
        return ['addr', st, sz, 0]

    def kind():
        r = rng.random()
        return addr_kind() if r < 0.75 else ['segs'] if r < 0.88 else ['loads']
    ops, ngen, live, gone = [], 0, [], set()
    while len(ops) < nops:
        r = rng.random()
        if r < 0.3 or not live:
            # a lookup that is started, consumed for k items and (half of the time) abandoned
            ops.append(['start', kind()])
            g = ngen
            ngen += 1
            live.append(g)
            for _ in range(rng.choice([0, 1, 1, 1, 2, 3])):
                ops.append(['next', g])
            if rng.random() < 0.5:
                how = rng.choice(['close', 'drop'])
                ops.append([how, g])
                live.remove(g)
                if how == 'drop':
                    gone.add(g)
        elif r < 0.55:
            g = rng.choice([x for x in range(ngen) if x not in gone] or [0])
            if g not in gone:
                ops.append(['next', g])
        elif r < 0.65:
            g = rng.choice(live)
            how = rng.choice(['close', 'drop'])
            ops.append([how, g])
            live.remove(g)
            if how == 'drop':
                gone.add(g)
        elif r < 0.85:
            ops.append(['all', kind()])
        else:
            ops.append(['noise', rng.randrange(9), rng.randrange(0x4000)])
    for g in loads:
        ops.append(['all', ['addr', g[3], min(1, g[5]), 0]])
    return ops


def gen_addr_hist(ctx, cases):
    rng = ctx.rng
    cfgs = CFGS[:4] if ctx.tier == 'quick' else CFGS
    for cfg in cfgs:
        hi = 2 ** (64 if cfg[0] else 32)
        for segs in addr_sets(hi):
            for phgap, phextra in ((0, 0), (5, 8)):
                for _ in range(ctx.scale(6, 60)):
                    cases.append(('addr_hist', [cfg, phgap, phextra, [list(x) for x in segs],
                                                draw_history(rng, segs, rng.choice([3, 6, 12, 20]))]))
        for _ in range(ctx.scale(60, 1500)):
            n = rng.randint(0, 6)
            segs = []
            for i in range(n):
                v = rng.choice([0x1000, 0x1040, 0x2000, rng.randrange(0x3000)])
                fs = rng.choice([0, 1, 0x40, 0x100, rng.randrange(0x200)])
                segs.append([rng.choice([1, 1, 1, 1, 2, 4, 7, 0, 0x70000001]), rng.getrandbits(3), rng.randrange(0x4000), v,
                             rng.choice([v, 0, 0x1000]), fs, fs + rng.choice([0, 0x10]), 1])
            cases.append(('addr_hist', [cfg, rng.choice([0, 3]), rng.choice([0, 4]), segs,
                                        draw_history(rng, segs, rng.choice([2, 5, 10, 16]))]))


def gen_big(ctx, cases):
    """Forced big magnitudes, one or two per run: SHT_NOBITS sections above 1 MiB (they occupy no file space: the image
    stays small) and one segment of 16 MiB + delta with bytes following it.  The answers are too big for the byte-list
    model: the spec is the theorems' conclusion in compact form - (length, all zero) for C02_data_nobits, (length,
    digest) of the slice of the very image for C02_segment_data_file_exact - computed next to the implementation's."""
    rng = ctx.rng
    cfg = CFGS[ctx.seed % 4] if ctx.tier == 'quick' else None
    for c in ([cfg] if cfg else CFGS[:4]):
        for size in ctx.scale([(1 << 20) + 1, rng.choice([(1 << 20) + 4096, 3 << 20, (5 << 20) - 1])],
                              [(1 << 20) - 1, 1 << 20, (1 << 20) + 1, 3 << 20, (16 << 20) + 7]):
            cases.append(('big', ['nobits', c, size, rng.choice([3, 0x403]), rng.choice([1, 16, 4096]), rng.getrandbits(8)]))
    for c in ([cfg] if cfg else [CFGS[0], CFGS[3]]):
        for delta in ctx.scale([rng.choice([1, 4097, (1 << 20) + 3])], [1, 4097, (16 << 20) - 1, (16 << 20) + 5]):
            cases.append(('big', ['segment', c, (16 << 20) + delta, rng.choice([1, 100, 70000]), rng.getrandbits(16)]))


def gen_addr_big(ctx, cases):
    """One program header table per run (thorough: one per class) with more than 0xffff entries, PT_LOADs at the
    table indices 65534, 65535, 65536, at the very end and near the start, everything else non-loadable; looked up
    through address_offsets generators and iter_segments(type='PT_LOAD')."""
    rng = ctx.rng
    cfgs = [CFGS[2 + ctx.seed % 2]] if ctx.tier == 'quick' else [CFGS[0], CFGS[3]]
    for cfg in cfgs:
        null = [0, 0, 0, 0, 0, 0, 0, 0]
        note = [4, 4, 0x40, 0x500000, 0, 0x20, 0x20, 4]

        def load(i):
            return [1, rng.choice([4, 5, 6]), 0x1000 * (i + 1), 0x100000 * (i + 1), 0, 0x200 + i, 0x200 + i, 0x1000]
        head = rng.randint(0, 3)
        tail_gap = rng.randint(0, 3)
        a, b, c, d, e = [load(i) for i in range(5)]
        e = [1, 4, 0x9000, a[3] + 0x10, 0, 0x100, 0x100, 1]       # overlaps the address range of a
        runs = [[head, null], [1, a], [65534 - head - 1 - 7, null], [7, note], [1, b], [1, c], [1, d], [tail_gap, note], [1, e]]
        runs = [r for r in runs if r[0] > 0]
        ops = [['start', ['addr', c[3] + 5, 1, 1]], ['next', 0], ['noise', rng.randrange(9), 7],
               ['all', ['addr', d[3], d[5], 0]], ['all', ['addr', a[3] + 0x20, 4, 0]], ['next', 0], ['all', ['loads']]]
        cases.append(('addr_big', [cfg, rng.choice([0, 8]), runs, ops]))


def sis_geometry(P, F, sizes):
    """(offset, size) classes of a section extent against a segment extent [P, P+F)"""
    out = []
    for S in sizes:
        for off in (P - 0x10 - S, P - S, P - 1, P, P + 1, P + F - S - 1, P + F - S, P + F - S + 1, P + F - 1, P + F, P + F + 1,
                    P + F + 0x10):
            if off >= 0 and (off, S) not in out:
                out.append((off, S))
    return out


def gen_sis(ctx, cases):
    rng = ctx.rng
    quick = ctx.tier == 'quick'
    P, F, V, M = 0x1000, 0x100, 0x20000, 0x180
    flagsets = [0, SHF_ALLOC, SHF_TLS, SHF_ALLOC | SHF_TLS]
    shtypes = [1, 8]
    segtypes = list(PT.values())

    def segs_for(cfg):
        out = []
        for t in segtypes:
            out.append((t, 4, P, V, V ^ 0x5540, F, M, 1))
        for t in (PT['LOAD'], PT['NOTE'], PT['DYNAMIC'], PT['TLS'], PT['INTERP']):
            out.append((t, 4, P, V, P, 0, 0, 1))        # empty segment
            out.append((t, 4, P, V, P, 0, M, 1))        # no file bytes (bss-like)
            out.append((t, 4, P, V, P, F, 0, 1))        # memsz 0 (malformed but representable)
            out.append((t, 4, P, V, P + 1, 1, 1, 1))
        return out

    # quick: every file-geometry class x {3 address geometries} and vice versa, plus a sample of the cross;
    # thorough: additionally the FULL file x address cross for the first configuration, more machines
    cfgs = [CFGS[0], CFGS[3]] if quick else [CFGS[0], CFGS[1], CFGS[2], CFGS[3], CFGS[4]]
    for cfg in cfgs:
        full = (not quick) and cfg is CFGS[0]
        with_oracle = quick or cfg in (CFGS[0], CFGS[3])
        sizes = [0, 1, 0x10, F, F + 1, M] if full else [0, 1, 0x10, F]
        fgeo = sis_geometry(P, F, sizes)
        ageo = sis_geometry(V, M, sizes)
        segs = segs_for(cfg)
        secs = []
        # full file geometry with a few address geometries, and vice versa
        inside_a = [(V + 0x20, None), (V, None), (V + M, None)]
        inside_f = [(P + 0x20, None), (P, None), (P + F, None)]
        for (off, S) in fgeo:
            for (a, _) in inside_a:
                secs.append((off, a, S))
        for (a, S) in ageo:
            for (off, _) in inside_f:
                secs.append((off, a, S))
        allpairs = [(off, a, S) for (off, S) in fgeo for (a, S2) in ageo if S2 == S]
        secs += allpairs if full else rng.sample(allpairs, 60)
        seen = set()
        for (off, a, S) in secs:
            for fl in flagsets:
                for sht in shtypes:
                    key = (off, a, S, fl, sht)
                    if key in seen:
                        continue
                    seen.add(key)
                    fl2 = fl | rng.choice([0, 0, 1, 4, 0x30])
                    s = [sht, fl2, a, off, S]
                    for g in segs:
                        cases.append(('sis', [cfg, list(g), s]))
                        if with_oracle:
                            cases.append(('sis_oracle', [cfg, list(g), s]))
        # other section types / machine-specific segment types
        for _ in range(ctx.scale(60, 600)):
            off, a, S = rng.choice(allpairs)
            s = [rng.choice([7, 14, 15, 0x60000005, 0x70000001, 0]), rng.choice(flagsets) | rng.choice([0, 1, 4]), a, off, S]
            g = list(rng.choice(segs))
            g[0] = rng.choice(segtypes + [0x70000000, 0x70000003, 0x60000000, 0x6fffffff, 0x12345])
            cases.append(('sis', [cfg, g, s]))
            cases.append(('sis_oracle', [cfg, g, s]))
    # processor-specific p_type values that the library decodes to NAMES for this e_machine (PT_ARM_EXIDX,
    # PT_AARCH64_UNWIND / _MEMTAG_MTE, PT_MIPS_*, PT_RISCV_ATTRIBUTES): binutils' rule has no clause for them, they
    # behave like any "other" segment type - sections with and without SHF_ALLOC / SHF_TLS inside, abutting, outside
    for cfg in (CFGS[4], CFGS[5]) if quick else (CFGS[4], CFGS[5], CFGS[3], CFGS[6]):
        fgeo = sis_geometry(P, F, [0, 1, 0x10, F])
        segs = [(t, 4, P, V, V, F, M, 1) for t in (0x70000000, 0x70000001, 0x70000002, 0x70000003, PT['LOAD'], PT['NOTE'])]
        for (off, S) in fgeo if not quick else rng.sample(fgeo, 12) + [(P + 0x20, 0x10)]:
            for fl in flagsets:
                for sht, a in ((1, V + (off - P)), (1, 0), (8, V + 0x20)):
                    s = [sht, fl, a % 2 ** 32, off, S]
                    for g in segs:
                        cases.append(('sis', [cfg, list(g), s]))
                        cases.append(('sis_oracle', [cfg, list(g), s]))
    # values near the top of the unsigned range: 2^64 for ELF64, 2^32 for ELF32 (no wrap there in 64-bit arithmetic)
    for cfg in (CFGS[0], CFGS[2]) if quick else CFGS[:4]:
        top = 2 ** (64 if cfg[0] else 32)
        segs = []
        for t in (PT['LOAD'], PT['NOTE'], PT['NULL'], PT['TLS']):
            segs += [(t, 4, top - 0x100, top - 0x200, 0, 0x80, 0x100, 1), (t, 4, 0, 0, 0, 0x20, 0x20, 1),
                     (t, 4, 0, 0, 0, top - 1, top - 1, 1), (t, 4, top - 1, top - 1, 0, 0, 0, 1),
                     (t, 4, 0x10, 0x10, 0, 0, 0, 1), (t, 4, top - 0x100, top - 0x100, 0, 0xff, 0xff, 1)]
        secs = []
        for fl in (0, SHF_ALLOC, SHF_ALLOC | SHF_TLS):
            for sht in (1, 8):
                secs += [[sht, fl, top - 0x200, top - 0x100, 0x80], [sht, fl, top - 0x200, top - 0x100, 0x7f],
                         [sht, fl, top - 0x1c0, top - 0xc0, 0x40], [sht, fl, top - 0x1c0, top - 0xc0, 0x41],
                         [sht, fl, 0x10, 0x10, top - 0x10], [sht, fl, 0x10, 0x10, top - 0x11], [sht, fl, 0, 0, top - 1],
                         [sht, fl, top - 1, top - 1, 0], [sht, fl, top - 1, top - 1, 1], [sht, fl, top - 2, top - 2, 1],
                         [sht, fl, 0x11, 0x11, top - 0x11], [sht, fl, 0x10, 0x10, 0], [sht, fl, 0xf, 0xf, 1],
                         [sht, fl, top - 0x100, top - 0x100, 0xff], [sht, fl, top - 0x100, top - 0x100, 0x100],
                         [sht, fl, top - 0xff, top - 0xff, 0xff], [sht, fl, 1, 1, top - 1]]
        for s in secs:
            for g in segs:
                cases.append(('sis', [cfg, list(g), s]))
                cases.append(('sis_oracle', [cfg, list(g), s]))


def corpus(ctx):
    """minimal reproducers of the defects found with this check (kept first)"""
    c64 = CFGS[0]
    p = b'hello, compressed world'
    z = zlib.compress(p, 6)
    note = [4, 4, 0x1000, 0x20000, 0x20000, 0x100, 0x100, 1]
    sframe = [PT['SFRAME'], 4, 0x1000, 0x20000, 0x20000, 0x100, 0x100, 1]
    return [
        ('sec_comp', [c64, 1, SHF_COMPRESSED, 0, BASE, 1, 1, 0, 1, 1, z, ['valid', z, p], b'', 0, 0, 0, 6]),
        ('sis', [c64, note, [1, SHF_ALLOC, 0x20000, 0x1000, 0]]),
        ('sis_oracle', [c64, note, [1, SHF_ALLOC, 0x20000, 0x1000, 0]]),
        ('sis', [c64, sframe, [1, 0, 0, 0x1010, 0x10]]),
        ('sis_oracle', [c64, sframe, [1, 0, 0, 0x1010, 0x10]]),
    ]


def gen(ctx):
    cases = []
    gen_sections(ctx, cases)
    gen_section_kinds(ctx, cases)
    gen_strings(ctx, cases)
    gen_segments(ctx, cases)
    gen_addr(ctx, cases)
    gen_addr_hist(ctx, cases)
    gen_addr_big(ctx, cases)
    gen_big(ctx, cases)
    # the stream kind is drawn per case and is the last element of the abstract (replays carry it)
    cases = [(k, a + [draw_kind(ctx.rng, 0.7)]) for k, a in cases]
    gen_sis(ctx, cases)
    return cases


# ------------------------------------------------------------------------------------------ evaluation
def readelf_mapping(img, nseg):
    """section-to-segment mapping printed by /usr/bin/readelf -lW: {segment index: set of section indices}"""
    # the file lives in the private directory of this process's Streams (removed in evaluate's finally);
    # nothing with a fixed name: two checks (and the framework's python -O pass) run side by side
    path = _CUR['streams'].path_of(img)        # evaluate() owns the Streams
    try:
        r = subprocess.run(['/usr/bin/readelf', '-lW', path], stdout=subprocess.PIPE, stderr=subprocess.PIPE,
                           env={'LC_ALL': 'C', 'PATH': '/usr/bin:/bin'})
    finally:
        os.unlink(path)
    out = r.stdout.decode('latin-1')
    i = out.find('Section to Segment mapping:')
    if i < 0:
        raise RuntimeError('readelf printed no mapping: ' + out[-300:] + r.stderr.decode('latin-1')[-300:])
    res = {}
    for line in out[i:].splitlines()[2:]:
        m = re.match(r'^\s+(\d+)\s*(.*)$', line)
        if m:
            res[int(m.group(1))] = {int(x[1:]) for x in m.group(2).split() if re.fullmatch(r's\d+', x)}
    if len(res) != nseg:
        raise RuntimeError('readelf mapping has %d segments, expected %d' % (len(res), nseg))
    return res


# ---- running orders / histories on the real objects
def run_sec_orders(ctx, img, orders, extent=None, name='s1'):
    """one FRESH section object per order; answers in the shape of the driver's sec_obs.  The case's shared ELFFile
    is opened after a predecessor over the same image with the bytes of the section's file extent changed."""
    shared = []

    def elf_shared():
        if not shared:
            if extent and extent[0] < len(img):
                lo, hi = extent[0], min(len(img), extent[0] + max(extent[1], 0))
                sib = img[:lo] + bytes(b ^ 0x5a for b in img[lo:hi]) + img[hi:]
                shared.append(open_after_predecessor(
                    ctx, sib, img, lambda s0: [s0.compressed, s0.data_size, s0.data_alignment, impl_call(s0.data)]))
            else:
                shared.append(open_elf(img))
        return shared[0]
    out = []
    for how, order in orders:
        ctx.bump('first_observer_on_fresh_object', OBS[order[0]] if order else 'none')
        ctx.bump('section_entry_point', ENTRY_POINTS[how])

        def one():
            sec = obtain_section(how, lambda: open_elf(img), elf_shared, name)
            ans = []
            for code in order:
                if code == 0:
                    ans.append(int(bool(sec.compressed)))
                elif code == 1:
                    ans.append(sec.data_size)
                elif code == 2:
                    ans.append(sec.data_alignment)
                else:
                    d = impl_call(sec.data)
                    ans.append(['ok', d] if isinstance(d, bytes) else d)
            return ['ok', ans]
        r = impl_call(one)
        if r[0] == 'err':
            # constructing the section raised (malformed file, outside the property): that ELFFile is not used
            # again - what a later call on it answers (a half-filled name map ...) is not C02's business
            shared.clear()
        out.append(r)
    return out


def order_dependent(impl, orders):
    """did the same observer give different answers on different fresh objects / at different places of an order?"""
    seen = {}
    for (how, order), r in zip(orders, impl):
        if isinstance(r, list) and len(r) == 2 and r[0] == 'ok':
            for code, ans in zip(order, r[1]):
                if seen.setdefault(code, ans) != ans:
                    return True
    return False


def seg_item(seg):
    return [seg['p_flags'], seg['p_offset'], seg['p_vaddr'], seg['p_paddr'], seg['p_filesz'], seg['p_memsz'], seg['p_align']]


def run_history(ctx, img, ops):
    """the history on ONE ELFFile; answers in the shape of the driver's elf_hist"""
    elf = open_elf(img)
    gens, is_addr = [], []

    def make(kind):
        if kind[0] == 'addr':
            return elf.address_offsets(kind[1]) if len(kind) > 3 and kind[3] else elf.address_offsets(kind[1], kind[2])
        return elf.iter_segments() if kind[0] == 'segs' else elf.iter_segments(type='PT_LOAD')

    def item(kind, v):
        return [v] if kind[0] == 'addr' else seg_item(v)
    out = []
    for op in ops:
        t = op[0]
        ctx.bump('history_op', t)
        if t == 'start':
            gens.append(make(op[1]))
            is_addr.append(op[1])
            out.append('unit')
        elif t == 'next':
            g = op[1]
            if g >= len(gens):
                out.append('nogen')
            elif gens[g] is None:
                out.append('stop')      # (only in hand-edited replays) a dropped generator is a finished one
            else:
                try:
                    out.append(['item', item(is_addr[g], next(gens[g]))])
                except StopIteration:
                    out.append('stop')
                except Exception as e:  # noqa
                    out.append(['err', type(e).__name__])
        elif t in ('close', 'drop'):
            g = op[1]
            if g >= len(gens):
                out.append('nogen')
            else:
                if t == 'close' and gens[g] is not None:
                    gens[g].close()
                else:
                    gens[g] = None      # last reference gone: CPython finalises the suspended generator now
                out.append('unit')
        elif t == 'all':
            try:
                out.append(['list', [item(op[1], v) for v in make(op[1])]])
            except Exception as e:  # noqa
                out.append(['err', type(e).__name__])
        else:
            c, x = op[1], op[2] if len(op) > 2 else 0
            n = elf.num_segments()

            def noise():
                if c == 0:
                    elf.num_segments()
                elif c == 1:
                    if n:
                        elf.get_segment(x % n)
                elif c == 2:
                    next(elf.iter_sections())
                elif c == 3:
                    list(elf.iter_sections())
                elif c == 4:
                    elf.get_section_by_name('.shstrtab')
                elif c == 5:
                    elf.get_section(elf.num_sections() - 1).data()
                elif c == 6:
                    elf.stream.seek(x)
                elif c == 7:
                    next(elf.iter_segments(), None)
                else:
                    elf.has_dwarf_info()
            impl_call(noise)
            out.append('unit')
    return out


class Work:
    __slots__ = ('full', 'skind', 'kind', 'a', 'img', 'plan', 'enc_lo', 'enc_n', 'extra', 'model_req', 'spec_req', 'mi', 'si')


def evaluate(ctx, cases):
    _CUR['streams'], _CUR['kind'] = Streams(prefix='pv-c02-streams-'), 'bytesio'
    try:
        _evaluate(ctx, cases)
    finally:
        _CUR['streams'].close()
        _CUR['streams'], _CUR['kind'] = None, 'bytesio'


def model_for(w, in_dom, model):
    """the model is of BytesIO semantics: outside the property's domain (extents past the end of the file, negative
    read sizes) the other stream kinds may legitimately differ (mmap.seek past EOF raises); no drift is counted there"""
    return model if in_dom or w.skind == 'bytesio' else None


def _evaluate(ctx, cases):
    drv = ctx.driver
    works = []
    enc_reqs = []
    sis_groups = {}     # cfg-key -> list of work indices

    # ---- pass 1: plans and encoder requests
    for kind, a in cases:
        w = Work()
        w.full, w.skind = a, 'bytesio'
        if a and isinstance(a[-1], str) and a[-1] in KINDS:
            a, w.skind = a[:-1], a[-1]          # trailing element of an abstract: the stream kind of the case
        w.kind, w.a, w.plan, w.extra = kind, a, None, {}
        if kind in ('sec_plain', 'sec_kind'):
            cfg, sht, flags, addr, off, size, align, length, seed = a[:9]
            fr = a[10] if len(a) > 10 else [0, 0, 0]
            secs = [dict(type=sht, flags=flags, addr=addr, offset=off, size=size, addralign=align,
                         link=fr[0], info=fr[1], entsize=fr[2])]
            if kind == 'sec_kind':
                # section 2: a string table, section 3: a dynamic symbol table over it (targets of sh_link)
                secs[0]['name'] = a[11]
                symsz = 24 if cfg[0] else 16
                secs.append(dict(type=3, flags=0, addr=0, offset=off + size + 16, size=8))
                secs.append(dict(type=11, flags=2, addr=0, offset=off + size + 24, size=2 * symsz, link=2, info=1,
                                 entsize=symsz))
            blobs = []
            if kind == 'sec_kind' and sht in (5, 0x6ffffff6):
                # the hash section classes read their table when constructed: a minimal well-formed table (one bucket,
                # one chain / one bloom word) stands at the start of the extent, garbage follows
                import struct
                e, xw = '<' if cfg[1] else '>', 'Q' if cfg[0] else 'I'
                tbl = struct.pack(e + '4I', 1, 1, 0, 0) if sht == 5 else struct.pack(e + '4I' + xw + 'I', 1, 1, 1, 0, 0, 0)
                blobs = [(off, tbl)]
            if kind == 'sec_kind' and sht == 0x70000003:
                blobs = [(off, b'A')]       # the attributes section classes check their format version byte
            w.plan = Img(cfg, secs, [], blobs=blobs, length=length, seed=seed, shextra=fr[3] if len(fr) > 3 else 0)
        elif kind == 'sec_nobits':
            cfg, flags, addr, off, size, align, length, seed = a[:8]
            fr = a[9] if len(a) > 9 else [0, 0, 0]
            w.plan = Img(cfg, [dict(type=8, flags=flags, addr=addr, offset=off, size=size, addralign=align,
                                    link=fr[0], info=fr[1], entsize=fr[2])], [], length=length, seed=seed,
                         shextra=fr[3] if len(fr) > 3 else 0)
        elif kind == 'sec_comp':
            (cfg, sht, flags, addr, off, align, ch_type, res, declared, ch_align, zs, oracle, trailing, size_adj, tail,
             seed, level) = a[:17]
            body_len = STD[bool(cfg[0])]['ch'] + len(zs) + len(trailing)
            fr = a[18] if len(a) > 18 else [0, 0, 0]
            w.plan = Img(cfg, [dict(type=sht, flags=flags, addr=addr, offset=off, size=body_len + size_adj,
                                    addralign=align, link=fr[0], info=fr[1], entsize=fr[2])], [],
                         length=off + body_len + tail, seed=seed, shextra=fr[3] if len(fr) > 3 else 0)
            w.plan.reqs.append(['enc_chdr', bool(cfg[1]), bool(cfg[0]), ch_type, res, declared, ch_align])
        elif kind == 'sec_chdr_cut':
            cfg, off, cut = a[:3]
            fr = a[4] if len(a) > 4 else [0, 0, 0]
            w.plan = Img(cfg, [dict(type=1, flags=SHF_COMPRESSED, addr=0, offset=off, size=100, link=fr[0], info=fr[1],
                                    entsize=fr[2])], [], length=off + cut, seed=3, shextra=fr[3] if len(fr) > 3 else 0)
        elif kind == 'strtab':
            cfg, off, strs, final_nul, tail, seed = a[:6]
            tbl = b'\0'.join(strs) + (b'\0' if final_nul else b'')
            w.extra['tbl'] = tbl
            sched = a[6] if len(a) > 6 else [0, 0]
            w.plan = Img(cfg, [dict(type=3, flags=0, addr=0, offset=off, size=len(tbl))], [], blobs=[(off, tbl)],
                         length=off + len(tbl) + tail, seed=seed, shextra=sched[2] if len(sched) > 2 else 0)
        elif kind == 'seg_data':
            cfg, ptype, off, size, length, seed = a[:6]
            fl, va, pa, msz, al = a[8] if len(a) > 8 else (4, 0x1000, 0x2000, size + 7, 1)
            w.plan = Img(cfg, [], [(ptype, fl, off, va, pa, size, msz, al)], length=length, seed=seed)
        elif kind == 'interp':
            cfg, off, path, term, tail, seed = a[:6]
            fsz_delta = a[6] if len(a) > 6 else 0
            blob = path + (b'\0' if term else b'')
            fsz = len(blob) + fsz_delta
            fl, va, pa, msz, al = a[8] if len(a) > 8 else (4, 0x1000, 0x2000, fsz + 3, 1)
            w.plan = Img(cfg, [], [(3, fl, off, va, pa, fsz, msz, al)],
                         blobs=[(off, blob)],
                         length=off + len(blob) + tail, seed=seed)
        elif kind == 'addr':
            cfg, phgap, phextra, segs, start, size = a
            w.plan = Img(cfg, [], [tuple(g) for g in segs], phgap=phgap, phextra=phextra, seed=5)
        elif kind == 'addr_hist':
            cfg, phgap, phextra, segs, ops = a
            w.plan = Img(cfg, [], [tuple(g) for g in segs], phgap=phgap, phextra=phextra, seed=6)
        elif kind == 'big':
            if a[0] == 'nobits':
                _, cfg, size, flags, align, seed = a
                w.plan = Img(cfg, [dict(type=8, flags=flags, addr=0x10000, offset=BASE, size=size, addralign=align)], [],
                             length=BASE + 16, seed=seed)
            else:
                _, cfg, fsz, trail, seed = a
                w.plan = Img(cfg, [], [(1, 5, BASE, 0x10000, 0x10000, fsz, fsz + 8, 0x1000)], length=BASE, seed=7)
        elif kind == 'addr_big':
            cfg, phextra, runs, ops = a
            w.plan = BigImg(cfg, [(c, tuple(g)) for c, g in runs], phextra=phextra, seed=7)
        elif kind in ('sis', 'sis_oracle'):
            cfg, g, s = a
            sis_groups.setdefault((tuple(cfg), kind), []).append(len(works))
        else:
            raise ValueError(kind)
        if w.plan is not None:
            w.enc_lo, w.enc_n = len(enc_reqs), len(w.plan.reqs)
            enc_reqs.extend(w.plan.reqs)
        works.append(w)
    encs = drv.batch(enc_reqs)

    # ---- pass 2: images, model and spec requests
    reqs = []

    def ask(r):
        reqs.append(r)
        return len(reqs) - 1
    for w in works:
        if w.plan is None:
            continue
        e = encs[w.enc_lo:w.enc_lo + w.enc_n]
        pl = w.plan
        kind, a = w.kind, w.a
        le, is64, mach = pl.le, pl.is64, pl.mach
        if kind == 'sec_comp':
            (cfg, sht, flags, addr, off, align, ch_type, res, declared, ch_align, zs, oracle, trailing, size_adj, tail,
             seed, level) = a[:17]
            w.extra['orders'] = a[17] if len(a) > 17 else OLD_ORDER
            chdr, fits = e[-1]
            assert fits, 'Chdr values do not fit'
            pl.blobs = [(off, chdr + zs + trailing)]
            w.img = pl.finish(e[:-1])
            size = pl.sections[0]['size']
            if oracle is None:
                # outside the property: CPython's own answer for exactly the bytes and limit the code must use
                hs = STD[is64]['ch']
                n = size - hs
                data = w.img[off + hs:] if n < 0 else w.img[off + hs:off + hs + n]
                try:
                    d = zlib.decompressobj()
                    out = d.decompress(data, declared)
                    oracle = ['raw', data, declared, out, d.eof]
                except zlib.error:
                    oracle = ['error', data]
            w.extra['oracle'] = oracle
            olist = [o for _, o in w.extra['orders']]
            w.mi = ask(['sec_obs_at', w.img, le, is64, mach, pl.shoff, pl.shentsize, 1, oracle, olist])
            w.si = ask(['spec_sec_obs', w.img, le, is64, sht, flags, off, size, align, oracle, olist])
            continue
        w.img = pl.finish(e)
        if kind == 'strtab':
            # a sibling file: same geometry (every NUL where it was), every other byte of the table different.
            # It is opened, queried and collected BEFORE the case's file (see pass 3): answers must come from the
            # file at hand, not from an object that lived at the same address before
            keep = pl.blobs
            pl.blobs = [(o, bytes(0 if b == 0 else b % 127 + 1 for b in t)) for o, t in keep]
            w.extra['sibling'] = pl.finish(e)
            pl.blobs = keep
        if kind in ('sec_plain', 'sec_kind', 'sec_nobits', 'sec_chdr_cut'):
            s = pl.sections[0]
            o = ['error', b'']
            nfix = {'sec_plain': 9, 'sec_kind': 9, 'sec_nobits': 8, 'sec_chdr_cut': 3}[kind]
            w.extra['orders'] = a[nfix] if len(a) > nfix else OLD_ORDER
            olist = [o2 for _, o2 in w.extra['orders']]
            w.mi = ask(['sec_obs_at', w.img, le, is64, mach, pl.shoff, pl.shentsize, 1, o, olist])
            w.si = ask(['spec_sec_obs', w.img, le, is64, s['type'], s['flags'], s['offset'], s['size'],
                        s.get('addralign', 1), o, olist])
        elif kind == 'strtab':
            off = a[1]
            sched = a[6] if len(a) > 6 else [0, 0]
            base = a[7] if len(a) > 7 else range(len(w.extra['tbl']) + (0 if a[3] else 1))
            offs = sched_offsets(base, sched)
            w.extra['offs'], w.extra['data_every'] = offs, sched[1]
            w.mi = ask(['get_strings', w.img, off, offs])
            w.si = ask(['spec_strings', w.img, off, offs])
            if sched[1]:
                # data() of the table between the lookups: the plain-section model / spec of the same extent
                o = ['error', b'']
                w.extra['dmi'] = ask(['sec', w.img, le, is64, mach, 3, 0, 0, off, len(w.extra['tbl']), 1, o])
                w.extra['dsi'] = ask(['spec_sec', w.img, le, is64, 3, 0, off, len(w.extra['tbl']), 1, o])
        elif kind == 'seg_data':
            # the model is the Segment OBJECT built from the program header in the image (free fields and all)
            w.mi = ask(['seg_data_at', w.img, le, is64, pl.phoff])
            w.si = ask(['spec_extent', w.img, a[2], a[3]])
            w.extra['how'], w.extra['ops'] = (a[6], a[7]) if len(a) > 7 else (0, [0])
            g = list(pl.segments[0])
            w.extra['sis'] = {}
            for code, sh in ((1, [0, 0, 0, 0, 0]), (2, [3, 0, 0, pl.stroff, len(pl.names)])):
                if code in w.extra['ops']:
                    w.extra['sis'][code] = (ask(['sis_gen', mach, g, sh]), ask(['spec_sis', g, sh]))
        elif kind == 'interp':
            w.mi = ask(['interp_at', w.img, le, is64, pl.phoff])
            w.si = ask(['spec_string', w.img, a[1]])
            w.extra['ops'] = a[7] if len(a) > 7 else [0]
            w.extra['drop_owner'] = w.extra['ops'][:1] == [9]
            if w.extra['drop_owner']:
                w.extra['ops'] = w.extra['ops'][1:]
            if 1 in w.extra['ops']:
                fsz = pl.segments[0][5]
                w.extra['dmi'] = ask(['seg_data_at', w.img, le, is64, pl.phoff])
                w.extra['dsi'] = ask(['spec_extent', w.img, a[1], fsz])
        elif kind == 'addr':
            cfg, phgap, phextra, segs, start, size = a
            sz = 1 if size is None else size
            w.mi = ask(['addr', w.img, le, is64, mach, pl.phoff, pl.phentsize, len(segs), start, sz])
            w.si = ask(['spec_addr', w.img, le, is64, pl.phoff, pl.phentsize, segs, start, sz])
        elif kind == 'big':
            if a[0] == 'nobits':
                # header-level answers from the driver; the data is compared in compact form (see gen_big)
                sh = pl.sections[0]
                o = ['error', b'']
                w.mi = ask(['sec_obs_at', w.img, le, is64, mach, pl.shoff, pl.shentsize, 1, o, [[0, 1, 2]]])
                w.si = ask(['spec_sec_obs', w.img, le, is64, 8, sh['flags'], sh['offset'], sh['size'], sh['addralign'], o,
                            [[0, 1, 2]]])
            else:
                import random
                assert len(w.img) == BASE
                r = random.Random(a[4])
                w.img = w.img + r.randbytes(a[2]) + r.randbytes(a[3])    # the segment's bytes, then what follows it
        elif kind == 'addr_big':
            cfg, phextra, runs, ops = a
            dops = [['close', o[1]] if o[0] == 'drop' else o for o in ops]
            # the model is not run on this image (megabytes as a list of Z): model = spec for tables of every
            # length is theorem C02_address_offsets_history_exact; the spec answers come from the runs
            w.mi = None
            w.si = ask(['spec_elf_hist_sparse', le, is64, runs, dops])
        elif kind == 'addr_hist':
            cfg, phgap, phextra, segs, ops = a
            # the model and the spec know close(); dropping the last reference is the same event for a generator
            dops = [['close', o[1]] if o[0] == 'drop' else o for o in ops]
            w.mi = ask(['elf_hist', w.img, le, is64, mach, pl.phoff, pl.phentsize, len(segs), dops])
            w.si = ask(['spec_elf_hist', w.img, le, is64, pl.phoff, pl.phentsize, segs, dops])
    # containment pairs: model and spec need no image
    for (cfgk, kind), idxs in sis_groups.items():
        for i in idxs:
            w = works[i]
            cfg, g, s = w.a
            if kind == 'sis':
                w.mi = ask(['sis_gen', cfg[2], g, s])   # the body translated from the live source; = hand model by theorem
            w.si = ask(['spec_sis', g, s])
    answers = drv.batch(reqs)

    # ---- containment: build shared images (many sections x many segments), run impl / readelf once per image
    sis_impl = {}
    for (cfgk, kind), idxs in sis_groups.items():
        cfg = list(cfgk)
        secs, segs, want = [], [], set()
        sidx, gidx = {}, {}
        for i in idxs:
            _, g, s = works[i].a
            ks, kg = tuple(s), tuple(g)
            if ks not in sidx:
                sidx[ks] = len(secs); secs.append(ks)
            if kg not in gidx:
                gidx[kg] = len(segs); segs.append(kg)
            want.add((sidx[ks], gidx[kg]))
        SC, GC = 60, 40
        imgs = []
        for s0 in range(0, len(secs), SC):
            for g0 in range(0, len(segs), GC):
                if not any((si, gi) in want for si in range(s0, min(s0 + SC, len(secs))) for gi in range(g0, min(g0 + GC, len(segs)))):
                    continue
                pl = Img(cfg, [dict(type=s[0], flags=s[1], addr=s[2], offset=s[3], size=s[4]) for s in secs[s0:s0 + SC]],
                         segs[g0:g0 + GC], seed=9)
                imgs.append((s0, g0, pl))
        allreq = []
        for s0, g0, pl in imgs:
            allreq.extend(pl.reqs)
        enc2 = drv.batch(allreq)
        k = 0
        for s0, g0, pl in imgs:
            img = pl.finish(enc2[k:k + len(pl.reqs)])
            k += len(pl.reqs)
            ns, ng = len(pl.sections), len(pl.segments)
            if kind == 'sis':
                elf = open_elf(img)
                sobjs = [elf.get_section(j + 1) for j in range(ns)]
                for gi in range(ng):
                    seg = elf.get_segment(gi)
                    for sj in range(ns):
                        if (s0 + sj, g0 + gi) in want:
                            sis_impl[(cfgk, kind, secs[s0 + sj], segs[g0 + gi])] = impl_call(lambda: bool(seg.section_in_segment(sobjs[sj])))
            else:
                m = readelf_mapping(img, ng)
                for gi in range(ng):
                    for sj in range(ns):
                        if (s0 + sj, g0 + gi) in want:
                            sis_impl[(cfgk, kind, secs[s0 + sj], segs[g0 + gi])] = (sj + 1) in m[gi]

    # ---- pass 3: the real library, record
    for w in works:
        kind, a = w.kind, w.a
        ctx.bump('kind', kind)
        if _CUR['streams']._open:
            _CUR['streams'].drop_files()        # the previous case's files
        _CUR['kind'] = w.skind
        if kind not in ('sis', 'sis_oracle'):
            ctx.bump('stream_kind', w.skind)
        if kind in ('sec_plain', 'sec_kind', 'sec_nobits', 'sec_comp', 'sec_chdr_cut'):
            model = answers[w.mi]
            sp = answers[w.si]
            in_dom = sp != 'none'
            spec = sp[1] if in_dom else model
            sh = w.plan.sections[0]
            lo = max(sh['offset'], w.plan.tables_end)       # the headers stay: the sibling has the same geometry
            impl = run_sec_orders(ctx, w.img, w.extra['orders'], extent=(lo, sh['offset'] + sh['size'] - lo),
                                  name=sh.get('name', b's1').decode())
            key = None
            nt = True
            if kind == 'sec_comp':
                declared, zs, oracle = a[8], a[10], a[11]
                if oracle and oracle[0] == 'valid':
                    plen = len(oracle[2])
                    ctx.bump('zlib_level', a[16])
                    ctx.bump('declared_vs_inflated', 'equal' if declared == plen else 'smaller' if declared < plen else 'larger')
                    if declared < plen:
                        key = K_SMALL
                if order_dependent(impl, w.extra['orders']):
                    key = K_ORDER
                ctx.bump('chdr_class', ('ELF64' if a[0][0] else 'ELF32') + ('LE' if a[0][1] else 'BE'))
            else:
                size = a[5] if kind in ('sec_plain', 'sec_kind') else a[4] if kind == 'sec_nobits' else 0
                if kind == 'sec_kind':
                    ctx.bump('section_kind', hex(a[1]) + ('/.stab' if a[11] == b'.stab' else ''))
                    ctx.bump('size_mod_entsize', 'n/a' if not a[10][2] else 'on grid' if a[5] % a[10][2] == 0 else 'off grid')
                nt = size > 0
                ctx.bump('size', size if size < 300 else '300+')
            ctx.record(kind, w.full, impl=impl, spec=spec, model=model_for(w, in_dom, model), in_domain=in_dom, nontrivial=nt, key=key)
        elif kind == 'strtab':
            mstr = [utf8_canon(x) for x in answers[w.mi]]
            sp = answers[w.si]
            in_dom = bool(a[3]) and all(x != 'none' for x in sp)
            every = w.extra['data_every']
            mdata = sdata = None
            if every:
                mdata, sd = answers[w.extra['dmi']], answers[w.extra['dsi']]
                mdata = mdata[1][3] if mdata[0] == 'ok' else mdata
                sdata = sd[1][1][3] if sd != 'none' else mdata
            offs = w.extra['offs']

            def run():
                elf = open_after_predecessor(ctx, w.extra['sibling'], w.img,
                                             lambda s0: [s0.get_string(o) for o in offs] + [s0.data()])
                how = a[6][3] if len(a) > 6 and len(a[6]) > 3 else 1
                ctx.bump('section_entry_point', ENTRY_POINTS[how])
                sec = obtain_section(how, None, lambda: elf)
                strings, datas = [], []
                for i, o in enumerate(offs):
                    if every and i % every == 0:
                        d = impl_call(sec.data)
                        datas.append(['ok', d] if isinstance(d, bytes) else d)
                    strings.append(sec.get_string(o).encode('utf-8'))
                return [strings, datas]
            impl = impl_call(run)
            ndata = len(range(0, len(offs), every)) if every else 0
            model = [mstr, [mdata] * ndata]
            spec = [[utf8_canon(x[1]) for x in sp], [sdata] * ndata] if in_dom else model
            ctx.bump('strtab_offsets', len(offs) // 100 * 100)
            ctx.bump('strtab_longest_string', max(len(x) for x in a[2]) // 8192 * 8192)
            ctx.bump('strtab_order', 'ascending' if not (len(a) > 6 and a[6][0]) else 'descending' if a[6][0] == 1 else 'shuffled')
            ctx.record(kind, w.full, impl=impl, spec=spec, model=model_for(w, in_dom, model), in_domain=in_dom,
                       nontrivial=any(len(s) >= 63 for s in a[2]))
        elif kind == 'seg_data':
            mdata = answers[w.mi]
            mdata = mdata[1] if isinstance(mdata, list) and mdata[0] == 'ok' else mdata
            sp = answers[w.si]
            if len(a) > 8:
                ctx.bump('p_memsz_vs_p_filesz', 'zero' if a[8][3] == 0 and a[3] else 'smaller' if a[8][3] < a[3] else
                         'equal' if a[8][3] == a[3] else 'larger')
            in_dom = sp != 'none'
            sdata = sp[1] if in_dom else mdata
            how, ops = w.extra['how'], w.extra['ops']
            msis, ssis = {}, {}
            for code, (mi, si) in w.extra['sis'].items():
                msis[code] = answers[mi]
                dom, strict, lists, tbss = answers[si]
                ssis[code] = strict if dom else msis[code]

            def run():
                if how == 4:
                    seg = load_and_drop_owner(w.img)[0]
                    try:
                        return [impl_call(seg.data) for code in ops]
                    finally:
                        seg.stream.close()
                elf = open_elf(w.img)
                if how == 0:
                    seg = elf.get_segment(0)
                elif how == 1:
                    it = elf.iter_segments()
                    seg = next(it)
                elif how == 2:
                    seg = list(elf.iter_segments())[0]
                else:
                    it = elf.iter_segments(type=elf.get_segment(0)['p_type'])
                    seg = next(it)
                out = []
                for code in ops:
                    if code == 0:
                        out.append(impl_call(seg.data))
                    else:
                        sec = elf.get_section(code - 1)
                        out.append(impl_call(lambda: int(bool(seg.section_in_segment(sec)))))
                return out
            impl = impl_call(run)
            model = [mdata if c == 0 else msis[c] for c in ops]
            spec = [sdata if c == 0 else ssis[c] for c in ops]
            ctx.bump('seg_obtained', ('get_segment', 'iter_segments abandoned', 'list(iter_segments)', 'iter_segments(type) abandoned',
                                      'load_from_path, ELFFile dropped')[how])
            ctx.record(kind, w.full, impl=impl, spec=spec, model=model_for(w, in_dom, model), in_domain=in_dom, nontrivial=a[3] > 0)
        elif kind == 'interp':
            mname = answers[w.mi]
            if isinstance(mname, list) and mname[0] == 'ok':
                mname = ['ok', utf8_canon(mname[1])]
            sp = answers[w.si]
            in_dom = sp != 'none'
            sname = ['ok', utf8_canon(sp[1])] if in_dom else mname
            ops = w.extra['ops']
            if 1 in ops:
                mdata, sd = answers[w.extra['dmi']], answers[w.extra['dsi']]
                mdata = mdata[1] if isinstance(mdata, list) and mdata[0] == 'ok' else mdata
                sdata = sd[1] if sd != 'none' else mdata      # extent past the end of the file: not this property's
            else:
                mdata = sdata = None

            def run():
                drop = w.extra['drop_owner']
                seg = load_and_drop_owner(w.img)[0] if drop else open_elf(w.img).get_segment(0)
                out = []
                try:
                    for code in ops:
                        if code == 0:
                            out.append(impl_call(lambda: ['ok', seg.get_interp_name().encode('utf-8')]))
                        else:
                            out.append(impl_call(seg.data))
                finally:
                    if drop:
                        seg.stream.close()
                return out
            ctx.bump('interp_owner', 'ELFFile dropped before asking' if w.extra['drop_owner'] else 'alive')
            impl = impl_call(run)
            model = [mname if c == 0 else mdata for c in ops]
            spec = [sname if c == 0 else sdata for c in ops]
            ctx.record(kind, w.full, impl=impl, spec=spec, model=model_for(w, in_dom, model), in_domain=in_dom, nontrivial=len(a[2]) > 0)
        elif kind == 'addr':
            cfg, phgap, phextra, segs, start, size = a
            model = answers[w.mi]
            wf, offs = answers[w.si]
            in_dom = bool(wf)
            spec = ['ok', offs] if in_dom else model

            def run():
                elf = open_elf(w.img)
                return ['ok', list(elf.address_offsets(start) if size is None else elf.address_offsets(start, size))]
            impl = impl_call(run)
            ctx.bump('addr_hits', len(offs))
            ctx.record(kind, w.full, impl=impl, spec=spec, model=model_for(w, in_dom, model), in_domain=in_dom, nontrivial=True)
        elif kind == 'big':
            def digest(d):
                import hashlib
                return [len(d), hashlib.blake2b(d, digest_size=16).digest()] if isinstance(d, bytes) else d
            if a[0] == 'nobits':
                size = a[2]
                sp = answers[w.si]
                in_dom = sp != 'none'

                def zeros(d):
                    return [len(d), int(d.count(0) == len(d))] if isinstance(d, bytes) else d

                def run():
                    elf = open_elf(w.img)
                    sec = elf.get_section(1)
                    first = zeros(impl_call(sec.data))
                    hdr = [int(bool(sec.compressed)), sec.data_size, sec.data_alignment]
                    other = list(elf.iter_sections())[1]
                    return [['ok', hdr], first, zeros(impl_call(sec.data)), zeros(impl_call(other.data))]
                impl = impl_call(run)
                spec = [sp[1][0], [size, 1], [size, 1], [size, 1]] if in_dom else None
                ctx.bump('big', 'SHT_NOBITS %d MiB+' % (size >> 20))
                ctx.record(kind, w.full, impl=impl, spec=spec if in_dom else impl, model=None, in_domain=in_dom,
                           nontrivial=True, key='big-nobits')
            else:
                fsz = a[2]
                want = digest(w.img[BASE:BASE + fsz])

                def run():
                    elf = open_elf(w.img)
                    seg = elf.get_segment(0)
                    return [digest(impl_call(seg.data)), digest(impl_call(next(elf.iter_segments()).data)),
                            digest(impl_call(seg.data))]
                impl = impl_call(run)
                ctx.bump('big', 'segment 16 MiB+')
                ctx.record(kind, w.full, impl=impl, spec=[want, want, want], model=None, in_domain=True,
                           nontrivial=True, key='big-segment')
        elif kind == 'addr_big':
            cfg, phextra, runs, ops = a
            fits, sans = answers[w.si]
            in_dom = bool(fits) and w.plan.fits
            impl = impl_call(lambda: run_history(ctx, w.img, ops))
            ctx.bump('program_headers', w.plan.count)
            ctx.record(kind, w.full, impl=impl, spec=sans, model=None, in_domain=in_dom, nontrivial=True)
        elif kind == 'addr_hist':
            cfg, phgap, phextra, segs, ops = a
            model = answers[w.mi]
            wf, sans = answers[w.si]
            in_dom = bool(wf)
            spec = sans if in_dom else model
            impl = impl_call(lambda: run_history(ctx, w.img, ops))
            ctx.bump('history_ops', len(ops) // 5 * 5)
            ctx.record(kind, w.full, impl=impl, spec=spec, model=model_for(w, in_dom, model), in_domain=in_dom, nontrivial=True)
        elif kind == 'sis':
            cfg, g, s = a
            dom, strict, lists, tbss = answers[w.si]
            model = answers[w.mi]
            impl = sis_impl[(tuple(cfg), kind, tuple(s), tuple(g))]
            impl = int(impl) if isinstance(impl, bool) else impl
            key = None
            if g[0] in (2, 4) and s[4] == 0:
                key = K_ZERO
            elif PT['SFRAME'] <= g[0] <= PT['MBIND_HI'] and not (s[1] & SHF_ALLOC):
                key = K_SFRAME
            ctx.bump('sis_domain', 'in' if dom else ('tbss_special' if tbss else 'wraps'))
            ctx.bump('sis_result', strict)
            ctx.record(kind, w.full, impl=impl, spec=strict if dom else model, model=model, in_domain=bool(dom),
                       nontrivial=True, key=key)
        elif kind == 'sis_oracle':
            cfg, g, s = a
            dom, strict, lists, tbss = answers[w.si]
            oracle = int(sis_impl[(tuple(cfg), kind, tuple(s), tuple(g))])
            ctx.bump('sis_oracle', 'agree' if oracle == lists else 'DISAGREE')
            # "impl" here is the installed readelf, "spec" the Coq macro incl. readelf's TBSS filter
            ctx.record(kind, w.full, impl=oracle, spec=lists, model=None, in_domain=True, nontrivial=True, key=K_ORACLE)
