"""c07_build.py — scaffolding for the C07 harness: a minimal .debug_abbrev/.debug_info builder and the
DWARFInfo-over-BytesIO constructor.  The list sections themselves (.debug_loc, .debug_ranges,
.debug_loclists, .debug_rnglists, .debug_addr) are NOT built here: their bytes come from the Coq
encoders of Spec/C07Lists.v through the driver.  Decoding of DIEs is property C04's subject; here the
DIEs are only the carrier of DW_AT_location/DW_AT_ranges/DW_AT_*_base attribute values."""
import io


def uleb(v):
    out = bytearray()
    while True:
        b = v & 0x7f
        v >>= 7
        if v:
            out.append(b | 0x80)
        else:
            out.append(b)
            return bytes(out)


def sleb(v):
    out = bytearray()
    while True:
        b = v & 0x7f
        v >>= 7
        if (v == 0 and not b & 0x40) or (v == -1 and b & 0x40):
            out.append(b)
            return bytes(out)
        out.append(b | 0x80)


def _int(le, n, v):
    return int(v).to_bytes(n, 'little' if le else 'big')


def enc_form(le, is64, asz, form, value):
    """bytes of one attribute value in the given form; value is an int or bytes"""
    osz = 8 if is64 else 4
    if form in ('DW_FORM_data1', 'DW_FORM_data2', 'DW_FORM_data4', 'DW_FORM_data8'):
        return _int(le, int(form[12:]), value)
    if form == 'DW_FORM_data16':
        return _int(le, 16, value)
    if form == 'DW_FORM_sdata':
        return sleb(value)
    if form in ('DW_FORM_udata', 'DW_FORM_loclistx', 'DW_FORM_rnglistx', 'DW_FORM_addrx', 'DW_FORM_ref_udata'):
        return uleb(value)
    if form in ('DW_FORM_sec_offset', 'DW_FORM_strp', 'DW_FORM_ref_addr'):
        return _int(le, osz, value)
    if form == 'DW_FORM_addr':
        return _int(le, asz, value)
    if form in ('DW_FORM_ref1', 'DW_FORM_ref2', 'DW_FORM_ref4', 'DW_FORM_ref8'):
        return _int(le, int(form[11:]), value)
    if form == 'DW_FORM_flag':
        return _int(le, 1, value)
    if form == 'DW_FORM_flag_present':
        return b''
    if form in ('DW_FORM_exprloc', 'DW_FORM_block'):
        return uleb(len(value)) + bytes(value)
    if form == 'DW_FORM_block1':
        return _int(le, 1, len(value)) + bytes(value)
    if form == 'DW_FORM_block2':
        return _int(le, 2, len(value)) + bytes(value)
    if form == 'DW_FORM_block4':
        return _int(le, 4, len(value)) + bytes(value)
    if form == 'DW_FORM_string':
        return bytes(value) + b'\0'
    raise ValueError('builder has no encoder for ' + form)


def build_info(le, cus):
    """cus: list of dicts {version, is64, asz, dies: [[(name, form, value), ...], ...]}; dies[0] is the
    unit DIE (DW_TAG_compile_unit, has children), the others are its children (DW_TAG_variable).
    Returns (debug_info, debug_abbrev, [cu_offset...])."""
    from elftools.dwarf.enums import ENUM_DW_AT, ENUM_DW_FORM, ENUM_DW_TAG
    info = bytearray()
    abbrev = bytearray()
    offsets = []
    for cu in cus:
        is64, asz, ver = cu['is64'], cu['asz'], cu['version']
        osz = 8 if is64 else 4
        abbrev_off = len(abbrev)
        body = bytearray()
        for i, attrs in enumerate(cu['dies']):
            code = i + 1
            abbrev += uleb(code)
            abbrev += uleb(ENUM_DW_TAG['DW_TAG_compile_unit' if i == 0 else 'DW_TAG_variable'])
            abbrev += bytes([1 if i == 0 else 0])
            body += uleb(code)
            for name, form, value in attrs:
                if form.startswith('DW_FORM_indirect>'):
                    # declared DW_FORM_indirect: the DIE carries the code of the real form, then the value in it
                    real = form[len('DW_FORM_indirect>'):]
                    abbrev += uleb(ENUM_DW_AT[name]) + uleb(ENUM_DW_FORM['DW_FORM_indirect'])
                    body += uleb(ENUM_DW_FORM[real]) + enc_form(le, is64, asz, real, value)
                    continue
                abbrev += uleb(ENUM_DW_AT[name]) + uleb(ENUM_DW_FORM[form])
                body += enc_form(le, is64, asz, form, value)
            abbrev += b'\0\0'
        abbrev += b'\0'
        body += b'\0'   # end of the unit DIE's children
        if ver >= 5:
            hdr = _int(le, 2, ver) + bytes([1, asz]) + _int(le, osz, abbrev_off)    # DW_UT_compile
        else:
            hdr = _int(le, 2, ver) + _int(le, osz, abbrev_off) + bytes([asz])
        ulen = len(hdr) + len(body)
        offsets.append(len(info))
        info += (b'\xff\xff\xff\xff' + _int(le, 8, ulen)) if is64 else _int(le, 4, ulen)
        info += hdr + body
    return bytes(info), bytes(abbrev), offsets


LIST_SECTIONS = ('loc', 'ranges', 'loclists', 'rnglists')


def make_dwarfinfo(le, default_asz, sections, opener=None, kinds=('bytesio', 'bytesio')):
    """sections: dict name -> bytes or None for info, abbrev, loc, ranges, loclists, rnglists, addr.
    opener(data, kind) gives the stream of a section (tools/lib/streams.py); kinds = (kind of the four list
    sections, kind of .debug_info/.debug_abbrev/.debug_addr)."""
    from elftools.dwarf.dwarfinfo import DWARFInfo, DebugSectionDescriptor, DwarfConfig
    def d(name, key):
        b = sections.get(key)
        if b is None:
            return None
        st = io.BytesIO(b) if opener is None else opener(b, kinds[0] if key in LIST_SECTIONS else kinds[1])
        return DebugSectionDescriptor(stream=st, name=name, global_offset=0, size=len(b), address=0)
    return DWARFInfo(
        config=DwarfConfig(little_endian=le, machine_arch='x64', default_address_size=default_asz),
        debug_info_sec=d('.debug_info', 'info'), debug_aranges_sec=None,
        debug_abbrev_sec=d('.debug_abbrev', 'abbrev'), debug_frame_sec=None, eh_frame_sec=None,
        debug_str_sec=None, debug_loc_sec=d('.debug_loc', 'loc'), debug_ranges_sec=d('.debug_ranges', 'ranges'),
        debug_line_sec=None, debug_pubtypes_sec=None, debug_pubnames_sec=None,
        debug_addr_sec=d('.debug_addr', 'addr'), debug_str_offsets_sec=None, debug_line_str_sec=None,
        debug_loclists_sec=d('.debug_loclists', 'loclists'), debug_rnglists_sec=d('.debug_rnglists', 'rnglists'),
        debug_sup_sec=None, gnu_debugaltlink_sec=None, debug_types_sec=None)
