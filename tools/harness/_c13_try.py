import sys, os, json, collections
sys.path.insert(0, '/verif'); sys.path.insert(0, os.environ.get('VERIF_REPO', '/repo'))
from tools.lib import framework as F
from tools.harness import c13
exe, msg, stale = F.step_driver('C13', 'Extract/DrvC13.v')
print('driver', msg)
ctx = F.Ctx('C13', os.environ.get('VERIF_TIER', 'quick'), 0, F.Driver(exe))
cases = c13.corpus(ctx) + c13.gen(ctx)
print(len(cases), 'cases')
import time; t=time.time()
c13.evaluate(ctx, cases)
print('eval', time.time()-t)
cnt = collections.Counter()
shown = collections.Counter()
for r in ctx.results:
    tag = []
    if r['impl'] != r['spec']: tag.append('impl!=spec')
    if r['impl'] != r['model']: tag.append('impl!=model')
    if r['model'] != r['spec']: tag.append('model!=spec')
    k = (r['kind'], r['in_domain'], tuple(tag), r['key'])
    cnt[k] += 1
    if tag and shown[k] < 2:
        shown[k] += 1
        print('----', k)
        print(' abstract', repr(r['abstract'])[:600])
        print(' impl ', repr(r['impl'])[:500])
        print(' model', repr(r['model'])[:500])
        print(' spec ', repr(r['spec'])[:500])
for k, v in sorted(cnt.items(), key=str): print(v, k)
